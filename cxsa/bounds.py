"""Interval abstract interpretation over ssa terms (rule kind R-INV: representation invariants and absence of
overflow / truncation in multi-precision limb code).

An `Iv` maps every ssa term to an integer interval [lo, hi] that contains the term's *mathematical* value for all
inputs satisfying the leaf bounds.  Every arithmetic node is also checked against the range of its machine type:

  * a node whose exact interval does not fit its type is recorded in `wraps` (kind 'Add', 'Sub', 'Mul', 'Shl', 'cast')
    and its interval is widened to the whole type range, so everything computed from it stays sound;
  * carry splitting is exact:  x >> k  and  x & (2^k - 1)  keep the quotient / remainder relation whenever the quotient
    is a single value on the interval;
  * `constraints` restrict chosen terms to sub-intervals (trace partitioning on small carries, see `partitions`).

Nothing here runs code: terms come from the ssa evaluator (cxsa/ssa.py), intervals are computed bottom-up."""
from . import ssa

WIDTH = ssa.WIDTH


def ty_range(ty):
    w = WIDTH.get(ty)
    if w is None:
        return None
    if ssa.is_signed(ty):
        return (-(1 << (w - 1)), (1 << (w - 1)) - 1)
    return (0, (1 << w) - 1)


def fits(iv, ty):
    r = ty_range(ty)
    return r is None or (r[0] <= iv[0] and iv[1] <= r[1])


class Infeasible(Exception):
    pass


class Iv:
    def __init__(self, leaf, constraints=None, ops_exempt=None):
        self.leaf = leaf                      # leaf(term) -> (lo, hi) or None
        self.constraints = constraints or {}  # term -> (lo, hi)
        self.memo = {}
        self.wraps = []                       # (kind, term, exact interval, type)
        self.unknown = []
        self.ops_exempt = ops_exempt or (lambda t: False)

    def iv(self, t):
        r = self.memo.get(t)
        if r is None:
            r = self._iv(t)
            c = self.constraints.get(t)
            if c is not None:
                r = (max(r[0], c[0]), min(r[1], c[1]))
                if r[0] > r[1]:
                    raise Infeasible(t)
            self.memo[t] = r
        return r

    def _fit(self, kind, t, iv, ty):
        if fits(iv, ty):
            return iv
        if not self.ops_exempt(t):
            self.wraps.append((kind, t, iv, ty))
        return ty_range(ty) or iv

    def _iv(self, t):
        if not isinstance(t, tuple) or not t:
            self.unknown.append(t)
            return (0, (1 << 128) - 1)
        lf = self.leaf(t)
        if lf is not None:
            return lf
        k = t[0]
        if k == "c":
            v = t[1]
            if isinstance(v, bool):
                v = int(v)
            if isinstance(v, int):
                return (v, v)
        if k == "ld":            # n-byte load from a byte buffer
            return (0, (1 << (8 * t[2])) - 1)
        if k == "pack":
            n = len(t[2]) if isinstance(t[2], tuple) else 8
            return (0, (1 << (8 * n)) - 1)
        if k == "cast":
            a = self.iv(t[1])
            ty = t[2]
            if ty_range(ty) is None:
                return a
            if not fits(a, ty):
                # two's-complement reinterpretation is exact when the whole interval lies in one 2^w window
                w = WIDTH[ty]
                if (a[0] >> w) == (a[1] >> w):
                    lo, hi = a[0] & ((1 << w) - 1), a[1] & ((1 << w) - 1)
                    if ssa.is_signed(ty):
                        if (lo >> (w - 1)) == (hi >> (w - 1)):
                            if lo >> (w - 1):
                                lo, hi = lo - (1 << w), hi - (1 << w)
                            if not self.ops_exempt(t):
                                self.wraps.append(("cast", t, a, ty))
                            return (lo, hi)
                    else:
                        if not self.ops_exempt(t):
                            self.wraps.append(("cast", t, a, ty))
                        return (lo, hi)
            return self._fit("cast", t, a, ty)
        if k == "ite":
            a, b = self.iv(t[2]), self.iv(t[3])
            return (min(a[0], b[0]), max(a[1], b[1]))
        if k == "minmax":
            a, b = self.iv(t[2]), self.iv(t[3])
            if t[1] == "min":
                return (min(a[0], b[0]), min(a[1], b[1]))
            return (max(a[0], b[0]), max(a[1], b[1]))
        if k == "un":
            a = self.iv(t[2])
            ty = t[3] if len(t) > 3 else None
            if t[1] == "Neg":
                return self._fit("Neg", t, (-a[1], -a[0]), ty)
            if t[1] == "Not":
                r = ty_range(ty)
                if r is not None and r[0] == 0:
                    return (r[1] - a[1], r[1] - a[0])
                if r is not None:
                    return (-a[1] - 1, -a[0] - 1)
        if k == "bin":
            op, ty = t[1], t[4]
            a, b = self.iv(t[2]), self.iv(t[3])
            if op in ("Eq", "Ne", "Lt", "Le", "Gt", "Ge"):
                r = None
                if op in ("Eq", "Ne"):
                    if a[1] < b[0] or b[1] < a[0]:
                        r = 0
                    elif a[0] == a[1] == b[0] == b[1]:
                        r = 1
                    if r is not None and op == "Ne":
                        r = 1 - r
                elif op in ("Lt", "Ge"):
                    r = 1 if a[1] < b[0] else 0 if a[0] >= b[1] else None
                    if r is not None and op == "Ge":
                        r = 1 - r
                else:
                    r = 1 if a[0] > b[1] else 0 if a[1] <= b[0] else None
                    if r is not None and op == "Le":
                        r = 1 - r
                return (r, r) if r is not None else (0, 1)
            if op in ("Add", "AddUnchecked"):
                return self._fit("Add", t, (a[0] + b[0], a[1] + b[1]), ty)
            if op in ("Sub", "SubUnchecked"):
                # centred remainder  x - (((x + c) >> k) << k)  =  ((x + c) mod 2^k) - c   (exact, relational)
                y = t[3]
                if isinstance(y, tuple) and y[0] == "bin" and y[1] in ("Shl", "ShlUnchecked") and ssa.is_c(y[3]):
                    z = y[2]
                    if isinstance(z, tuple) and z[0] == "bin" and z[1] in ("Shr", "ShrUnchecked") and ssa.is_c(z[3]) and z[3][1] == y[3][1]:
                        k_ = y[3][1]
                        w = z[2]
                        c_ = 0
                        if isinstance(w, tuple) and w[0] == "bin" and w[1] in ("Add", "AddUnchecked") and ssa.is_c(w[3]) and w[2] == t[2]:
                            c_, w = w[3][1], w[2]
                        if w == t[2] and 0 <= c_ < (1 << k_) and fits((b[0], b[1]), ty):
                            return (-c_, (1 << k_) - 1 - c_)
                return self._fit("Sub", t, (a[0] - b[1], a[1] - b[0]), ty)
            if op in ("Mul", "MulUnchecked"):
                c = [a[0] * b[0], a[0] * b[1], a[1] * b[0], a[1] * b[1]]
                return self._fit("Mul", t, (min(c), max(c)), ty)
            if op in ("Shl", "ShlUnchecked") and b[0] == b[1] and 0 <= b[0] < 256:
                return self._fit("Shl", t, (a[0] << b[0], a[1] << b[0]), ty)
            if op in ("Shr", "ShrUnchecked") and b[0] == b[1] and 0 <= b[0] < 256:
                return (a[0] >> b[0], a[1] >> b[0])
            if op == "BitAnd":
                for x, m in ((a, b), (b, a)):
                    if m[0] == m[1] and m[0] >= 0 and (m[0] & (m[0] + 1)) == 0:
                        kb = m[0].bit_length()
                        if (x[0] >> kb) == (x[1] >> kb):
                            q = (x[0] >> kb) << kb
                            return (x[0] - q, x[1] - q)
                        return (0, m[0])
                if a[0] >= 0 and b[0] >= 0:
                    return (0, min(a[1], b[1]))
                if a[0] >= 0:
                    return (0, a[1])
                if b[0] >= 0:
                    return (0, b[1])
            if op in ("BitOr", "BitXor") and a[0] >= 0 and b[0] >= 0:
                if a[0] == a[1] and b[0] == b[1]:
                    v = (a[0] | b[0]) if op == "BitOr" else (a[0] ^ b[0])
                    return (v, v)
                hi = (1 << max(a[1].bit_length(), b[1].bit_length())) - 1
                if op == "BitXor":
                    return ((1 if (a[1] < b[0] or b[1] < a[0]) else 0), hi)     # different values differ in some bit
                return (max(a[0], b[0]), hi)
            if op in ("Div",) and b[0] > 0 and a[0] >= 0:
                return (a[0] // b[1], a[1] // b[0])
            if op in ("Rem",) and b[0] > 0 and a[0] >= 0:
                return (0, min(a[1], b[1] - 1))
            r = ty_range(ty)
            if r is not None:
                return r
        if k in ("rotr", "rot"):
            r = ty_range(t[-1])
            if r is not None:
                return r
        if k == "ovf":
            return (0, 1)
        self.unknown.append(t)
        return (-(1 << 127), (1 << 128) - 1)


def subterms(t, seen=None, out=None):
    """post-order list of distinct sub-terms"""
    if seen is None:
        seen, out = set(), []
    st = [(t, False)]
    while st:
        x, done = st.pop()
        if not isinstance(x, tuple) or not x:
            continue
        if done:
            out.append(x)
            continue
        if x in seen:
            continue
        seen.add(x)
        st.append((x, True))
        for y in x[1:]:
            if isinstance(y, tuple):
                st.append((y, False))
    return out


def carry_candidates(roots, leaf, maxvals=2):
    """Shr-by-constant terms whose interval holds 2..maxvals values: the carries worth partitioning on (in evaluation order)"""
    ev = Iv(leaf)
    seen, order = set(), []
    for r in roots:
        subterms(r, seen, order)
    out = []
    for t in order:
        if t[0] == "bin" and t[1] in ("Shr", "ShrUnchecked") and ssa.is_c(t[3]):
            try:
                v = ev.iv(t)
            except Infeasible:
                continue
            if 1 <= v[1] - v[0] < maxvals:
                out.append(t)
    return out


def partitions(roots, leaf, maxsplits=10, maxvals=2):
    """Trace partitioning on small carries: yields one Iv per feasible assignment of the candidate carries to single
    values (the dividend is constrained to the matching sub-interval)."""
    cands = carry_candidates(roots, leaf, maxvals)[:maxsplits]

    def rec(i, cons):
        if i == len(cands):
            yield dict(cons)
            return
        t = cands[i]
        k = t[3][1]
        ev = Iv(leaf, cons)
        try:
            v = ev.iv(t)
            x = ev.iv(t[2])
        except Infeasible:
            return
        if v[0] == v[1]:
            for z in rec(i + 1, cons):
                yield z
            return
        for q in range(v[0], v[1] + 1):
            c2 = dict(cons)
            lo, hi = max(x[0], q << k), min(x[1], ((q + 1) << k) - 1)
            if lo > hi:
                continue
            c2[t[2]] = (lo, hi)
            for z in rec(i + 1, c2):
                yield z
    for cons in rec(0, {}):
        ev = Iv(leaf, cons)
        try:
            for r in roots:
                ev.iv(r)
        except Infeasible:
            continue
        yield ev


def assert_failures(res, ev):
    """overflow asserts of an ssa result that the intervals cannot discharge: list of (bb, kind, exact interval, type)"""
    bad = []
    for (bb, kind, cnd, expected, ops) in res.asserts:
        if not kind.startswith("overflow:"):
            continue
        op = kind.split(":")[1]
        if not (isinstance(cnd, tuple) and cnd and cnd[0] == "ovf"):
            if ssa.is_c(cnd) and bool(cnd[1]) == bool(expected):
                continue
            if op == "Neg" and isinstance(cnd, tuple) and cnd[0] == "bin" and cnd[1] == "Eq" and ssa.is_c(cnd[3]) and not expected:
                # -x overflows only for x == MIN
                try:
                    x = ev.iv(cnd[2])
                except Infeasible:
                    continue
                if x[0] > cnd[3][1]:
                    continue
                bad.append((bb, kind, x, cnd[3][2]))
                continue
            if op in ("Shr", "Shl"):
                # shift amount in range: the operand is the amount
                if len(ops) == 2:
                    try:
                        amt = ev.iv(ops[1])
                    except Infeasible:
                        continue
                    if 0 <= amt[0] and amt[1] < 128:
                        continue
            bad.append((bb, kind, None, None))
            continue
        ty = cnd[4]
        try:
            a, b = ev.iv(cnd[2]), ev.iv(cnd[3])
        except Infeasible:
            continue
        if op == "Add":
            x = (a[0] + b[0], a[1] + b[1])
        elif op == "Sub":
            x = (a[0] - b[1], a[1] - b[0])
        elif op == "Mul":
            c = [a[0] * b[0], a[0] * b[1], a[1] * b[0], a[1] * b[1]]
            x = (min(c), max(c))
        else:
            continue
        if not fits(x, ty):
            bad.append((bb, kind, x, ty))
    return bad


def fmt_iv(iv):
    def f(v):
        if abs(v) < 1 << 16:
            return str(v)
        s = "-" if v < 0 else ""
        v = abs(v)
        b = v.bit_length()
        if v == (1 << b) - 1:
            return "%s2^%d-1" % (s, b)
        if v & (v - 1) == 0:
            return "%s2^%d" % (s, b - 1)
        return "%s~2^%.2f" % (s, __import__("math").log2(v))
    return "[%s, %s]" % (f(iv[0]), f(iv[1]))
