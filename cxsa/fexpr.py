"""Field-expression abstractions over mir expression trees: polynomial form and exponent form of
expressions built from the Fe operators."""
import re
from . import pred
from .poly import Poly
from .spec import curve

ADD = re.compile(r"Fe as core::ops::Add(<&'?\w* ?curve25519::fe::fe\d\d::Fe>)?>::add$|Fe as core::ops::Add>::add$")
SUB = re.compile(r"Fe as core::ops::Sub(<.*>)?>::sub$")
MUL = re.compile(r"Fe as core::ops::Mul(<.*>)?>::mul$")
NEG = re.compile(r"Fe as core::ops::Neg>::neg$")
SQUARE = re.compile(r"fe::fe\d\d::Fe::square$")
SQN = re.compile(r"fe::fe\d\d::Fe::square_repeatdly$")
SQ2 = re.compile(r"fe::fe\d\d::Fe::square_and_double$")
MULSMALL = re.compile(r"fe::fe\d\d::Fe::mul_small(?:::<S0>)?#(\d+)$")
CLONE = re.compile(r"Fe as core::clone::Clone>::clone$")
INVERT = re.compile(r"curve25519::fe::<impl curve25519::fe::fe\d\d::Fe>::invert$")
POW = re.compile(r"curve25519::fe::<impl curve25519::fe::fe\d\d::Fe>::pow25523$")


def strip(e):
    while isinstance(e, tuple) and e[0] in ("ref", "deref", "cast"):
        e = e[2] if e[0] in ("ref", "cast") else e[1]
    return e


def fe_const(e, backend):
    """integer value (mod p) of a constant Fe operand, or None"""
    e = strip(e)
    if e[0] == "kconst" and isinstance(e[3], tuple):
        d = dict(e[3]) if e[3] and isinstance(e[3][0], tuple) and len(e[3][0]) == 2 and isinstance(e[3][0][0], str) else None
        if d and "0" in d:
            limbs = d["0"]
            return curve.fe64_value(limbs) if len(limbs) == 5 else curve.fe32_value(limbs)
    return None


def to_poly(fn, e, leaf, mod=None):
    """Polynomial of a field expression; leaf(canonical_name) -> variable name (or None to refuse)."""
    e = strip(e)
    if e[0] == "call":
        nm, args = e[1], e[2]
        if CLONE.search(nm):
            return to_poly(fn, args[0], leaf, mod)
        if ADD.search(nm):
            a, b = to_poly(fn, args[0], leaf, mod), to_poly(fn, args[1], leaf, mod)
            return None if a is None or b is None else a + b
        if SUB.search(nm):
            a, b = to_poly(fn, args[0], leaf, mod), to_poly(fn, args[1], leaf, mod)
            return None if a is None or b is None else a - b
        if MUL.search(nm):
            a, b = to_poly(fn, args[0], leaf, mod), to_poly(fn, args[1], leaf, mod)
            return None if a is None or b is None else a * b
        if NEG.search(nm):
            a = to_poly(fn, args[0], leaf, mod)
            return None if a is None else -a
        if SQUARE.search(nm):
            a = to_poly(fn, args[0], leaf, mod)
            return None if a is None else a * a
        if SQ2.search(nm):
            a = to_poly(fn, args[0], leaf, mod)
            return None if a is None else (a * a) * 2
        m = MULSMALL.search(nm)
        if m:
            a = to_poly(fn, args[0], leaf, mod)
            return None if a is None else a * int(m.group(1))
    c = fe_const(e, None)
    if c is not None:
        return Poly.const(c if c < (1 << 200) else c - curve.P)
    nm = leaf(pred.canon(e, fn), e)
    if nm is None:
        return None
    return Poly.var(nm)


def exponent(fn, e, selfname="arg1"):
    """e = self^k for the returned integer k, built from mul / square / square_repeatdly; None if not."""
    e = strip(e)
    if pred.canon(e, fn) == selfname:
        return 1
    if e[0] == "call":
        nm, args = e[1], e[2]
        if CLONE.search(nm):
            return exponent(fn, args[0], selfname)
        if MUL.search(nm):
            a, b = exponent(fn, args[0], selfname), exponent(fn, args[1], selfname)
            return None if a is None or b is None else a + b
        if SQUARE.search(nm):
            a = exponent(fn, args[0], selfname)
            return None if a is None else 2 * a
        if SQN.search(nm):
            a = exponent(fn, args[0], selfname)
            n = strip(args[1])
            if a is None or n[0] != "const":
                return None
            return a * (2 ** n[1])
    return None


# ---------------------------------------------------------------- the same abstraction over ssa terms
def _ssa_strip(t):
    while isinstance(t, tuple) and len(t) == 2 and t[0] == "refof":
        t = t[1]
    return t


def _ssa_const(t):
    t = _ssa_strip(t)
    if isinstance(t, tuple) and t and t[0] == "kconst" and isinstance(t[3], tuple):
        d = dict(t[3]) if t[3] and isinstance(t[3][0], tuple) and len(t[3][0]) == 2 and isinstance(t[3][0][0], str) else None
        if d and "0" in d:
            limbs = d["0"]
            return curve.fe64_value(limbs) if len(limbs) == 5 else curve.fe32_value(limbs)
    from . import ssa as _ssa
    if isinstance(t, _ssa.Agg):
        inner = t.get("0") if "0" in t else t.get(0)
        if isinstance(inner, _ssa.Agg) and inner.get("_n") in (5, 10) and all(_ssa.is_c(inner.get(i)) for i in range(inner["_n"])):
            limbs = [inner[i][1] for i in range(inner["_n"])]
            return curve.fe64_value(limbs) if len(limbs) == 5 else curve.fe32_value(limbs)
    return None


def ssa_leaf_name(t):
    """canonical name of an input location: arg1.x / arg2.t2d / arg1"""
    t = _ssa_strip(t)
    if isinstance(t, tuple) and t:
        if t[0] == "ref" and t[1][0] == "ext":
            return ".".join([t[1][1]] + [str(p[1]) for p in t[2]])
        if t[0] == "load" and isinstance(t[1], str):
            return t[1]
        if t[0] == "in":
            return t[1]
        if t[0] == "elem":
            b = ssa_leaf_name(t[1])
            return None if b is None else "%s.%s" % (b, t[2])
    return None


def to_poly_ssa(res, t, leaf):
    """Polynomial of a field expression given as an ssa term of evaluation result `res` (reassigned locals, values moved
    through temporaries and private helpers are already resolved by the evaluator); leaf(name) -> variable name or None"""
    t = _ssa_strip(t)
    if isinstance(t, tuple) and t and t[0] == "call":
        nm, args, uid = t[1], list(t[2]), t[3]
        av = res.argvals.get(uid) or [None] * len(args)
        vals = [(av[i] if i < len(av) and av[i] is not None else args[i]) for i in range(len(args))]

        def sub(i):
            return to_poly_ssa(res, vals[i], leaf)
        if CLONE.search(nm):
            return sub(0)
        if ADD.search(nm):
            a, b = sub(0), sub(1)
            return None if a is None or b is None else a + b
        if SUB.search(nm):
            a, b = sub(0), sub(1)
            return None if a is None or b is None else a - b
        if MUL.search(nm):
            a, b = sub(0), sub(1)
            return None if a is None or b is None else a * b
        if NEG.search(nm):
            a = sub(0)
            return None if a is None else -a
        if SQUARE.search(nm):
            a = sub(0)
            return None if a is None else a * a
        if SQ2.search(nm):
            a = sub(0)
            return None if a is None else (a * a) * 2
        m = re.search(r"fe::fe\d\d::Fe::mul_small(?:::<S0>)?(?:#(\d+))?$", nm)
        if m and m.group(1):
            a = sub(0)
            return None if a is None else a * int(m.group(1))
        return None
    c = _ssa_const(t)
    if c is not None:
        return Poly.const(c if c < (1 << 200) else c - curve.P)
    nm = ssa_leaf_name(t)
    if nm is None:
        return None
    v = leaf(nm, t)
    return None if v is None else Poly.var(v)


def exponent_ssa(res, t, selfname="arg1"):
    """t = self^k as an ssa term of evaluation `res` (private helpers inlined by the evaluator); k or None"""
    t = _ssa_strip(t)
    if ssa_leaf_name(t) == selfname:
        return 1
    if isinstance(t, tuple) and t and t[0] == "call":
        nm, args, uid = t[1], list(t[2]), t[3]
        av = res.argvals.get(uid) or [None] * len(args)
        vals = [(av[i] if i < len(av) and av[i] is not None else args[i]) for i in range(len(args))]
        if CLONE.search(nm):
            return exponent_ssa(res, vals[0], selfname)
        if MUL.search(nm):
            a, b = exponent_ssa(res, vals[0], selfname), exponent_ssa(res, vals[1], selfname)
            return None if a is None or b is None else a + b
        if SQUARE.search(nm):
            a = exponent_ssa(res, vals[0], selfname)
            return None if a is None else 2 * a
        if SQN.search(nm):
            a = exponent_ssa(res, vals[0], selfname)
            n = vals[1]
            if a is None or not (isinstance(n, tuple) and n[:1] == ("c",)):
                return None
            return a * (2 ** n[1])
    return None
