"""Forward term-domain dataflow over MIR (the shared tier-2 engine, DESIGN §2.3).

One pass over the CFG in reverse post-order computes, for every local / tracked memory cell, a
*term* (hash-consed tuple) describing its value as a function of the function's inputs:
constant propagation + global value numbering.  Joins: equal terms stay; differing terms become
('ite', cond, a, b) for simple diamonds, else ('phi', block, ...).  Loops: every cell assigned in a
natural loop is havocked at the loop head (('lv', head, cell)), so the result is a sound summary for
all iterations.  Branches on constants are pruned.  Crate-local callees can be inlined to a stated
depth; otherwise a call is an opaque term and everything reachable through its `&mut` arguments is
havocked.  No path conditions, no solver: this is classic dataflow.

Values:
  scalar term   ('c', int, ty) | ('in', name) | ('bin', op, a, b, ty) | ('un', op, a, ty) |
                ('cast', a, ty) | ('call', name, args, uid) | ('ite', c, a, b) | ('phi', ...) |
                ('lv', head, cell) | ('load', name, epoch) | ('ref', root, path, win) | ...
  aggregate     dict  {'_k': kind, '_n': n, '_d': default-term-or-None, key: value ...}
"""
import re
from . import mir
from .mir import Call

WIDTH = {"u8": 8, "u16": 16, "u32": 32, "u64": 64, "u128": 128, "usize": 64, "i8": 8, "i16": 16, "i32": 32, "i64": 64, "i128": 128, "isize": 64, "bool": 1}


def is_signed(ty):
    return ty.startswith("i") and ty in WIDTH


def C(v, ty):
    w = WIDTH.get(ty)
    if w is not None and isinstance(v, int):
        if is_signed(ty):
            v &= (1 << w) - 1
            if v >> (w - 1):
                v -= 1 << w
        else:
            v &= (1 << w) - 1
    return ("c", v, ty)


def is_c(t):
    return isinstance(t, tuple) and t and t[0] == "c"


def array_len(ty):
    m = re.match(r"^\[(.*); (\d+)\]$", ty or "")
    return int(m.group(2)) if m else None


class Agg(dict):
    """Aggregate value with constant keys."""

    def copy(self):
        a = Agg()
        for k, v in self.items():
            a[k] = v.copy() if isinstance(v, Agg) else v
        return a

    def get_elem(self, key):
        if key in self:
            return self[key]
        d = self.get("_d")
        if d is not None:
            return ("elem", d, key)
        return ("undef",)


def freeze(v):
    if isinstance(v, Agg):
        return ("agg",) + tuple(sorted((str(k), freeze(x)) for k, x in v.items()))
    return v


def mk_bin(op, a, b, ty):
    w = WIDTH.get(ty)
    if is_c(a) and is_c(b) and isinstance(a[1], int) and isinstance(b[1], int):
        x, y = a[1], b[1]
        try:
            if op in ("Add", "AddUnchecked"):
                return C(x + y, ty)
            if op in ("Sub", "SubUnchecked"):
                return C(x - y, ty)
            if op in ("Mul", "MulUnchecked"):
                return C(x * y, ty)
            if op == "BitAnd":
                return C(x & y, ty)
            if op == "BitOr":
                return C(x | y, ty)
            if op == "BitXor":
                return C(x ^ y, ty)
            if op in ("Shl", "ShlUnchecked"):
                return C(x << (y % (w or 64)), ty)
            if op in ("Shr", "ShrUnchecked"):
                return C(x >> (y % (w or 64)), ty)
            if op == "Div" and y:
                return C(x // y, ty)
            if op == "Rem" and y:
                return C(x % y, ty)
            if op in ("Eq", "Ne", "Lt", "Le", "Gt", "Ge"):
                r = {"Eq": x == y, "Ne": x != y, "Lt": x < y, "Le": x <= y, "Gt": x > y, "Ge": x >= y}[op]
                return C(int(r), "bool")
        except Exception:
            pass
    if op in ("BitAnd",) and ((is_c(a) and a[1] == 0) or (is_c(b) and b[1] == 0)):
        return C(0, ty)
    if op in ("BitOr", "BitXor", "Add", "Sub", "Shl", "Shr") and is_c(b) and b[1] == 0:
        return a
    if op in ("BitOr", "BitXor", "Add") and is_c(a) and a[1] == 0:
        return b
    if op == "Mul" and ((is_c(a) and a[1] == 0) or (is_c(b) and b[1] == 0)):
        return C(0, ty)
    if op == "Mul" and is_c(b) and b[1] == 1:
        return a
    if op == "Mul" and is_c(a) and a[1] == 1:
        return b
    return ("bin", op, a, b, ty)


def module_of(path):
    """module prefix of a function path: `a::b::T::f` / `<&a::b::T as Tr>::f` / `a::b::f::{closure#0}` -> `a::b::`"""
    m = re.match(r"^<&?(?:mut )?([\w:]+?)(?:<.*>)? as ", path)
    base = m.group(1) if m else path
    base = re.sub(r"<[^<>]*>", "", base)
    parts = base.split("::")
    while parts and (parts[-1].startswith("{") or not parts[-1] or parts[-1][0].islower() is False and False):
        parts.pop()
    # drop the item itself (function or type + method)
    mods = []
    for p_ in parts:
        if p_ and (p_[0].isupper() or p_.startswith("{")):
            break
        mods.append(p_)
    if len(mods) == len(parts) and mods:
        mods = mods[:-1]      # free function: last component is the function
    return "::".join(mods) + "::" if mods else ""


def auto_inline(prog, fn):
    """default inlining policy: private helpers (not `pub`) defined in the root function's own module — a helper a
    maintainer extracts or inlines must not change what a rule sees"""
    mod = module_of(fn.path)

    def pol(name):
        if not mod or not module_of(name).startswith(mod):
            return False
        cs = prog.by_path.get(name) if hasattr(prog, "by_path") else None
        if not cs or len(cs) != 1:
            return False
        vis = (cs[0].raw.get("vis") or "") if hasattr(cs[0], "raw") else ""
        return not vis.startswith("Public")
    return pol


class Result:
    def __init__(self):
        self.ret = None
        self.stores = []     # (bb, key, value)
        self.mem_at_ret = {}
        self.calls = []      # (bb, name, [values], call term)
        self.asserts = []    # (bb, kind, cond term, operands)
        self.block_in = {}
        self.block_out = {}
        self.argvals = {}    # uid of an opaque call term -> referents of its reference arguments at call time
        self.pruned = set()


class Eval:
    _uid = 0

    def __init__(self, prog, fn, args=None, inline=None, depth=0, maxdepth=3, params=None, shared=None, assume=None, auto=True):
        self.P = prog
        self.fn = fn
        if inline is None:
            self.inline = auto_inline(prog, fn)
        elif auto and depth == 0:
            # an explicit policy names the helpers a rule wants to see through; private helpers of the root function's own
            # module are inlined as well (a helper a maintainer extracts or inlines must not change what a rule sees) unless
            # the rule asks for exactly its policy (auto=False)
            _a, _e = auto_inline(prog, fn), inline
            self.inline = lambda n: bool(_e(n)) or _a(n)
        else:
            self.inline = inline
        self.depth = depth
        self.maxdepth = maxdepth
        self.params = params or {}
        self.args = args
        self.shared = shared if shared is not None else {"mem": {}, "epoch": 0, "frames": {}, "fid": 0}
        self.shared["fid"] += 1
        self.fid = self.shared["fid"]
        self.res = Result()
        self.cond_at = {}
        self.assume = assume

    # ------------------------------------------------------------ helpers
    def uid(self):
        Eval._uid += 1
        return Eval._uid

    def ty(self, local):
        return self.fn.locals[local]

    def arg_value(self, i):
        if self.args is not None and i - 1 < len(self.args) and self.args[i - 1] is not None:
            return self.args[i - 1]
        t = self.ty(i)
        if t.startswith("&") or t.startswith("*"):
            return ("ref", ("ext", "arg%d" % i), (), None)
        return ("in", "arg%d" % i)

    # ------------------------------------------------------------ memory
    def ext_key(self, root, path):
        s = root[1]
        for p in path:
            if p[0] == "f":
                s += "." + p[1]
            elif p[0] == "i":
                s += "[%s]" % (p[1] if not isinstance(p[1], tuple) else "?")
            elif p[0] == "w":
                s += "[%s..%s]" % (p[1], p[2])
            else:
                s += "?%s" % (p,)
        return s

    def read_ref(self, env, ref, extra=()):
        """Read the value stored at ref (+ extra path)."""
        if isinstance(ref, tuple) and ref and ref[0] == "refof":
            # a reference to a value (a promoted constant, a temporary): reading through it reads the value
            return self.read_path(ref[1], extra)
        if not (isinstance(ref, tuple) and ref and ref[0] == "ref"):
            return ("deref", ref) if not extra else ("derefp", ref, extra)
        root, path, win = ref[1], tuple(ref[2]) + tuple(extra), ref[3]
        if root[0] == "local":
            fenv = self.shared["frames"].get(root[1])
            if fenv is None:
                return ("dangling",)
            v = fenv.get(root[2], ("undef",))
            return self.read_path(v, path)
        key = self.ext_key(root, path)
        m = self.shared["mem"]
        if key in m:
            return m[key]
        # a value written on a prefix of this path?
        for i in range(len(path) - 1, -1, -1):
            k = self.ext_key(root, path[:i])
            if k in m:
                return self.read_path(m[k], path[i:])
        return ("load", key, self.epoch_of(key))

    def epoch_of(self, key):
        eps = self.shared.get("epochs", {})
        n = eps.get(key, 0)
        for k in self._prefixes(key):
            n += eps.get(k, 0)
        return n

    def _prefixes(self, key):
        out = []
        for i, ch in enumerate(key):
            if ch in ".[" and i > 0:
                out.append(key[:i])
        return reversed(out)

    def _havoc_root(self, key):
        m = re.match(r"^(arg\d+(?:\.[A-Za-z0-9_]+)?)", key)
        return m.group(1) if m else key

    def read_path(self, v, path):
        for p in path:
            while isinstance(v, tuple) and len(v) == 2 and v[0] == "refof":
                v = v[1]
            if isinstance(v, Agg):
                k = p[1] if p[0] in ("f", "i") else None
                if k is None or (isinstance(k, tuple)):
                    return ("elem?", freeze(v), p)
                v = v.get_elem(k)
            else:
                if p[0] in ("f", "i") and not isinstance(p[1], tuple):
                    v = ("elem", v, p[1])
                else:
                    v = ("elem?", v, p)
        return v

    def write_path(self, v, path, val):
        """Functional update of value v at path."""
        if not path:
            return val
        p = path[0]
        k = p[1] if p[0] in ("f", "i") else None
        if k is None or isinstance(k, tuple):
            # unknown element: whole aggregate becomes opaque
            return ("upd?", freeze(v) if isinstance(v, Agg) else v, self.uid())
        if isinstance(v, Agg):
            a = v.copy()
        else:
            a = Agg()
            a["_d"] = v if v != ("undef",) else None
        cur = a[k] if k in a else (("elem", a["_d"], k) if a.get("_d") is not None else ("undef",))
        a[k] = self.write_path(cur, path[1:], val)
        return a

    def write_ref(self, env, ref, extra, val, bb):
        if not (isinstance(ref, tuple) and ref and ref[0] == "ref"):
            self.havoc_all(bb)
            return
        root, path = ref[1], tuple(ref[2]) + tuple(extra)
        if root[0] == "local":
            fenv = self.shared["frames"].get(root[1])
            if fenv is not None:
                fenv[root[2]] = self.write_path(fenv.get(root[2], ("undef",)), path, val)
            return
        key = self.ext_key(root, path)
        m = self.shared["mem"]
        # drop finer-grained entries below this key
        for k in [k for k in m if k.startswith(key) and k != key and k[len(key)] in ".["]:
            del m[k]
        if any(isinstance(p[1], tuple) for p in path if p[0] == "i"):
            # write at a symbolic index: havoc the array
            base = self.ext_key(root, [p for p in path if not (p[0] == "i" and isinstance(p[1], tuple))])
            self.havoc_key(base)
            self.res.stores.append((bb, key, val))
            return
        for i in range(len(path) - 1, -1, -1):
            k = self.ext_key(root, path[:i])
            if k in m:
                m[k] = self.write_path(m[k], path[i:], val)
                self.res.stores.append((bb, key, val))
                return
        m[key] = val
        self.res.stores.append((bb, key, val))

    def havoc_key(self, key):
        m = self.shared["mem"]
        for k in [k for k in m if k == key or (k.startswith(key) and k[len(key)] in ".[")]:
            del m[k]
        ep = self.shared.setdefault("epochs", {})
        ep[key] = ep.get(key, 0) + 1
        # finer-grained keys below this one become stale as well: bump them so later loads differ
        for k in [k for k in ep if k != key and k.startswith(key) and k[len(key)] in ".["]:
            ep[k] += 1

    def havoc_all(self, bb):
        self.shared["mem"].clear()
        ep = self.shared.setdefault("epochs", {})
        for k in list(ep):
            ep[k] += 1

    def havoc_ref(self, env, ref, bb, why):
        if not (isinstance(ref, tuple) and ref and ref[0] == "ref"):
            return
        root, path = ref[1], tuple(ref[2])
        if root[0] == "local":
            fenv = self.shared["frames"].get(root[1])
            if fenv is not None:
                fenv[root[2]] = self.write_path(fenv.get(root[2], ("undef",)), path, ("havoc", why, self.uid()))
        else:
            self.havoc_key(self.ext_key(root, path))

    # ------------------------------------------------------------ places / operands
    def place_ref(self, env, pl):
        """Return (ref, extra_path) addressing the place, or (None, None) for direct locals."""
        local, projs = pl[0], pl[1]
        base = ("ref", ("local", self.fid, local), (), None)
        path = []
        ref = base
        for p in projs:
            if p == "*":
                ptr = self.read_ref(env, ref, path)
                ref, path = ptr, []
                if not (isinstance(ptr, tuple) and ptr and ptr[0] in ("ref", "refof")):
                    return ptr, None
                # apply window offset on later index projections
            elif p[0] == "f":
                path.append(("f", p[2] if p[2] != "" else str(p[1])))
            elif p[0] == "i":
                iv = self.read_local(env, p[1])
                path.append(("i", iv[1] if is_c(iv) else ("t", iv)))
            elif p[0] == "c":
                path.append(("i", p[1]))
            elif p[0] == "d":
                pass
            else:
                path.append(("x", str(p)))
        return ref, path

    def read_local(self, env, l):
        return env.get(l, ("undef",))

    def read_place(self, env, pl):
        if not pl[1]:
            return self.read_local(env, pl[0])
        ref, path = self.place_ref(env, pl)
        if path is None:
            return ("deref", ref)
        path = self._apply_window(ref, path)
        return self.read_ref(env, ref, path)

    def _apply_window(self, ref, path):
        # index into a windowed slice reference: shift the first index by the window start
        if isinstance(ref, tuple) and ref[0] == "ref" and ref[3] is not None and path and path[0][0] == "i":
            st = ref[3][0]
            if is_c(st) and not isinstance(path[0][1], tuple):
                return [("i", path[0][1] + st[1])] + list(path[1:])
            return [("i", ("t", ("winidx", st, path[0][1])))] + list(path[1:])
        return path

    def write_place(self, env, pl, val, bb):
        if not pl[1]:
            env[pl[0]] = val
            return
        ref, path = self.place_ref(env, pl)
        if path is None:
            self.havoc_all(bb)
            return
        path = self._apply_window(ref, path)
        self.write_ref(env, ref, path, val, bb)

    def operand(self, env, op):
        if op[0] in ("cp", "mv"):
            return self.read_place(env, op[1])
        if op[0] == "k":
            k = op[1]
            if "fn" in k:
                return ("fnref", k.get("res") or k["fn"])
            if "param" in k:
                pv = self.params.get(k["param"])
                return C(pv, k.get("t", "usize")) if pv is not None else ("param", k["param"])
            v = k.get("v")
            if isinstance(v, bool):
                return C(int(v), "bool")
            if isinstance(v, int):
                return C(v, k.get("t", "usize"))
            if isinstance(v, list):
                return self.const_tree(v, k.get("t"))
            if isinstance(v, dict) and v.get("k") == "zst":
                return ("unit",)
            return ("kconst", k.get("def"), k.get("t"), mir._freeze(v))
        return ("opaque", str(op))

    def const_tree(self, v, ty):
        if isinstance(v, list):
            a = Agg()
            a["_k"] = "const"
            m = re.match(r"^&?'?\w*\s*\[(.*); (\d+)\]$", ty or "")
            ety = m.group(1) if m else None
            for i, x in enumerate(v):
                a[i] = self.const_tree(x, ety)
            a["_n"] = len(v)
            return a
        if isinstance(v, bool):
            return C(int(v), "bool")
        if isinstance(v, int):
            return C(v, ty if ty in WIDTH else "u64")
        if isinstance(v, dict):
            a = Agg()
            for k, x in v.items():
                a[k] = self.const_tree(x, None)
            return a
        return ("kconst", None, ty, mir._freeze(v))

    # ------------------------------------------------------------ rvalues
    def rvalue(self, env, rv, dest_ty, bb):
        k = rv[0]
        if k == "use":
            v = self.operand(env, rv[1])
            return v.copy() if isinstance(v, Agg) else v
        if k == "cfd":
            return self.read_place(env, rv[1])
        if k == "bin":
            op = rv[1]
            a = self.operand(env, rv[2])
            b = self.operand(env, rv[3])
            if op.endswith("WithOverflow"):
                base = op[: -len("WithOverflow")]
                ety = re.match(r"^\((\w+), bool\)$", dest_ty or "")
                ety = ety.group(1) if ety else "u64"
                t = Agg()
                t["_k"] = "tuple"
                t["0"] = mk_bin(base, a, b, ety)
                t["1"] = ("ovf", base, a, b, ety)
                return t
            ty = dest_ty if dest_ty in WIDTH else "u64"
            if op in ("Eq", "Ne", "Lt", "Le", "Gt", "Ge"):
                return mk_bin(op, a, b, "bool") if not (is_c(a) and is_c(b)) else mk_bin(op, a, b, "bool")
            return mk_bin(op, a, b, ty)
        if k == "un":
            a = self.operand(env, rv[2])
            if rv[1] == "Not" and is_c(a):
                if a[2] == "bool":
                    return C(1 - a[1], "bool")
                return C(~a[1], a[2])
            if rv[1] == "Neg" and is_c(a):
                return C(-a[1], a[2])
            if rv[1] == "PtrMetadata":
                return self.len_of(a)
            return ("un", rv[1], a, dest_ty)
        if k == "cast":
            a = self.operand(env, rv[2])
            kind = rv[1]
            if kind == "IntToInt":
                if is_c(a) and rv[3] in WIDTH:
                    return C(a[1], rv[3])
                return ("cast", a, rv[3])
            if kind.startswith("PointerCoercion") or kind in ("PtrToPtr", "Transmute"):
                return a if kind != "Transmute" else ("transmute", a, rv[3])
            return ("cast", a, rv[3])
        if k in ("ref", "raw"):
            ref, path = self.place_ref(env, rv[2])
            if path is None:
                return ("refof", ref)
            if isinstance(ref, tuple) and ref[0] == "ref":
                path2 = self._apply_window(ref, path)
                if not path2:
                    return ref
                return ("ref", ref[1], tuple(ref[2]) + tuple(path2), None)
            return ("refof", ref)
        if k == "rep":
            a = Agg()
            a["_k"] = "array"
            a["_d"] = None
            a["_fill"] = self.operand(env, rv[1])
            a["_n"] = rv[2]
            return _FillAgg(a)
        if k == "agg":
            a = Agg()
            kind = rv[1]
            a["_k"] = kind[0]
            if kind[0] == "adt":
                a["_adt"] = kind[1]
                a["_variant"] = kind[3]
                names = kind[4]
                for n, o in zip(names, rv[2]):
                    a[n] = self.operand(env, o)
            elif kind[0] == "array":
                for i, o in enumerate(rv[2]):
                    a[i] = self.operand(env, o)
                a["_n"] = len(rv[2])
            else:
                for i, o in enumerate(rv[2]):
                    a[str(i)] = self.operand(env, o)
            return a
        if k == "disc":
            v = self.read_place(env, rv[1])
            if isinstance(v, Agg) and "_variant_idx" in v:
                return C(v["_variant_idx"], "isize")
            return ("disc", freeze(v))
        return ("opaque", str(rv)[:60])

    def static_len(self, ref):
        """array length of the place a reference into an argument names, from the static types (argument type, ADT fields)"""
        root, path = ref[1], ref[2]
        m = re.match(r"^arg(\d+)$", root[1]) if root[0] == "ext" else None
        if not m or self.depth != 0:
            return None
        i = int(m.group(1))
        if i >= len(self.fn.locals):
            return None
        ty = re.sub(r"^(&'?\w* ?(mut )?|\*(const|mut) )", "", self.fn.locals[i] or "").strip()
        for p_ in path:
            if p_[0] == "f":
                adt = self.P.adts.get(ty.split("<")[0]) if hasattr(self.P, "adts") else None
                if not adt or len(adt.get("variants", [])) != 1:
                    return None
                fs = [f for f in adt["variants"][0]["fields"] if f["name"] == str(p_[1])]
                if len(fs) != 1:
                    return None
                ty = fs[0]["t"]
            elif p_[0] == "i":
                n = array_len(ty)
                if n is None:
                    return None
                ty = re.match(r"^\[(.*); \d+\]$", ty).group(1)
            else:
                return None
        return array_len(ty)

    def len_of(self, a):
        if isinstance(a, tuple) and a and a[0] == "ref":
            if a[3] is not None:
                st, en = a[3]
                if en is not None:
                    return mk_bin("Sub", en, st, "usize")
                return ("len_from", self.ext_key(a[1], a[2]) if a[1][0] == "ext" else str(a[1]), st)
            if a[1][0] == "ext":
                n_ = self.static_len(a)
                if n_ is not None:
                    return C(n_, "usize")
                return ("len", self.ext_key(a[1], a[2]))
            if a[1][0] == "local":
                fenv = self.shared["frames"].get(a[1][1], {})
                v = self.read_path(fenv.get(a[1][2], ("undef",)), a[2])
                if isinstance(v, Agg) and "_n" in v:
                    return C(v["_n"], "usize")
                fr_fn = self.shared.get("frame_fns", {}).get(a[1][1])
                if fr_fn is not None and not a[2]:
                    n = array_len(fr_fn.locals[a[1][2]])
                    if n is not None:
                        return C(n, "usize")
        return ("len", freeze(a))

    # ------------------------------------------------------------ calls
    def do_call(self, env, bb, t):
        c = Call(self.fn, bb, t)
        name = c.name()
        args = [self.operand(env, a) for a in c.args]
        dest_ty = self.ty(c.dest[0]) if not c.dest[1] else None
        val = self.builtin(env, bb, c, name, args, dest_ty)
        if val is None:
            callee = self.P.by_path.get(name)
            if callee and len(callee) == 1 and self.depth < self.maxdepth and self.inline(name) and callee[0].id != self.fn.id:
                sub = Eval(self.P, callee[0], args=args, inline=self.inline, depth=self.depth + 1, maxdepth=self.maxdepth, params=self._callee_params(c, callee[0]), shared=self.shared)
                r = sub.run()
                val = r.ret if r.ret is not None else ("unit",)
                self.res.calls.extend(r.calls)
                self.res.asserts.extend(r.asserts)
                self.res.stores.extend(r.stores)
                self.res.argvals.update(r.argvals)
            else:
                val = ("call", name, tuple(freeze(a) for a in args), self.uid())
                # the referents of reference arguments at the time of the call (before any havoc), for rules that follow
                # values through opaque calls
                try:
                    self.res.argvals[val[3]] = [self.read_ref(env, a) if (isinstance(a, tuple) and a and a[0] == "ref") else None for a in args]
                except Exception:
                    pass
                # havoc everything reachable through &mut arguments
                for i, a in enumerate(args):
                    aty = self._arg_type(c, i)
                    if isinstance(a, tuple) and a and a[0] == "ref" and (aty is None or aty.startswith("&mut") or aty.startswith("*mut") or "&mut" in aty):
                        self.havoc_ref(env, a, bb, name)
        self.res.calls.append((bb, name, args, val))
        self.write_place(env, c.dest, val, bb)

    def _callee_params(self, c, callee):
        out = {}
        gens = [g[0] for g in callee.raw.get("generics", []) if g[1].startswith("Const")]
        # res_ga lists args in declaration order (parent generics first); const args are plain numbers
        nums = [a for a in c.res_ga]
        names = [g[0] for g in reversed(callee.raw.get("generics", []))]
        # generics were recorded child-first then parents; rebuild declaration order: parents first
        own = callee.raw.get("generics", [])
        for g, a in zip(self._decl_order(callee), c.res_ga):
            if re.match(r"^-?\d+$", a.replace("_usize", "").replace("_u32", "")):
                out[g] = int(re.match(r"^-?\d+", a).group(0))
            elif a in self.params:
                out[g] = self.params[a]
        return out

    def _decl_order(self, callee):
        # driver records own params first, then parent's; rustc arg order is parent's first
        gl = callee.raw.get("generics", [])
        # heuristic: split at the first repeated boundary is unknown; impl generics come last in `gl`
        # number of own params = those not appearing in parent's self type
        st = callee.raw.get("self_ty") or ""
        parent = [g[0] for g in gl if re.search(r"\b%s\b" % re.escape(g[0]), st)]
        own = [g[0] for g in gl if g[0] not in parent]
        return parent + own

    def _arg_type(self, c, i):
        callee = self.P.by_path.get(c.name())
        if callee and len(callee) == 1 and i + 1 < len(callee[0].locals):
            return callee[0].locals[i + 1]
        op = c.args[i]
        if op[0] in ("cp", "mv") and not op[1][1]:
            return self.fn.locals[op[1][0]]
        return None

    def builtin(self, env, bb, c, name, args, dest_ty):
        short = name
        # ---- derived Clone of plain data (and Clone of primitives / arrays): a copy of the referent
        mc = re.match(r"^<(.+) as core::clone::Clone>::clone$", name)
        if mc and len(args) == 1:
            st = mc.group(1)
            derived = any(i.get("trait") == "core::clone::Clone" and i.get("derived") and i.get("self_ty", "").split("<")[0] == st.split("<")[0] for i in getattr(self.P, "impls", []))
            if derived or re.match(r"^(\[.*\]|[ui](8|16|32|64|128|size)|bool)$", st):
                v = self.read_ref(env, args[0])
                return v.copy() if isinstance(v, Agg) else v
        # ---- integer helpers
        m = re.match(r"^core::num::<impl (\w+)>::(\w+)$", name)
        if m:
            ty, f = m.group(1), m.group(2)
            w = WIDTH.get(ty, 64)
            if f in ("wrapping_add", "wrapping_sub", "wrapping_mul"):
                return mk_bin({"wrapping_add": "Add", "wrapping_sub": "Sub", "wrapping_mul": "Mul"}[f], args[0], args[1], ty)
            if f == "wrapping_neg":
                return mk_bin("Sub", C(0, ty), args[0], ty)
            if f in ("overflowing_add", "overflowing_sub"):
                t = Agg()
                t["_k"] = "tuple"
                op = "Add" if f.endswith("add") else "Sub"
                t["0"] = mk_bin(op, args[0], args[1], ty)
                t["1"] = ("ovf", op, args[0], args[1], ty)
                return t
            if f in ("rotate_left", "rotate_right"):
                if is_c(args[1]):
                    amt = args[1][1] % w
                    if f == "rotate_left":
                        amt = (w - amt) % w
                    return ("rotr", args[0], amt, ty)
                return ("rot", f, args[0], args[1], ty)
            if f in ("to_le_bytes", "to_be_bytes"):
                return ("bytes", f[3:5], args[0], ty)
            if f in ("from_le_bytes", "from_be_bytes"):
                a0 = args[0]
                nb = w // 8
                if isinstance(a0, Agg) and all((i in a0) for i in range(nb)):
                    # an array of known bytes: the word is the OR of the shifted bytes (what a hand-written loader spells out)
                    acc = None
                    for i in range(nb):
                        sh = 8 * i if f == "from_le_bytes" else 8 * (nb - 1 - i)
                        t_ = ("cast", a0[i], ty)
                        if sh:
                            t_ = mk_bin("Shl", t_, C(sh, "i32"), ty)
                        acc = t_ if acc is None else mk_bin("BitOr", acc, t_, ty)
                    return acc
                return ("frombytes", f[5:7], freeze(args[0]), ty)
            if f in ("min", "max"):
                return ("minmax", f, args[0], args[1])
            if f in ("checked_add", "checked_sub", "checked_mul"):
                return ("checked", f[8:], args[0], args[1], ty)
            return None
        if name.endswith("IntoIterator>::into_iter") and len(args) == 1 and isinstance(args[0], Agg) and (args[0].get("_adt", "").endswith("ops::Range") or args[0].get("_k") == "iter"):
            return args[0].copy()
        # ---- iterators over arrays / slices of KNOWN length and their adaptors: constant-trip, so the loop unroller follows them
        if re.search(r"(slice::<impl \[T\]>|array::<impl \[T; N\]>)::iter(_mut)?$", name) or (name.endswith("IntoIterator>::into_iter") and len(args) == 1 and isinstance(args[0], tuple) and args[0][:1] == ("ref",)):
            r_ = args[0]
            if isinstance(r_, tuple) and r_[:1] == ("ref",):
                n_ = self.len_of(r_)
                if is_c(n_):
                    lo_ = 0
                    hi_ = n_[1]
                    base_ = r_
                    if r_[3] is not None:
                        st_, en_ = r_[3]
                        if is_c(st_):
                            lo_ = st_[1]
                            hi_ = lo_ + n_[1]
                            base_ = ("ref", r_[1], r_[2], None)
                        else:
                            base_ = None
                    if base_ is not None:
                        it = Agg()
                        it["_k"] = "iter"
                        it["kind"] = "slice"
                        it["ref"] = base_
                        it["i"] = lo_
                        it["hi"] = hi_
                        return it
        mi = re.match(r"^core::iter::(?:traits::iterator::)?Iterator::(rev|zip|enumerate)$", name)
        if mi and args and isinstance(args[0], Agg) and (args[0].get("_k") == "iter" or args[0].get("_adt", "").endswith("ops::Range")):
            def as_it(a):
                if isinstance(a, Agg) and a.get("_k") == "iter":
                    return a.copy()
                if isinstance(a, Agg) and a.get("_adt", "").endswith("ops::Range") and is_c(a.get("start")) and is_c(a.get("end")):
                    it2 = Agg()
                    it2["_k"] = "iter"
                    it2["kind"] = "range"
                    it2["i"] = a["start"][1]
                    it2["hi"] = a["end"][1]
                    it2["ty"] = a["start"][2]
                    return it2
                return None
            a0 = as_it(args[0])
            if a0 is not None:
                it = Agg()
                it["_k"] = "iter"
                it["kind"] = mi.group(1)
                it["a"] = a0
                if mi.group(1) == "zip":
                    b0 = as_it(args[1]) if isinstance(args[1], Agg) else None
                    if b0 is None and isinstance(args[1], tuple) and args[1][:1] == ("ref",):
                        b0 = self.builtin(env, bb, c, "core::slice::<impl [T]>::iter", [args[1]], None)
                    if b0 is None:
                        it = None
                    else:
                        it["b"] = b0
                if mi.group(1) == "enumerate":
                    it["n"] = 0
                if it is not None:
                    return it
        if re.search(r" as core::iter::(?:traits::iterator::)?Iterator>::next$", name) and len(args) == 1 and isinstance(args[0], tuple) and args[0][:1] == ("ref",):
            itv = self.read_ref(env, args[0])
            if isinstance(itv, Agg) and itv.get("_k") == "iter":
                itv = itv.copy()

                def step(it):
                    k = it["kind"]
                    if k == "slice":
                        if it["i"] < it["hi"]:
                            v = ("ref", it["ref"][1], tuple(it["ref"][2]) + (("i", it["i"]),), None)
                            it["i"] += 1
                            return True, v
                        return False, None
                    if k == "range":
                        if it["i"] < it["hi"]:
                            v = C(it["i"], it.get("ty", "usize"))
                            it["i"] += 1
                            return True, v
                        return False, None
                    if k == "rev":
                        a = it["a"]
                        if a["kind"] in ("slice", "range") and a["i"] < a["hi"]:
                            a["hi"] -= 1
                            if a["kind"] == "range":
                                return True, C(a["hi"], a.get("ty", "usize"))
                            return True, ("ref", a["ref"][1], tuple(a["ref"][2]) + (("i", a["hi"]),), None)
                        return False, None
                    if k == "zip":
                        oa, va = step(it["a"])
                        if not oa:
                            return False, None
                        ob, vb = step(it["b"])
                        if not ob:
                            return False, None
                        t = Agg()
                        t["_k"] = "tuple"
                        t["0"] = va
                        t["1"] = vb
                        return True, t
                    if k == "enumerate":
                        o_, v_ = step(it["a"])
                        if not o_:
                            return False, None
                        t = Agg()
                        t["_k"] = "tuple"
                        t["0"] = C(it["n"], "usize")
                        t["1"] = v_
                        it["n"] += 1
                        return True, t
                    return False, None
                ok_, v_ = step(itv)
                o = Agg()
                o["_k"] = "adt"
                o["_adt"] = "core::option::Option"
                if ok_:
                    o["_variant"] = "Some"
                    o["_variant_idx"] = 1
                    o["0"] = v_
                else:
                    o["_variant"] = "None"
                    o["_variant_idx"] = 0
                self.write_ref(env, args[0], (), itv, bb)
                return o
        if name.endswith("Iterator for core::ops::Range<A>>::next") and len(args) == 1 and isinstance(args[0], tuple) and args[0][:1] == ("ref",):
            it = self.read_ref(env, args[0])
            if isinstance(it, Agg) and is_c(it.get("start")) and is_c(it.get("end")):
                o = Agg()
                o["_k"] = "adt"
                o["_adt"] = "core::option::Option"
                if it["start"][1] < it["end"][1]:
                    o["_variant"] = "Some"
                    o["_variant_idx"] = 1
                    o["0"] = it["start"]
                    it2 = it.copy()
                    it2["start"] = C(it["start"][1] + 1, it["start"][2])
                    self.write_ref(env, args[0], (), it2, bb)
                else:
                    o["_variant"] = "None"
                    o["_variant_idx"] = 0
                return o
            return None
        if name in ("core::cmp::min", "core::cmp::max"):
            return ("minmax", name[-3:], args[0], args[1])
        # ---- slices
        if name.endswith("<impl [T]>::len") or name.endswith("Vec::<T, A>::len"):
            return self.len_of(args[0])
        if mir_index(name) and len(args) == 2:
            base, rng = args
            if isinstance(base, tuple) and base and base[0] == "ref" and isinstance(rng, Agg) and rng.get("_k") == "adt":
                adt = rng.get("_adt", "")
                st0 = base[3][0] if base[3] else C(0, "usize")
                en0 = base[3][1] if base[3] else None
                if adt.endswith("RangeFull"):
                    return base
                if adt.endswith("RangeFrom"):
                    return ("ref", base[1], base[2], (mk_bin("Add", st0, rng["start"], "usize"), en0))
                if adt.endswith("RangeTo"):
                    return ("ref", base[1], base[2], (st0, mk_bin("Add", st0, rng["end"], "usize")))
                if adt.endswith("ops::Range"):
                    return ("ref", base[1], base[2], (mk_bin("Add", st0, rng["start"], "usize"), mk_bin("Add", st0, rng["end"], "usize")))
            return None
        if name in ("cryptoutil::read_u32_le", "cryptoutil::read_u64_le", "cryptoutil::read_u32_be", "cryptoutil::read_u64_be"):
            n = 8 if "u64" in name else 4
            r = args[0]
            if isinstance(r, tuple) and r and r[0] == "ref":
                st = r[3][0] if r[3] else C(0, "usize")
                key = self.ext_key(r[1], r[2]) if r[1][0] == "ext" else "local%s%s" % (r[1][1:], r[2])
                if r[1][0] == "local" and is_c(st):
                    # assemble from tracked bytes
                    bs = [self.read_ref(env, ("ref", r[1], r[2], None), [("i", st[1] + j)]) for j in range(n)]
                    return ("pack", name[-2:], tuple(freeze(b) for b in bs), "u%d" % (8 * n))
                return ("ld", name[-2:], n, key, st, self.epoch_of(key))
            return None
        if name.endswith("<impl [T]>::as_ptr") or name.endswith("<impl [T]>::as_mut_ptr") or name.endswith("::as_ptr") or name.endswith("::as_mut_ptr"):
            return args[0]
        if name.endswith("Clone>::clone") and len(args) == 1:
            v = self.read_ref(env, args[0]) if isinstance(args[0], tuple) and args[0][:1] == ("ref",) else None
            if v is not None and (isinstance(v, Agg) or (isinstance(v, tuple) and v[0] in ("c",))):
                return v.copy() if isinstance(v, Agg) else v
            return None
        if name == "core::convert::Into::into" or name.endswith("::into") and len(args) == 1 and name.startswith("<T as core::convert::Into"):
            return None
        if name.startswith("core::panicking::") or name.startswith("core::option::expect_failed"):
            return ("never",)
        return None

    # ------------------------------------------------------------ main loop
    MAXIT = 72
    MAXWORK = 6000

    def run(self):
        fn = self.fn
        if self.depth == 0:
            Eval._uid = 0          # call ids are deterministic per top-level evaluation
        succ, pred_, reach = fn.cfg()
        order = fn.rpo()
        self.idx = {b: i for i, b in enumerate(order)}
        idx = self.idx
        self.shared.setdefault("frame_fns", {})[self.fid] = fn
        # natural loops: head -> body
        heads = {}
        for b in order:
            for s2 in succ[b]:
                if s2 in idx and idx[s2] <= idx[b] and fn.dominates(s2, b):
                    body = heads.setdefault(s2, set())
                    body.add(s2)
                    st = [b]
                    while st:
                        x = st.pop()
                        if x in body:
                            continue
                        body.add(x)
                        st.extend(p for p in pred_[x] if p in reach)
        self.heads = heads
        self.EDGE = {}
        self.work = 0
        env0 = {}
        for i in range(1, fn.argc + 1):
            env0[i] = self.arg_value(i)
        self.entry_state = (env0, dict(self.shared["mem"]))
        self.eval_seq(order, None)
        self.shared["frames"][self.fid] = None if self.depth else self.shared["frames"].get(self.fid)
        return self.res

    def eval_seq(self, blocks, region_head, head_state=None):
        """Evaluate `blocks` (RPO order).  Blocks that belong to a loop nested inside this region are
        handled by eval_loop when its head is reached."""
        done = set()
        for b in blocks:
            if b in done:
                continue
            if b in self.heads and b != region_head:
                body = self.heads[b]
                self.eval_loop(b, body)
                done |= body
                continue
            if b == region_head and head_state is not None:
                self.eval_block(b, head_state)
            else:
                self.eval_block(b, None)

    def incoming(self, b, only_from=None, exclude=None):
        ins = []
        for p in self.fn.cfg()[1][b]:
            if (p, b) in self.EDGE:
                if only_from is not None and p not in only_from:
                    continue
                if exclude is not None and p in exclude:
                    continue
                ins.append((p, self.EDGE[(p, b)]))
        return ins

    def eval_loop(self, head, body):
        fn = self.fn
        body_order = [b for b in fn.rpo() if b in body]
        entry = self.incoming(head, exclude=body)
        if head == 0:
            st0 = self.entry_state
        elif not entry:
            for b in body:
                self.res.pruned.add(b)
            return
        else:
            st0 = self.join(head, entry)
        # ---- try unrolling
        snap = (dict(self.EDGE), len(self.res.calls), len(self.res.asserts), len(self.res.stores), dict(self.shared["mem"]), dict(self.shared.get("epochs", {})), self.res.ret, dict(self.res.mem_at_ret), set(self.res.pruned), dict(self.cond_at))
        state = st0
        ok = False
        exits_seen = {}
        for it in range(self.MAXIT + 1):
            for k in [k for k in self.EDGE if k[0] in body]:
                del self.EDGE[k]
            self.eval_seq(body_order, head, head_state=(dict(state[0]), dict(state[1])))
            self.work += len(body_order)
            back = self.incoming(head, only_from=body)
            exits = [k for k in self.EDGE if k[0] in body and k[1] not in body]
            if back and exits:
                break            # both continuing and leaving are feasible: not a constant-trip loop
            if not back:
                ok = True
                break
            if self.work > self.MAXWORK:
                break
            state = self.join(head, back)
        if ok:
            return
        # ---- fallback: havoc everything the loop assigns, evaluate the body once
        self.EDGE = snap[0]
        del self.res.calls[snap[1]:]
        del self.res.asserts[snap[2]:]
        del self.res.stores[snap[3]:]
        self.shared["mem"] = snap[4]
        self.shared["epochs"] = snap[5]
        self.res.ret = snap[6]
        self.res.mem_at_ret = snap[7]
        self.res.pruned = snap[8]
        self.cond_at = snap[9]
        env, mem = dict(st0[0]), dict(st0[1])
        self.shared["mem"] = mem
        self.shared["frames"][self.fid] = env
        self.havoc_loop(env, head, body)
        for k in [k for k in self.EDGE if k[0] in body]:
            del self.EDGE[k]
        self.eval_seq(body_order, head, head_state=(env, self.shared["mem"]))
        # back edges are dropped (the head state already covers every iteration)
        for k in [k for k in self.EDGE if k[0] in body and k[1] == head]:
            del self.EDGE[k]

    def eval_block(self, b, given):
        fn = self.fn
        if given is not None:
            env, mem = given
        elif b == 0:
            env, mem = self.entry_state
        else:
            ins = self.incoming(b)
            if not ins:
                self.res.pruned.add(b)
                return
            env, mem = self.join(b, ins)
        self.res.pruned.discard(b)
        self.shared["mem"] = mem
        self.shared["frames"][self.fid] = env
        self.res.block_in[b] = (dict(env), dict(mem))
        for s in fn.stmts(b):
            if s[0] == "=":
                dty = fn.locals[s[1][0]] if not s[1][1] else None
                v = self.rvalue(env, s[2], dty, b)
                self.write_place(env, s[1], v, b)
        t = fn.term(b)
        outs = {}
        if t[0] == "call":
            self.do_call(env, b, t)
            if t[4] is not None:
                outs[t[4]] = None
        elif t[0] == "sw":
            d = self.operand(env, t[1])
            if is_c(d):
                tgt = t[3]
                for v, bb2 in t[2]:
                    if v == d[1]:
                        tgt = bb2
                outs[tgt] = None
            else:
                self.cond_at[b] = d
                av = self.assume(d) if self.assume is not None else None
                if av is not None:
                    tgt = t[3]
                    for v, bb2 in t[2]:
                        if v == int(av):
                            tgt = bb2
                    outs[tgt] = None
                else:
                    for s2 in fn.succs(b):
                        outs[s2] = ("sw", d, t)
        elif t[0] == "assert":
            cnd = self.operand(env, t[1])
            self.res.asserts.append((b, t[3], cnd, bool(t[2]), [self.operand(env, o) for o in t[5]]))
            if not (is_c(cnd) and bool(cnd[1]) != bool(t[2])):
                outs[t[4]] = None
        elif t[0] == "goto":
            outs[t[1]] = None
        elif t[0] == "drop":
            outs[t[2]] = None
        elif t[0] == "ret":
            r = env.get(0, ("unit",))
            self.res.ret = r if self.res.ret is None else self.join_val(self.res.ret, r, ("ret", b))
            self.res.mem_at_ret = dict(self.shared["mem"])
        snap_mem = self.shared["mem"]
        for s2, cond in outs.items():
            self.EDGE[(b, s2)] = ({k: (v.copy() if isinstance(v, Agg) else v) for k, v in env.items()}, dict(snap_mem), cond, b)
        self.res.block_out[b] = True

    def havoc_loop(self, env, head, body):
        fn = self.fn
        locs = set()
        for b in body:
            for s in fn.stmts(b):
                if s[0] == "=":
                    pl = s[1]
                    if "*" not in pl[1]:
                        locs.add(pl[0])
                    else:
                        # write through a pointer: havoc what it may point to
                        ref, path = self.place_ref(env, [pl[0], pl[1][: pl[1].index("*") + 1]])
                        if isinstance(ref, tuple) and ref and ref[0] == "ref":
                            self.havoc_ref(env, ref, head, "loop")
                        else:
                            self.havoc_all(head)
                    rv = s[2]
                    if rv[0] in ("ref", "raw") and rv[1] in ("mut", "Mut") and "*" not in rv[2][1]:
                        locs.add(rv[2][0])
            t = fn.term(b)
            if t[0] == "call":
                if "*" not in t[3][1]:
                    locs.add(t[3][0])
                for a in t[2]:
                    if a[0] in ("cp", "mv"):
                        v = self.read_place(env, a[1])
                        if isinstance(v, tuple) and v and v[0] == "ref":
                            self.havoc_ref(env, v, head, "loop-call")
        for l in locs:
            if 1 <= l <= fn.argc and False:
                continue
            env[l] = ("lv", head, l)

    def join_val(self, a, b, where, cond=None):
        if isinstance(a, Agg) and isinstance(b, Agg):
            if freeze(a) == freeze(b):
                return a
            out = Agg()
            for k in set(a) | set(b):
                if k.startswith("_") if isinstance(k, str) else False:
                    if a.get(k) == b.get(k):
                        out[k] = a.get(k)
                    continue
                out[k] = self.join_val(a.get_elem(k), b.get_elem(k), where + (k,), cond)
            return out
        fa, fb = freeze(a), freeze(b)
        if fa == fb:
            return a
        if cond is not None:
            return ("ite", cond, fa, fb)
        return ("phi", where, (fa, fb))

    def join(self, b, ins):
        if len(ins) == 1:
            e, m, cond, p = ins[0][1]
            return dict(e), dict(m)
        # diamond detection for two predecessors
        cond = None
        if len(ins) == 2:
            cond = self.diamond_cond(b, ins)
        if cond is None and 2 <= len(ins) <= 6:
            # short-circuit conditions (`a && b`, `a || b`) and if / else-if chains: each predecessor is reached under a
            # path condition built from the bool switches between the join's dominator and it -> gated phi (nested ite)
            pcs = self.gated_conds(b, ins)
            if pcs is not None:
                env = dict(ins[-1][1][0])
                mem = dict(ins[-1][1][1])
                for idx in range(len(ins) - 2, -1, -1):
                    e2, m2 = ins[idx][1][0], ins[idx][1][1]
                    for k in set(env) | set(e2):
                        if k in env and k in e2:
                            env[k] = self.join_val(e2[k], env[k], (b, k), pcs[idx])
                        else:
                            env.pop(k, None)
                    for k in set(mem) | set(m2):
                        va, vb = m2.get(k), mem.get(k)
                        if va is None or vb is None:
                            orig = ("load", k, self.epoch_of(k))
                            va = va if va is not None else orig
                            vb = vb if vb is not None else orig
                        mem[k] = self.join_val(va, vb, (b, k), pcs[idx])
                return env, mem
        env = dict(ins[0][1][0])
        mem = dict(ins[0][1][1])
        swap = False
        if cond is not None and cond[1]:
            swap = True
        cterm = cond[0] if cond else None
        for p, (e2, m2, c2, pb) in ins[1:]:
            for k in set(env) | set(e2):
                if k in env and k in e2:
                    a, bb_ = (env[k], e2[k]) if not swap else (e2[k], env[k])
                    env[k] = self.join_val(a, bb_, (b, k), cterm)
                else:
                    env.pop(k, None)
            for k in set(mem) | set(m2):
                va = mem.get(k)
                vb = m2.get(k)
                if va is None or vb is None:
                    # one side never wrote it: value is either the written one or the original load
                    orig = ("load", k, self.epoch_of(k))
                    va = va if va is not None else orig
                    vb = vb if vb is not None else orig
                a, bb_ = (va, vb) if not swap else (vb, va)
                mem[k] = self.join_val(a, bb_, (b, k), cterm)
        return env, mem

    def gated_conds(self, b, ins):
        """path condition (a bool term) of every predecessor of join block b, from b's immediate dominator; None when the
        region is not a small acyclic tree of bool switches whose condition terms are known"""
        fn = self.fn
        d = fn.dominators().get(b)
        if d is None:
            return None
        succ = fn.cfg()[0]
        preds_ = [p for p, _ in ins]
        paths = {p: [] for p in preds_}
        budget = [0]

        def lit(blk, nxt):
            t = fn.term(blk)
            if t[0] == "sw":
                if t[4] != "bool":
                    return None
                c = self.cond_at.get(blk)
                if c is None:
                    return None
                false_bb = [bb for v, bb in t[2] if v == 0]
                if not false_bb or false_bb[0] == t[3]:
                    return None
                if nxt == t[3]:
                    return (c, True)
                if nxt == false_bb[0]:
                    return (c, False)
                return None
            return ()

        def walk_(blk, conds, seen):
            budget[0] += 1
            if budget[0] > 400:
                raise OverflowError
            for nxt in (succ.get(blk, ()) if isinstance(succ, dict) else succ[blk]):
                if nxt in fn.ret_reaching() or True:
                    l = lit(blk, nxt)
                    if l is None:
                        raise OverflowError
                    c2 = conds + ([l] if l else [])
                    if nxt == b:
                        if blk in paths:
                            paths[blk].append(c2)
                        continue
                    if nxt in seen or not fn.dominates(d, nxt):
                        if fn.diverges(nxt):
                            continue
                        raise OverflowError
                    if fn.diverges(nxt):
                        continue
                    walk_(nxt, c2, seen | {nxt})
        try:
            walk_(d, [], {d})
        except (OverflowError, RecursionError):
            return None
        out = []
        for p in preds_:
            if not paths[p]:
                return None
            disj = None
            for conj in paths[p]:
                term = None
                for c, pol in conj:
                    x = c if pol else ("un", "Not", c, "bool")
                    term = x if term is None else mk_bin("BitAnd", term, x, "bool")
                if term is None:
                    term = C(1, "bool")
                disj = term if disj is None else mk_bin("BitOr", disj, term, "bool")
            out.append(disj)
        return out

    def diamond_cond(self, b, ins):
        """If the two incoming paths are the true/false arms of one bool switch, return (cond term, swapped)."""
        fn = self.fn
        (p1, (e1, m1, c1, _)), (p2, (e2, m2, c2, _)) = ins
        idom = fn.dominators()
        d = idom.get(b)
        if d is None:
            return None
        t = fn.term(d)
        if t[0] != "sw" or t[4] != "bool":
            return None
        # which successor of d leads to p1 / p2 ?
        false_bb = [bb for v, bb in t[2] if v == 0]
        true_bb = t[3]
        if not false_bb:
            return None
        false_bb = false_bb[0]
        def side(p):
            if p == d:
                return None
            prd = fn.cfg()[1]
            one_t = len(prd.get(true_bb, ()) if isinstance(prd, dict) else prd[true_bb]) == 1
            one_f = len(prd.get(false_bb, ()) if isinstance(prd, dict) else prd[false_bb]) == 1
            on_t = (fn.dominates(true_bb, p) and one_t) if true_bb != b else False
            on_f = (fn.dominates(false_bb, p) and one_f) if false_bb != b else False
            if on_t and not on_f:
                return True
            if on_f and not on_t:
                return False
            return None
        s1 = side(p1) if p1 != d else (true_bb == b)
        s2 = side(p2) if p2 != d else (true_bb == b)
        if p1 == d:
            s1 = True if true_bb == b else False
        if p2 == d:
            s2 = True if true_bb == b else False
        if s1 is None or s2 is None or s1 == s2:
            return None
        # the condition term as evaluated at d
        cterm = None
        for (p, (e, m, c, pb)) in ins:
            pass
        cterm = self.cond_at.get(d) if hasattr(self, "cond_at") else None
        if cterm is None:
            return None
        return (cterm, not s1)


def mir_index(name):
    return ("ops::Index" in name) and (name.endswith("::index") or name.endswith("::index_mut"))


class _FillAgg(Agg):
    """[x; n] arrays: every unset element reads as the fill value."""

    def __init__(self, a):
        Agg.__init__(self)
        self.update(a)

    def copy(self):
        b = _FillAgg(Agg.copy(self))
        return b

    def get_elem(self, key):
        if key in self:
            return self[key]
        return self["_fill"]
