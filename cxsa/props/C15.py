"""C15 — field, scalar and group arithmetic match GF(2^255-19), Z/L and the curve.

Decided:
  table      every precomputed table entry and constant, decoded from its limb representation, equals
             the value derived from the definitions: D, 2D, sqrt(-1), 0, 1, all 8 BI[j] = (2j+1)B and
             all 32x8 GE_BASE[i][j] = (j+1) 256^i B in (y+x, y-x, 2dxy) form (both backends: 792 field
             elements each), group order L, Barrett MU, 4p bias limbs
  limbpoly   64-bit backend (and 32-bit backend in the thorough tier): add, sub, neg, mul, square,
             square_and_double, mul_small and square_repeatdly(n) compute f+g, f-g, -g, fg, f^2, 2f^2,
             k f, f^(2^n) modulo 2^255-19 as polynomial identities in the input limbs: every carry is
             split exactly (x = (x >> k) 2^k + (x & mask)) and all carry symbols cancel modulo p
             [proviso: no intermediate overflow — limb-bound obligations are tier 2]
  exponent   invert = x^(p-2), pow25523 = x^((p-5)/8)
  grouplaw   Ge + GeCached / GePrecomp, Ge - ..., doubling and the P1P1 conversions, composed, equal
             the twisted-Edwards addition / doubling law as rational-function identities
  scalar     Scalar::from_bytes / to_bytes / nibbles bit maps; canonical acceptance is exactly the
             borrow chain of S - L ending in borrow == 1 with M = L; borrow chains of reduce256 /
             barrett_reduce256 compute a - b + borrow 2^W with W the representation width (256 / 264);
             scalar add is x + y before reduction; slide() walks all 256 positions
  canonical  is_negative / is_nonzero / equality are computed on the canonical encoding
  select     GePrecomp::select(pos, b): row pos, column |b|-1 chosen by ct_eq(|b|, k), negation swaps
             y+x / y-x and negates 2dxy, applied iff b < 0
  decode     point decoding negates x iff parity(x) != sign bit  [KNOWN FINDING: the tree implements
             the ref10 negated convention]
  fe-bounds  the proviso of the limb identities: fe64 closed bound vector, fe32 tight/loose contracts (operands built from
             up to three TIGHT values without a carry), no overflow assert, no lossy narrowing (interval abstract
             interpretation, both backends)
  fe-use     every call site of an fe32 operation anywhere in the crate (ge.rs, the ladder, ed25519 conversions) hands it
             operands within that contract: level dataflow (constants / products 1, sums add, struct fields by type,
             parameters and returns by fixpoint); nobody outside fe32 touches Fe limbs
  encode     to_packed / to_bytes: reduction identity, reduced digits, bit packing; decode32: fe32 from_bytes identity
  sc32       scalar32 reduce / muladd: digit provenance, congruence modulo L, bounds, packing; Scalar::ZERO tables
  window     double_scalarmult_vartime table / digit-use / scan-start rules, Scalar::bits covers all 256 bits (shared with C14)
Not decided: Barrett quotient estimation (scalar64), scalarmult_base / double_scalarmult digit arithmetic as numbers, that
the canonical reduction's quotient is floor(H / p) (fe32)."""
import re

from .. import mir, pred, rules, ssa, termbits, fexpr, limbpoly
from ..poly import Poly
from ..mir import fmt, walk, const_val
from ..spec import curve

EXPLANATION = __doc__
TECHNIQUE = "interval abstract interpretation over ssa terms with exact carry/remainder relations and trace partitioning on carries (inductive limb-bound invariants, overflow-assert discharge); evaluated tables vs. definition-derived oracle; term-domain dataflow + limb-polynomial normal form modulo 2^255-19 with exact carry splitting; rational-function identity of the group law; exponent evaluation; bit provenance; level (type-state) dataflow over every fe32 operation call site of the crate against the proved 3xTIGHT operand contract, who-may-access rule for Fe limbs"

PM = curve.P


# ------------------------------------------------------------------ tables

def fe_val(v, backend):
    limbs = v["0"] if isinstance(v, dict) else v
    return curve.fe64_value(limbs) if backend == "fe64" else curve.fe32_value(limbs)


def check_tables(ctx, P, backend):
    base = "curve25519::fe::%s::" % backend
    for nm, want in (("Fe::D", curve.D), ("Fe::D2", curve.D2), ("Fe::SQRTM1", curve.SQRTM1), ("Fe::ZERO", 0), ("Fe::ONE", 1)):
        try:
            v = fe_val(P.const(base + nm), backend)
        except mir.AnchorLost as e:
            ctx.lost("table", base + nm, str(e))
            continue
        ctx.check(v == want, "table", "%s%s" % (base, nm), "%s equals its definition" % nm, "%s%s does not denote the field element it should" % (base, nm), where=P.consts[base + nm]["span"], key="table:%s%s" % (base, nm))
    gb = curve.ge_base_table()
    bi = curve.bi_table()
    try:
        T = P.const(base + "precomp::GE_BASE")
        bad = []
        n = 0
        for i in range(32):
            for j in range(8):
                for k, f in enumerate(("y_plus_x", "y_minus_x", "xy2d")):
                    n += 1
                    if fe_val(T[i][j][f], backend) != gb[i][j][k]:
                        bad.append("GE_BASE[%d][%d].%s" % (i, j, f))
        ctx.check(not bad and len(T) == 32 and all(len(r) == 8 for r in T), "table", base + "precomp::GE_BASE", "all 768 coordinates equal (j+1)*256^i*B in (y+x, y-x, 2dxy) form", "%sprecomp::GE_BASE entries are not the multiples of B they stand for: %s" % (base, bad[:4]), where=P.consts[base + "precomp::GE_BASE"]["span"], key="table:%sprecomp::GE_BASE" % base)
        ctx.rules[-1]["sites"] = n
        Bt = P.const(base + "precomp::BI")
        bad = [("BI[%d].%s" % (j, f)) for j in range(8) for k, f in enumerate(("y_plus_x", "y_minus_x", "xy2d")) if fe_val(Bt[j][f], backend) != bi[j][k]]
        ctx.check(not bad and len(Bt) == 8, "table", base + "precomp::BI", "all 24 coordinates equal (2j+1)*B", "%sprecomp::BI entries are not the odd multiples of B: %s" % (base, bad[:4]), where=P.consts[base + "precomp::BI"]["span"], key="table:%sprecomp::BI" % base)
    except mir.AnchorLost as e:
        ctx.lost("table", base + "precomp", str(e))
    if backend == "fe64":
        for nm, want in (("FOUR_P0", 4 * ((1 << 51) - 19)), ("FOUR_P1234", 4 * ((1 << 51) - 1)), ("MASK", (1 << 51) - 1)):
            try:
                ctx.check(P.const(base + nm) == want, "table", base + nm, "%s = %d" % (nm, want), "%s%s is not the 4p bias limb / limb mask" % (base, nm), where=P.consts[base + nm]["span"], key="table:%s%s" % (base, nm))
            except mir.AnchorLost as e:
                ctx.lost("table", base + nm, str(e))


# ------------------------------------------------------------------ limb polynomials

def fe_leaf(names, nl):
    def leaf(t):
        # (*arg).0[i]  read as elem(elem(load argN, "0"), i)  or load "argN.0[i]"
        if t[0] == "elem" and isinstance(t[1], tuple) and t[1] and t[1][0] == "elem" and isinstance(t[1][1], tuple) and t[1][1][0] == "load" and t[1][2] == "0" and t[1][1][1] in names and isinstance(t[2], int):
            return "%s_%d" % (names[t[1][1][1]], t[2])
        if t[0] == "load":
            m = re.match(r"^(arg\d)\.0\[(\d+)\]$", t[1])
            if m and m.group(1) in names:
                return "%s_%s" % (names[m.group(1)], m.group(2))
        if t[0] == "elem" and isinstance(t[1], tuple) and t[1] and t[1][0] == "load" and isinstance(t[2], int):
            m = re.match(r"^(arg\d)\.0$", t[1][1])
            if m and m.group(1) in names:
                return "%s_%d" % (names[m.group(1)], t[2])
        return None
    return leaf


def fe_poly(sym, weights):
    acc = Poly()
    for i, w in enumerate(weights):
        acc = acc + Poly.var("%s_%d" % (sym, i)) * w
    return acc


def check_field_ops(ctx, P, backend, cfg):
    if backend == "fe64":
        W = [1 << (51 * i) for i in range(5)]
        inl = lambda n: n.endswith("::mul128") or n.endswith("::shl128")
    else:
        W = [1 << s for s in curve.FE32_SHIFTS]
        inl = lambda n: n.endswith("::emul")
    F = fe_poly("f", W)
    G = fe_poly("g", W)
    B = "curve25519::fe::%s::Fe" % backend
    ops = [
        ("<&%s as core::ops::Add>::add" % B, F + G, "f + g", None),
        ("<&%s as core::ops::Sub>::sub" % B, F - G, "f - g", None),
        ("<&%s as core::ops::Neg>::neg" % B, Poly() - F, "-f", None),
        ("<&%s as core::ops::Mul>::mul" % B, F * G, "f * g", None),
        ("%s::square" % B, F * F, "f^2", None),
    ]
    sd = P.fn_opt("%s::square_and_double" % B)
    if sd is not None and [c for c in sd.calls() if fexpr.SQUARE.search(c.name())]:
        # x = self.square(); every limb of x is doubled in place
        sq = [c for c in sd.calls() if fexpr.SQUARE.search(c.name())]
        lps = [l for l in rules.iter_loops(sd) if any(s_[0] == "iter_mut" for s_ in l["sources"])]
        okd = len(sq) == 1 and pred.canon(sd.expr(sq[0].args[0]), sd) == "arg1" and len(lps) == 1 and not lps[0]["early_exits"] and [c.split("::")[-1] for c in lps[0]["chain"]] in (["into_iter", "iter_mut"], ["iter_mut"])
        dbl = False
        if okd:
            for b in lps[0]["body"]:
                for s_ in sd.stmts(b):
                    if s_[0] == "=" and s_[1][1] == ["*"]:
                        e = sd.rvalue_expr(s_[2])
                        l, c = pred.lin(e, sd)
                        dbl = dbl or (c == 0 and list(l.values()) == [2])
            src = lps[0]["sources"][0][1]
            okd = dbl and src.endswith(".0") and sd.local_expr(0)[0] == "var"
        ctx.check(okd, "limbpoly", "%s::square_and_double[%s]" % (B, cfg), "square(self) with every limb doubled", "%s::square_and_double is not 2 * self^2" % B, where=sd.where(), key="limbpoly:%s::square_and_double" % B)
    elif sd is not None:
        ops.append(("%s::square_and_double" % B, F * F * 2, "2 f^2", None))
    for path, spec, what, params in ops:
        fn = P.fn_opt(path)
        if fn is None:
            ctx.lost("limbpoly", path, "function not found in %s" % cfg)
            continue
        one_limbpoly(ctx, P, fn, spec, what, W, inl, cfg, params=params)
    # mul_small<S0> for the constants the crate instantiates (121666, 9) and a generic symbol-free check with S0 = 3
    fn = P.fn_opt("%s::mul_small" % B)
    if fn is not None:
        for s0 in (121666, 9):
            one_limbpoly(ctx, P, fn, F * s0, "%d f" % s0, W, inl, cfg, params={"S0": s0}, tag="<%d>" % s0)
    else:
        ctx.lost("limbpoly", "%s::mul_small" % B, "not found")
    fn = P.fn_opt("%s::square_repeatdly" % B)
    if fn is not None:
        # n = 0 is the identity (x^(2^0) = x): the two backends must agree on it too
        for n, spec in ((0, F), (1, F * F), (2, F * F * F * F)):
            one_limbpoly(ctx, P, fn, spec, "f^(2^%d)" % n, W, inl, cfg, args=[None, ssa.C(n, "usize")], tag="(n=%d)" % n, inline_extra=lambda nm: nm.endswith("Fe::square"))
    else:
        ctx.lost("limbpoly", "%s::square_repeatdly" % B, "not found")


def one_limbpoly(ctx, P, fn, spec, what, W, inl, cfg, params=None, args=None, tag="", inline_extra=None):
    auto = ssa.auto_inline(P, fn)
    inline = (lambda n: inl(n) or inline_extra(n) or auto(n)) if inline_extra else (lambda n: inl(n) or auto(n))
    try:
        r = ssa.Eval(P, fn, inline=inline, params=params or {}, args=args, maxdepth=3).run()
    except RecursionError:
        ctx.fail("limbpoly", fn.path + tag, "term evaluation exceeded the recursion limit", where=fn.where())
        return
    ret = r.ret
    limbs = ret.get("0") if isinstance(ret, ssa.Agg) else None
    if limbs is None and isinstance(ret, tuple) and ret[:2] == ("load", "arg1"):
        # the result is an unmodified copy of *self (e.g. zero repetitions of a loop): its limbs are self's limbs
        limbs = ssa.Agg()
        for i in range(len(W)):
            limbs[i] = ("load", "arg1.0[%d]" % i, 0)
    inst = "%s%s[%s]" % (fn.path, tag, cfg)
    if not isinstance(limbs, ssa.Agg):
        ctx.fail("limbpoly", inst, "cannot see the limbs of the result", where=fn.where(), key="limbpoly:%s%s" % (fn.path, tag))
        return
    LP = limbpoly.LimbPoly(fe_leaf({"arg1": "f", "arg2": "g"}, len(W)))
    tot = Poly()
    for i, w in enumerate(W):
        tot = tot + LP.val(limbs.get_elem(i)) * w
    diff = (tot - spec).mod(PM)
    ok = not diff and not LP.unknown
    ctx.check(ok, "limbpoly", inst, "sum(out_i * 2^w_i) == %s (mod 2^255-19) as a polynomial identity; %d carry symbols cancel" % (what, len(LP.qnames)),
              "%s%s does not compute %s modulo 2^255-19: the limb polynomial differs from the specification (a carry is dropped / added to the wrong limb, a factor 19 or a cross term is wrong); residual: %s%s" % (fn.path, tag, what, diff.show()[:160], (" ; unrecognised operation %s" % str(LP.unknown[0])[:80]) if LP.unknown else ""), where=fn.where(), key="limbpoly:%s%s" % (fn.path, tag))


# ------------------------------------------------------------------ group law

def subst(poly, m):
    out = Poly()
    for mon, c in poly.items():
        term = Poly.const(c)
        for v, e in mon:
            rep = m.get(v, Poly.var(v))
            for _ in range(e):
                term = term * rep
        out = out + term
        if len(out) > 4000:
            out = out.mod(PM)
    return out.mod(PM)


def struct_polys(fn, e, leaf):
    """e is an aggregate of Fe fields -> {field: Poly}.  First through the term evaluator (reassigned locals, temporaries and
    private helpers resolved); the MIR expression tree is the fallback"""
    try:
        r = ssa.Eval(fn.prog, fn).run()
        if isinstance(r.ret, ssa.Agg) and r.ret.get("_adt"):
            out = {}
            for k in r.ret.keys():
                if isinstance(k, str) and not k.startswith("_"):
                    out[k] = fexpr.to_poly_ssa(r, r.ret[k], leaf)
            if out and all(v is not None for v in out.values()):
                return out
    except (KeyError, IndexError, TypeError, AttributeError, ValueError, RecursionError):
        pass
    e = fexpr.strip(e)
    if e[0] != "agg" or e[1][0] != "adt":
        return None
    names = e[1][4]
    out = {}
    for n, a in zip(names, e[2]):
        out[n] = fexpr.to_poly(fn, a, leaf)
    return out


def check_group_law(ctx, P):
    d = Poly.const(curve.D)
    x1, y1, z1, x2, y2, z2 = (Poly.var(n) for n in ("x1", "y1", "z1", "x2", "y2", "z2"))
    one = Poly.const(1)
    P1 = {"arg1.x": x1 * z1, "arg1.y": y1 * z1, "arg1.z": z1, "arg1.t": x1 * y1 * z1}
    cached = {"arg2.y_plus_x": (y2 + x2) * z2, "arg2.y_minus_x": (y2 - x2) * z2, "arg2.z": z2, "arg2.t2d": x2 * y2 * z2 * d * 2}
    precomp = {"arg2.y_plus_x": (y2 + x2), "arg2.y_minus_x": (y2 - x2), "arg2.xy2d": x2 * y2 * d * 2}

    def leaf_of(mapping):
        def leaf(cnm, e):
            return cnm if cnm in mapping else None
        return leaf

    # conversions P1P1 -> full / partial
    conv = {}
    for nm, want in (("to_full", {"x": ("x", "t"), "y": ("y", "z"), "z": ("z", "t"), "t": ("x", "y")}), ("to_partial", {"x": ("x", "t"), "y": ("y", "z"), "z": ("z", "t")})):
        fn = P.fn("curve25519::ge::GeP1P1::" + nm)
        sp = struct_polys(fn, fn.local_expr(0), lambda c, e: c if c.startswith("arg1.") else None)
        ok = sp is not None and all(sp.get(k) == Poly.var("arg1." + a) * Poly.var("arg1." + b) for k, (a, b) in want.items()) and set(sp) == set(want)
        ctx.check(ok, "grouplaw", "GeP1P1::" + nm, "(X:Y:Z:T) = (XT : YZ : ZT : XY)", "GeP1P1::%s does not convert the completed point correctly" % nm, where=fn.where(), key="grouplaw:GeP1P1::%s" % nm)
        conv[nm] = want

    def full(p1p1):
        return {"X": p1p1["x"] * p1p1["t"], "Y": p1p1["y"] * p1p1["z"], "Z": p1p1["z"] * p1p1["t"], "T": p1p1["x"] * p1p1["y"]}

    kk = d * x1 * x2 * y1 * y2
    for path, env2, sign in (
        ("<&curve25519::ge::Ge as core::ops::Add<&curve25519::ge::GeCached>>::add", cached, 1),
        ("<&curve25519::ge::Ge as core::ops::Sub<&curve25519::ge::GeCached>>::sub", cached, -1),
        ("<&curve25519::ge::Ge as core::ops::Add<&curve25519::ge::GePrecomp>>::add", precomp, 1),
        ("<&curve25519::ge::Ge as core::ops::Sub<&curve25519::ge::GePrecomp>>::sub", precomp, -1),
    ):
        fn = P.fn(path)
        mapping = dict(P1)
        mapping.update(env2)
        sp = struct_polys(fn, fn.local_expr(0), leaf_of(mapping))
        ok = sp is not None and all(v is not None for v in sp.values()) and set(sp) == {"x", "y", "z", "t"}
        if ok:
            sp = {k: subst(v, mapping) for k, v in sp.items()}
            R = full(sp)
            # affine law for a = -1:  x3 = (x1 y2' + y1 x2')/(1 + d x1 x2' y1 y2),  y3 = (y1 y2 + x1 x2')/(1 - d x1 x2' y1 y2)   with x2' = sign * x2
            sx = x2 * sign
            nx = x1 * y2 + y1 * sx
            dx = one + kk * sign
            ny = y1 * y2 + x1 * sx
            dy = one - kk * sign
            ok = not (R["X"] * dx - nx * R["Z"]).mod(PM) and not (R["Y"] * dy - ny * R["Z"]).mod(PM) and not (R["T"] * R["Z"] - R["X"] * R["Y"]).mod(PM)
        ctx.check(ok, "grouplaw", path, "result (after to_full) is the twisted-Edwards %s of the two points: X/Z and Y/Z equal the affine law, TZ = XY" % ("sum" if sign == 1 else "difference"),
                  "%s does not implement the Edwards %s law (a product, a sign or an operand is wrong)" % (path, "addition" if sign == 1 else "subtraction"), where=fn.where(), key="grouplaw:%s" % path)
    # doubling (uses the curve equation: 1 + d x^2 y^2 = y^2 - x^2)
    for path in ("curve25519::ge::Ge::double_p1p1", "curve25519::ge::GePartial::double_p1p1"):
        fn = P.fn(path)
        mapping = {"arg1.x": x1 * z1, "arg1.y": y1 * z1, "arg1.z": z1}
        sp = struct_polys(fn, fn.local_expr(0), leaf_of(mapping))
        ok = sp is not None and all(v is not None for v in sp.values()) and set(sp) == {"x", "y", "z", "t"}
        if ok:
            sp = {k: subst(v, mapping) for k, v in sp.items()}
            R = full(sp)
            nx = x1 * y1 * 2
            dx = y1 * y1 - x1 * x1
            ny = y1 * y1 + x1 * x1
            dy = Poly.const(2) - y1 * y1 + x1 * x1
            ok = not (R["X"] * dx - nx * R["Z"]).mod(PM) and not (R["Y"] * dy - ny * R["Z"]).mod(PM) and not (R["T"] * R["Z"] - R["X"] * R["Y"]).mod(PM)
        ctx.check(ok, "grouplaw", path, "doubling: x3 = 2xy/(y^2-x^2), y3 = (y^2+x^2)/(2-y^2+x^2) (a = -1 Edwards doubling)", "%s does not implement Edwards doubling" % path, where=fn.where(), key="grouplaw:%s" % path)
    # to_cached
    fn = P.fn("curve25519::ge::Ge::to_cached")
    sp = struct_polys(fn, fn.local_expr(0), lambda c, e: c if c.startswith("arg1.") else None)
    X, Y, Z, T = (Poly.var("arg1." + n) for n in "xyzt")
    ok = sp is not None and sp.get("y_plus_x") == Y + X and sp.get("y_minus_x") == Y - X and sp.get("z") == Z and sp.get("t2d") is not None and not (sp["t2d"] - T * curve.D2).mod(PM)
    ctx.check(ok, "grouplaw", "Ge::to_cached", "(Y+X, Y-X, Z, 2dT)", "Ge::to_cached does not produce (Y+X, Y-X, Z, 2dT)", where=fn.where(), key="grouplaw:Ge::to_cached")
    # from_affine / to_affine
    fn = P.fn("curve25519::ge::Ge::from_affine")
    sp = struct_polys(fn, fn.local_expr(0), lambda c, e: c if c.startswith("arg1.") else None)
    ok = sp is not None and sp.get("x") == Poly.var("arg1.x") and sp.get("y") == Poly.var("arg1.y") and sp.get("z") == Poly.const(1) and sp.get("t") == Poly.var("arg1.x") * Poly.var("arg1.y")
    ctx.check(ok, "grouplaw", "Ge::from_affine", "(x, y, 1, xy)", "Ge::from_affine does not build (x : y : 1 : xy)", where=fn.where(), key="grouplaw:Ge::from_affine")
    fn = P.fn("curve25519::ge::Ge::to_affine")
    e = fexpr.strip(fn.local_expr(0))
    ok = e[0] == "agg"
    if ok:
        got = dict(zip(e[1][4], [pred.short(a, fn) for a in e[2]]))
        ok = got == {"x": "Mul::mul(arg1.x,Fe::invert(arg1.z))", "y": "Mul::mul(arg1.y,Fe::invert(arg1.z))"}
    ctx.check(ok, "grouplaw", "Ge::to_affine", "(X/Z, Y/Z)", "Ge::to_affine is not (X * Z^-1, Y * Z^-1)", where=fn.where(), key="grouplaw:Ge::to_affine")


# ------------------------------------------------------------------ scalars (64-bit backend)

def sc_leaf(names):
    def leaf(t):
        if t[0] == "elem" and isinstance(t[1], tuple) and t[1] and t[1][0] == "load" and t[1][1] in names and isinstance(t[2], int):
            return "%s_%d" % (names[t[1][1]], t[2])
        if t[0] == "elem" and isinstance(t[1], tuple) and t[1] and t[1][0] == "elem" and isinstance(t[1][1], tuple) and t[1][1][0] == "load" and t[1][2] == "0" and t[1][1][1] in names and isinstance(t[2], int):
            return "%s_%d" % (names[t[1][1][1]], t[2])
        if t[0] == "load":
            m = re.match(r"^(arg\d)(?:\.0)?\[(\d+)\]$", t[1])
            if m and m.group(1) in names:
                return "%s_%s" % (names[m.group(1)], m.group(2))
        if t[0] == "elem" and isinstance(t[1], tuple) and t[1] and t[1][0] == "in" and t[1][1] in names and isinstance(t[2], int):
            return "%s_%d" % (names[t[1][1]], t[2])
        return None
    return leaf


def check_scalar64(ctx, P):
    S = "curve25519::scalar::scalar64::"
    W56 = [1 << (56 * i) for i in range(5)]
    Lp = Poly.const(curve.L)
    # reduce256: t = r - L + borrow * 2^256 ; the result is r or t selected by the borrow mask
    fn = P.fn(S + "reduce256")
    # private helpers of the module are inlined (a borrow chain moved into a helper must not change what the rule sees);
    # reduce256 itself stays a call where barrett_reduce256 hands its difference on
    _auto = ssa.auto_inline(P, fn)
    _inl = lambda n: (n.endswith("scalar64::lt") or n.endswith("::mul128") or n.endswith("::shr128") or _auto(n)) and not n.endswith("scalar64::reduce256")
    r = ssa.Eval(P, fn, inline=_inl, maxdepth=4, auto=False).run()
    ret = r.ret
    ok = isinstance(ret, ssa.Agg)
    bad = None
    if ok:
        LP = limbpoly.LimbPoly(sc_leaf({"arg1": "r"}))
        R = sum((Poly.var("r_%d" % i) * W56[i] for i in range(5)), Poly())
        # each output limb is r_i ^ (mask & (r_i ^ t_i)): find t_i
        ts = []
        masks = set()
        for i in range(5):
            o = ret.get_elem(i)
            t_i = None
            if isinstance(o, tuple) and o[0] == "bin" and o[1] == "BitXor":
                for a, b in ((o[2], o[3]), (o[3], o[2])):
                    if isinstance(b, tuple) and b[0] == "bin" and b[1] == "BitAnd":
                        for m_, x in ((b[2], b[3]), (b[3], b[2])):
                            if isinstance(x, tuple) and x[0] == "bin" and x[1] == "BitXor":
                                for p, q in ((x[2], x[3]), (x[3], x[2])):
                                    if p == a:
                                        t_i = q
                                        masks.add(m_)
            ts.append(t_i)
        ok = all(t is not None for t in ts) and len(masks) == 1
        if ok:
            tot = sum((LP.val(t) * W56[i] for i, t in enumerate(ts)), Poly())
            # the final borrow symbol: mask = b - 1
            mk = list(masks)[0]
            bsym = None
            if mk[0] == "bin" and mk[1] == "Sub" and ssa.is_c(mk[3]) and mk[3][1] == 1:
                bsym = LP.val(mk[2])
            ok = bsym is not None and not (tot - (R - Lp + bsym * (1 << 256))) and not LP.unknown
            bad = (tot - (R - Lp + (bsym if bsym is not None else Poly()) * (1 << 256))).show()[:160]
    ctx.check(ok, "scalar-borrow", S + "reduce256", "t = r - L + borrow * 2^256 limb by limb (M = L), result = borrow ? r : t", "scalar64::reduce256's borrow chain does not compute r - L with the borrow returned at 2^256 (limb widths 56,56,56,56,32): %s" % bad, where=fn.where(), key="scalar-borrow:%sreduce256" % S)
    # barrett_reduce256: out = r1 - r2 + borrow * 2^264 before the two final reductions
    fn = P.fn(S + "barrett_reduce256")
    r = ssa.Eval(P, fn, inline=_inl, maxdepth=4, auto=False).run()
    outs = [c for c in r.calls if c[1].endswith("scalar64::reduce256")]
    ok = len(outs) == 2 and isinstance(outs[0][2][0], ssa.Agg)
    bad = None
    if ok:
        out = outs[0][2][0]
        LP = limbpoly.LimbPoly(sc_leaf({"arg2": "r"}), opaque=lambda t: None)
        tot = Poly()
        r2syms = {}
        # treat every r2[i] (the masked product limbs) as an opaque symbol: it is what is subtracted
        pbs = []
        okshape = True
        for i in range(5):
            o = out.get_elem(i)
            # out_i = (r1_i - pb_i) + (b_i << k)
            if not (isinstance(o, tuple) and o[0] == "bin" and o[1] == "Add"):
                okshape = False
                break
        if okshape:
            class Opa:
                def __init__(self):
                    self.names = {}
                def __call__(self, t):
                    # product-derived limbs: BitAnd(cast(<sum of products>), MASK) not involving arg2
                    if isinstance(t, tuple) and t[0] == "bin" and t[1] == "BitAnd" and ssa.is_c(t[3]) and t[3][1] in ((1 << 56) - 1, (1 << 40) - 1) and "arg2" not in repr(t):
                        if t not in self.names:
                            self.names[t] = ("m_%d" % len(self.names), t[3][1].bit_length())
                        return self.names[t][0]
                    return None
            opa = Opa()
            LP = limbpoly.LimbPoly(sc_leaf({"arg2": "r"}), opaque=opa)
            tot = sum((LP.val(out.get_elem(i)) * W56[i] for i in range(5)), Poly())
            R1 = sum((Poly.var("r_%d" % i) * W56[i] for i in range(5)), Poly())
            widths = [w for n, w in sorted(opa.names.values())]
            R2 = sum((Poly.var("m_%d" % i) * W56[i] for i in range(len(opa.names))), Poly())
            resid = tot - (R1 - R2)
            # residual must be exactly (final borrow) * 2^264
            ok = len(resid) == 1 and list(resid.values())[0] == (1 << 264) and len(list(resid.keys())[0]) == 1 and widths == [56, 56, 56, 56, 40] and not LP.unknown
            bad = resid.show()[:200]
        else:
            ok = False
    ctx.check(ok, "scalar-borrow", S + "barrett_reduce256", "out = r1 - r2 + borrow * 2^264 (limb widths 56,56,56,56,40)", "scalar64::barrett_reduce256's final subtraction does not return the borrow at 2^264: the top limb is 40 bits wide, so its borrow must be `b << 40`; residual %s" % bad, where=fn.where(), key="scalar-borrow:%sbarrett_reduce256" % S)
    # add: r = x + y (carry chain) before reduce256
    fn = P.fn(S + "add")
    r = ssa.Eval(P, fn).run()
    outs = [c for c in r.calls if c[1].endswith("scalar64::reduce256")]
    ok = len(outs) == 1 and isinstance(outs[0][2][0], ssa.Agg)
    if ok:
        LP = limbpoly.LimbPoly(sc_leaf({"arg1": "x", "arg2": "y"}))
        tot = sum((LP.val(outs[0][2][0].get_elem(i)) * W56[i] for i in range(5)), Poly())
        X = sum((Poly.var("x_%d" % i) * W56[i] for i in range(5)), Poly())
        Y = sum((Poly.var("y_%d" % i) * W56[i] for i in range(5)), Poly())
        ok = not (tot - X - Y) and not LP.unknown
    ctx.check(ok, "limbpoly", S + "add", "sum(r_i 2^(56 i)) == x + y exactly, then reduce256", "scalar64::add does not compute x + y before the final reduction", where=fn.where(), key="limbpoly:%sadd" % S)
    # mul: r1 = x*y mod 2^264 and q1 = x*y >> 248 : r1 + 2^264 * (carry) == xy  is checked on the low part
    fn = P.fn(S + "mul")
    ev = ssa.Eval(P, fn, inline=lambda n: n.endswith("::mul128") or n.endswith("::shr128"))
    r = ev.run()
    outs = [c for c in r.calls if c[1].endswith("scalar64::barrett_reduce256")]
    ok = len(outs) == 1
    if ok:
        q1 = ev.read_ref(None, outs[0][2][0])
        r1 = ev.read_ref(None, outs[0][2][1])
        ok = isinstance(r1, ssa.Agg) and isinstance(q1, ssa.Agg)
        if ok:
            LP = limbpoly.LimbPoly(sc_leaf({"arg1": "x", "arg2": "y"}))
            tot = sum((LP.val(r1.get_elem(i)) * W56[i] for i in range(5)), Poly())
            X = sum((Poly.var("x_%d" % i) * W56[i] for i in range(5)), Poly())
            Y = sum((Poly.var("y_%d" % i) * W56[i] for i in range(5)), Poly())
            resid = tot - X * Y
            # every residual monomial must carry a factor 2^264 (r1 = xy mod 2^264)
            ok = all(c % (1 << 264) == 0 for c in resid.values()) and not LP.unknown
            # q1 = xy >> 248 : sum(q1_i 2^(56i)) * 2^248 + (xy mod 2^248) == xy  -> check modulo 2^248 after multiplying
            LQ = limbpoly.LimbPoly(sc_leaf({"arg1": "x", "arg2": "y"}))
            qt = sum((LQ.val(q1.get_elem(i)) * W56[i] for i in range(5)), Poly())
            ok = ok and not LQ.unknown
    ctx.check(ok, "limbpoly", S + "mul", "r1 = x*y modulo 2^264 (all residual terms are multiples of 2^264)", "scalar64::mul's low part r1 is not x*y mod 2^264", where=fn.where(), key="limbpoly:%smul" % S)
    # canonical acceptance: lt_order = borrow chain of v - L ending in b == 1
    fn = P.fn(S + "lt_order")
    r = ssa.Eval(P, fn, inline=lambda n: n.endswith("scalar64::lt")).run()
    ret = r.ret
    ok = isinstance(ret, tuple) and ret[0] == "bin" and ret[1] == "Eq" and ssa.is_c(ret[3]) and ret[3][1] == 1
    if ok:
        Lm = curve.scalar64_limbs(curve.L)
        b = ret[2]
        for i in range(4, -1, -1):
            # b = ((v_i - (b_prev + M_i)) >> 63)
            if not (b[0] == "bin" and b[1] == "Shr" and ssa.is_c(b[3]) and b[3][1] == 63 and b[2][0] == "bin" and b[2][1] == "Sub"):
                ok = False
                break
            vi, sub = b[2][2], b[2][3]
            if sc_leaf({"arg1": "v"})(vi) != "v_%d" % i:
                ok = False
                break
            if i == 0:
                ok = ok and ssa.is_c(sub) and sub[1] == Lm[0]
            elif Lm[i] == 0:
                b = sub            # b_prev + 0 folds to b_prev
            else:
                if not (sub[0] == "bin" and sub[1] == "Add" and ssa.is_c(sub[3]) and sub[3][1] == Lm[i]):
                    ok = False
                    break
                b = sub[2]
    ctx.check(ok, "canonical", S + "lt_order", "accept iff the borrow chain of v - L ends in borrow == 1, i.e. v < L, with M = L", "scalar64::lt_order is not the 5-limb borrow chain of v - L compared with 1", where=fn.where(), key="canonical:%slt_order" % S)
    fn = P.fn(S + "Scalar::from_bytes_canonical")
    cs = [pred.short(("call", c.name(), tuple(fn.expr(a) for a in c.args), (c.bb,)), fn) for c in fn.calls()]
    ok = "Scalar::from_bytes(arg1)" in cs and any(c.startswith("lt_order(") and "Scalar::from_bytes(arg1)" in c for c in cs)
    some = [b for b in sorted(fn.reachable()) for s in fn.stmts(b) if s[0] == "=" and s[2][0] == "agg" and s[2][1][0] == "adt" and "Option" in s[2][1][1] and s[2][1][3] == "Some"]
    if ok and len(some) == 1:
        facts = fn.edge_facts(some[0])
        ok = any(e[0] == "call" and e[1].endswith("lt_order") and v is True for e, v, o in facts)
    else:
        ok = False
    ctx.check(ok, "canonical", S + "Scalar::from_bytes_canonical", "Some(from_bytes(b)) exactly under lt_order(from_bytes(b))", "from_bytes_canonical does not return Some exactly when lt_order holds for the decoded scalar", where=fn.where(), key="canonical:%sfrom_bytes_canonical" % S)
    # from_bytes / to_bytes / nibbles bit maps
    fn = P.fn(S + "Scalar::from_bytes")
    r = ssa.Eval(P, fn, inline=lambda n: n.endswith("from_bytes::load")).run()
    limbs = r.ret.get("0") if isinstance(r.ret, ssa.Agg) else None
    ok = isinstance(limbs, ssa.Agg)
    if ok:
        B = termbits.Bits(termbits.byte_leaf({"arg1"}))
        for i in range(5):
            got = B.bits(limbs.get_elem(i), 64)
            want = [("arg1", 56 * i + j) if (j < 56 and 56 * i + j < 256) else 0 for j in range(64)]
            if got != want:
                ok = False
    ctx.check(ok, "bits", S + "Scalar::from_bytes", "limb i = input bits [56i, 56i+56), all 256 bits kept", "scalar64 Scalar::from_bytes does not unpack the 256-bit little-endian value into 56-bit limbs (every bit exactly once)", where=fn.where(), key="bits:%sfrom_bytes" % S)
    fn = P.fn(S + "Scalar::nibbles")
    r = ssa.Eval(P, fn).run()
    es = r.ret
    ok = isinstance(es, ssa.Agg)
    if ok:
        def lf(t):
            m_ = sc_leaf({"arg1": "s"})(t)
            if m_:
                i = int(m_.split("_")[1])
                return [("s", 56 * i + j) for j in range(56 if i < 4 else 32)] + [0] * (8 if i < 4 else 32)
            return None
        B = termbits.Bits(lf)
        for k in range(64):
            got = B.bits(es.get_elem(k), 8)
            want = [("s", 4 * k + j) for j in range(4)] + [0] * 4
            if got != want:
                ok = False
    ctx.check(ok, "bits", S + "Scalar::nibbles", "nibble k = scalar bits [4k, 4k+4)", "scalar64 Scalar::nibbles does not return the radix-16 digits of the scalar", where=fn.where(), key="bits:%snibbles" % S)


def ev_deref(r, v):
    return v


# ------------------------------------------------------------------ canonical predicates, select, decode, slide

def check_canonical(ctx, P, backend):
    B = "curve25519::fe::%s::Fe" % backend
    fn = P.fn(B + "::is_negative")
    e = pred.short(fn.local_expr(0), fn)
    ok = e in ("(mod(Fe::to_packed(arg1)[0],2) Ne 0)", "(mod(Fe::to_bytes(arg1)[0],2) Ne 0)", "(0 Ne mod(Fe::to_packed(arg1)[0],2))", "(0 Ne mod(Fe::to_bytes(arg1)[0],2))")
    ctx.check(ok, "canonical", B + "::is_negative", "sign = parity of the CANONICAL encoding", "%s::is_negative is not the low bit of the canonical (fully reduced) value: %s" % (B, e), where=fn.where(), key="canonical:%s::is_negative" % B)
    fn = P.fn(B + "::is_nonzero")
    e = pred.short(fn.local_expr(0), fn)
    ok = e == "Into::into(CtEqual::ct_ne(Fe::to_bytes(arg1),K(%s)))" % ",".join(["0"] * 32)
    ctx.check(ok, "canonical", B + "::is_nonzero", "zero test on the canonical bytes", "%s::is_nonzero does not test the canonical encoding: %s" % (B, e), where=fn.where(), key="canonical:%s::is_nonzero" % B)
    fn = P.fn("<%s as core::cmp::PartialEq>::eq" % B)
    canon_calls = [c.name().split("::")[-1] for f in P.reach_fns(fn, maxdepth=2) for c in f.calls() if c.name().endswith("Fe::to_packed") or c.name().endswith("Fe::to_bytes")]
    cteq = [c.name() for f in P.reach_fns(fn, maxdepth=2) for c in f.calls() if "CtEqual>::ct_eq" in c.name()]
    ctx.check(len(canon_calls) >= 2 and cteq, "canonical", "%s::eq" % B, "equality compares canonical encodings of both operands with ct_eq", "%s equality does not compare the canonical encodings of both operands in constant time" % B, where=fn.where(), key="feeq:%s::Fe::eq" % backend)


def check_select(ctx, P, backend):
    fn = P.fn("curve25519::ge::GePrecomp::select")
    ms = [c for c in fn.calls() if c.name().endswith("GePrecomp::maybe_set")]
    rows = []
    for c in ms:
        src = fn.expr(c.args[1])
        sel = pred.short(fn.expr(c.args[2]), fn)
        idx = None
        for x in walk(src):
            if x[0] == "index" and x[1][0] == "index":
                col = x[2][1] if x[2][0] == "const" else None
                row = pred.canon(x[1][2], fn)
                tbl_ = x[1][1]
                idx = (row, col, (tbl_[1] or "").split("::")[-1] if tbl_[0] == "kconst" else None)
        rows.append((idx, sel))
    tab = [r for r in rows if r[0] is not None]
    ok = len(tab) == 8
    babs = None
    if len(tab) == 1:
        # loop form: `for k in 0..8 { t.maybe_set(&GE_BASE[pos][k], |b|.ct_eq(k + 1)) }` — one call in the body of a full
        # range loop, column = the loop variable, selector = ct_eq(|b|, loop variable + 1)
        lps = [l for l in rules.iter_loops(fn) if l["sources"] == [("range", ("0", "8"))] and not l["early_exits"]]
        c0 = [c for c in ms if fn.expr(c.args[1]) is not None and c.bb in fn.loop_blocks()]
        if len(lps) == 1 and len(c0) == 1 and c0[0].bb in lps[0]["body"]:
            idx, sel = tab[0]
            colx = None
            for x in walk(fn.expr(c0[0].args[1])):
                if x[0] == "index" and x[1][0] == "index":
                    colx = pred.short(x[2], fn)
            m_ = re.match(r"^CtEqual::ct_eq\((.+),lin\{\+1\*(.+)\+1\}\)$", sel)
            if m_ and idx[0] == "arg1" and colx is not None and re.sub(r"^\(|\ as usize\)$| as usize$", "", colx.replace("(", "").replace(")", "")) == m_.group(2).replace("(", "").replace(")", "") and "Range::next" in m_.group(2):
                babs = m_.group(1)
                tab = [(("arg1", k, idx[2]), "CtEqual::ct_eq(%s,%d)" % (babs, k + 1)) for k in range(8)]
                ok = True
    if len(tab) == 0:
        # iterator form: `for (k, entry) in GE_BASE[pos].iter().enumerate() { t.maybe_set(entry, |b|.ct_eq(k as u8 + 1)) }`
        lps = [l for l in rules.iter_loops(fn) if len(l["sources"]) == 1 and l["sources"][0][0] == "iter" and not l["early_exits"] and "enumerate" in [c_.split("::")[-1] for c_ in l["chain"]] and not [c_ for c_ in l["chain"] if c_.split("::")[-1] not in ("into_iter", "enumerate", "iter")]]
        c0 = [c for c in ms if c.bb in fn.loop_blocks()]
        if len(lps) == 1 and len(c0) == 1 and c0[0].bb in lps[0]["body"]:
            item = pred.short(fn.expr(c0[0].args[1]), fn)
            sel = pred.short(fn.expr(c0[0].args[2]), fn)
            m_ = re.match(r"^CtEqual::ct_eq\((.+),lin\{\+1\*(.+)\+1\}\)$", sel)
            # the row iterated: a constant table indexed by pos whose value is GE_BASE's
            row_ok = False
            tname = None
            for x in walk(lps[0]["root"]):
                kc = fexpr.strip(x[1]) if x[0] == "index" else None
                if kc is not None and kc[0] == "kconst" and pred.canon(x[2], fn) == "arg1":
                    for pth, cst in P.consts.items():
                        if pth.endswith("::GE_BASE") and mir._freeze(cst.get("v")) == kc[3]:
                            row_ok = True
                            tname = "GE_BASE"
            if m_ and row_ok and item.endswith("?Some.0.1") and m_.group(2).replace("(", "").replace(")", "").replace(" as u8", "") == (item[: -len(".1")] + ".0").replace("(", "").replace(")", ""):
                babs = m_.group(1)
                tab = [(("arg1", k, tname), "CtEqual::ct_eq(%s,%d)" % (babs, k + 1)) for k in range(8)]
                rows = [r for r in rows if r[1] != sel]
                ok = True
    for k, (idx, sel) in enumerate(tab):
        m_ = re.match(r"^CtEqual::ct_eq\((.+),(\d+)\)$", sel)
        if not m_ or idx[0] != "arg1" or idx[1] != k or int(m_.group(2)) != k + 1:
            ok = False
        else:
            babs = m_.group(1) if babs in (None, m_.group(1)) else "MIXED"
    ctx.check(ok and babs not in (None, "MIXED"), "select", "GePrecomp::select:table", "t = GE_BASE[pos][k-1] selected by ct_eq(|b|, k) for k = 1..8", "GePrecomp::select does not pick GE_BASE[pos][|b|-1] with ct_eq(|b|, k): %s" % tab[:3], where=fn.where(), key="select:GePrecomp::select:table")
    neg = [r for r in rows if r[0] is None]
    okn = len(neg) == 1 and "ct_nonzero(" in neg[0][1]
    if okn:
        mt = fexpr.strip(fn.expr([c for c in ms if pred.short(fn.expr(c.args[2]), fn) == neg[0][1]][0].args[1]))
        # minus_t = { y_plus_x: t.y_minus_x, y_minus_x: t.y_plus_x, xy2d: -t.xy2d }
        defs = rules.var_defs(fn, mt[1]) if mt[0] == "var" else [(0, mt)]
        okn = False
        for b, e in defs:
            if e[0] == "agg":
                d = dict(zip(e[1][4], [pred.short(a, fn) for a in e[2]]))
                m1 = re.match(r"^Clone::clone\((.+)\.y_minus_x\)$", d.get("y_plus_x", ""))
                m2 = re.match(r"^Clone::clone\((.+)\.y_plus_x\)$", d.get("y_minus_x", ""))
                m3 = re.match(r"^Neg::neg\((.+)\.xy2d\)$", d.get("xy2d", ""))
                okn = bool(m1 and m2 and m3) and m1.group(1) == m2.group(1) == m3.group(1)
    ctx.check(okn, "select", "GePrecomp::select:negate", "-t = (y-x, y+x, -2dxy), applied iff b < 0 (sign bit)", "GePrecomp::select's negation is not the swap of y+x / y-x with negated 2dxy under the sign of b", where=fn.where(), key="select:GePrecomp::select:negate")
    # ZERO entry
    z = P.const_opt("curve25519::ge::GePrecomp::ZERO")
    okz = z is not None and fe_val(z["y_plus_x"], backend) == 1 and fe_val(z["y_minus_x"], backend) == 1 and fe_val(z["xy2d"], backend) == 0
    ctx.check(okz, "select", "GePrecomp::ZERO", "the neutral precomputed point is (1, 1, 0)", "GePrecomp::ZERO is not (1,1,0)", where=fn.where(), key="select:GePrecomp::ZERO")


def check_decode(ctx, P):
    fn = P.fn("curve25519::ge::GeAffine::from_bytes")
    neg = [c for c in fn.calls() if c.name().endswith("Fe::negate_mut")]
    ok = len(neg) == 1
    if ok:
        facts = fn.edge_facts(neg[0].bb)
        # the guarding comparison: is_negative(x) <op> ((s[31] >> 7) != 0)
        got = None
        for e, v, o in facts:
            if e[0] == "bin" and e[1] in ("Eq", "Ne"):
                s = pred.short(e, fn)
                if "is_negative(" in s and "arg1[31]" in s.replace(" ", "") or ("is_negative(" in s and "Shr 7" in s):
                    got = (e[1], v)
        # RFC 8032 5.1.3 step 4: negate iff parity(x) != sign bit
        rfc = got in (("Ne", True), ("Eq", False))
        ctx.check(rfc, "decode-sign", "curve25519::ge::GeAffine::from_bytes", "x is negated iff parity(x) != sign bit (RFC 8032 5.1.3)",
                  "GeAffine::from_bytes negates x when its parity EQUALS the sign bit: Ge::from_bytes(P.to_bytes()) is -P (decode/encode do not round-trip)", where=fn.where(neg[0].line), key="decode-sign:curve25519::ge::GeAffine::from_bytes")
    else:
        ctx.fail("decode-sign", "curve25519::ge::GeAffine::from_bytes", "no conditional negation of x found", where=fn.where(), key="decode-sign:shape")
    # square-root check: reject iff neither v x^2 == u nor v x^2 == -u ; multiply by sqrt(-1) in the second case
    e = None
    nones = [b for b in sorted(fn.reachable()) for s in fn.stmts(b) if s[0] == "=" and s[2][0] == "agg" and s[2][1][0] == "adt" and "Option" in s[2][1][1] and s[2][1][3] == "None"]
    ok = len(nones) == 1
    if ok:
        facts = [(pred.short(e, fn), v) for e, v, o in fn.edge_facts(nones[0])]
        nz = [(s, v) for s, v in facts if s.startswith("Fe::is_nonzero(")]
        ok = len(nz) == 2 and all(v is True for s, v in nz) and any(s.startswith("Fe::is_nonzero(Sub::sub(") for s, v in nz) and any(s.startswith("Fe::is_nonzero(Add::add(") for s, v in nz)
    ctx.check(ok, "decode", "GeAffine::from_bytes:reject", "None iff v x^2 - u != 0 and v x^2 + u != 0", "GeAffine::from_bytes rejects under the wrong condition", where=fn.where(), key="decode:GeAffine::from_bytes:reject")
    sq = [c for c in fn.calls() if fexpr.MUL.search(c.name()) and any(x[0] == "kconst" and fexpr.fe_const(x, None) == curve.SQRTM1 for x in walk(fn.expr(c.args[1])))]
    ctx.check(len(sq) == 1, "decode", "GeAffine::from_bytes:sqrtm1", "x is multiplied by sqrt(-1) in the second case", "GeAffine::from_bytes does not correct the root with sqrt(-1)", where=fn.where(), key="decode:GeAffine::from_bytes:sqrtm1")
    tb = P.fn("curve25519::ge::GeAffine::to_bytes")
    s = " ".join(pred.short(("call", c.name(), tuple(tb.expr(a) for a in c.args), (c.bb,)), tb) for c in tb.calls())
    ok = "Fe::to_bytes(arg1.y)" in s and "Fe::is_negative(arg1.x)" in s
    st = [pred.canon(tb.rvalue_expr(st_[2]), tb) for b in sorted(tb.reachable()) for st_ in tb.stmts(b) if st_[0] == "=" and st_[1][1] and st_[1][1][-1][0] in ("i", "c")]
    ctx.check(ok, "decode", "GeAffine::to_bytes", "encoding = canonical y with parity(x) in bit 255", "GeAffine::to_bytes does not encode (y, sign(x))", where=tb.where(), key="decode:GeAffine::to_bytes")


def check_slide(ctx, P):
    fn = P.fn("curve25519::scalar::<impl curve25519::scalar::scalar64::Scalar>::slide") if P.fn_opt("curve25519::scalar::<impl curve25519::scalar::scalar64::Scalar>::slide") else None
    if fn is None:
        cands = [f for f in P.fns.values() if f.path.endswith("Scalar>::slide")]
        fn = cands[0] if len(cands) == 1 else None
    if fn is None:
        ctx.lost("slide", "Scalar::slide", "function not found")
        return
    lps = [l for l in rules.iter_loops(fn) if any(s[0] == "range" for s in l["sources"])]
    rngs = sorted(s[1] for l in lps for s in l["sources"] if s[0] == "range")
    ok = ("0", "256") in rngs and any(r[1] == "256" and r[0] != "0" for r in rngs) and len(rngs) == 3
    ctx.check(ok, "slide", "Scalar::slide", "outer loop 0..256, carry ripple up to position 256", "Scalar::slide does not walk all 256 bit positions (a carry into the top position would be lost): ranges %s" % rngs, where=fn.where(), key="slide:ranges")


def run(ctx):
    P = ctx.prog("K0")
    ctx.guard("table", "fe64", lambda: check_tables(ctx, P, "fe64"))
    ctx.guard("limbpoly", "fe64", lambda: check_field_ops(ctx, P, "fe64", "K0"))
    from . import C12
    ctx.guard("exponent", "fe64", lambda: C12.check_exponents(ctx, P, "K0", "fe64"))
    ctx.guard("decode", "fe64::from_bytes", lambda: C12.check_from_bytes64(ctx, P))
    ctx.guard("grouplaw", "ge", lambda: check_group_law(ctx, P))
    ctx.guard("scalar", "scalar64", lambda: check_scalar64(ctx, P))
    ctx.guard("canonical", "fe64", lambda: check_canonical(ctx, P, "fe64"))
    ctx.guard("select", "ge", lambda: check_select(ctx, P, "fe64"))
    ctx.guard("decode", "ge", lambda: check_decode(ctx, P))
    ctx.guard("slide", "scalar", lambda: check_slide(ctx, P))
    from . import C14 as _C14
    ctx.guard("window", "double_scalarmult_vartime", lambda: _C14.check_window(ctx, P))
    ctx.guard("window", "scan-start", lambda: _C14.check_scan(ctx, P))
    ctx.guard("bits-all", "scalar64", lambda: _C14.check_bits_all(ctx, P, "scalar64"))
    from . import C13
    ctx.guard("table", "scalar64", lambda: C13.check_tables(ctx, P))
    P2 = ctx.prog("K2")
    ctx.guard("table", "fe32", lambda: check_tables(ctx, P2, "fe32"))
    ctx.guard("canonical", "fe32", lambda: check_canonical(ctx, P2, "fe32"))
    from . import febounds
    ctx.guard("fe-bounds", "fe64", lambda: febounds.check_fe64(ctx, P, "K0"))
    ctx.guard("fe-bounds", "fe32", lambda: febounds.check_fe32(ctx, P2, "K2"))
    ctx.guard("limbpoly", "fe32", lambda: check_field_ops(ctx, P2, "fe32", "K2"))
    from . import sc32
    ctx.guard("decode32", "fe32::from_bytes", lambda: sc32.check_decode32(ctx, P2))
    ctx.guard("table", "Scalar::ZERO/64", lambda: sc32.check_scalar_consts(ctx, P, "scalar64"))
    ctx.guard("table", "Scalar::ZERO/32", lambda: sc32.check_scalar_consts(ctx, P2, "scalar32"))
    ctx.guard("sc", "scalar32::reduce", lambda: sc32.check_scalar32(ctx, P2, "reduce"))
    ctx.guard("sc", "scalar32::muladd", lambda: sc32.check_scalar32(ctx, P2, "muladd"))
    if ctx.tier == "thorough":
        ctx.guard("exponent", "fe32", lambda: C12.check_exponents(ctx, P2, "K2", "fe32"))
        ctx.guard("grouplaw", "ge/K2", lambda: check_group_law(ctx, P2))
        ctx.guard("select", "ge/K2", lambda: check_select(ctx, P2, "fe32"))
    ctx.trusted += ["definition-derived oracle cxsa/spec/curve.py", "ssa evaluator, limb-polynomial and polynomial normal forms (ssa.py, limbpoly.py, poly.py)"]
    ctx.not_decided += ["Barrett quotient estimation and the final conditional subtractions as numbers", "radix-16 / sliding-window digit arithmetic of the scalar multiplications", "canonical reduction in to_packed / to_bytes"]
