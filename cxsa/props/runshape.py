"""Bounded shape evaluation of the block-run drivers (the loops that hand a run of whole message blocks to a compression
function): concrete block counts, symbolic contents, every compression leaf kept as a recorded opaque call.

Leaf contracts (each is decided for the real leaf by compress-eq):
  bytes    leaf(state, block)          consumes exactly the N*blocksize bytes of the slice it is given
  words    leaf(state, &[uN; 16])      consumes the block whose big-endian words it is given
  sched    leaf(schedule, message)     reads the first N*blocksize bytes of `message` into an opaque schedule
  comp     leaf(state, schedule)       state := F(state, the N blocks the schedule was made from)
The run of n blocks is correct iff the leaves consume blocks 0..n-1 in order, each exactly once, each compression starting
from the state its predecessor left, and the function's final state is the last one produced.  Decided for every block
count 0..maxn (the drivers are periodic in their widest batch: maxn spans two widest batches plus every tail)."""
import re
from .. import simd
from .arx import Box

RUNS = [
    # cfg, function, state words, state width, block bytes, max block count, leaves: (regex, kind, nblocks, state arg, data arg)
    ("K0", "hashing::sha1::digest_blocks", 5, 32, 64, 5, [(r"hashing::sha1::digest_block$", "bytes", 1, 0, 1)]),
    ("K0", "hashing::ripemd160::process_msg_blocks", 5, 32, 64, 5, [(r"ripemd160::process_msg_block$", "bytes", 1, 1, 0)]),
    ("K0", "hashing::sha2::impl256::reference::digest_block", 8, 32, 64, 5, [(r"impl256::reference::digest_block_u32$", "bytes", 1, 0, 1)]),
    ("K0", "hashing::sha2::impl512::reference::digest_block", 8, 64, 128, 5, [(r"impl512::reference::digest_block_u64$", "words", 1, 0, 1)]),
    ("K3", "hashing::sha2::impl256::sse41::digest_block", 8, 32, 64, 13, [(r"sse41::message_schedule_4ways$", "sched", 4, 0, 1), (r"sse41::compress_4ways$", "comp", 4, 0, 1), (r"impl256::reference::digest_block_u32$", "bytes", 1, 0, 1)]),
    ("K4", "hashing::sha2::impl256::avx::digest_block", 8, 32, 64, 21, [(r"avx::message_schedule_8ways$", "sched", 8, 0, 1), (r"avx::compress_8ways$", "comp", 8, 0, 1), (r"sse41::message_schedule_4ways$", "sched", 4, 0, 1), (r"sse41::compress_4ways$", "comp", 4, 0, 1), (r"impl256::reference::digest_block_u32$", "bytes", 1, 0, 1)]),
]


class Bad(Exception):
    pass


def run_one(P, path, nwords, w, bs, n, leaves, data_first=False):
    fn = P.fn(path)
    B = simd.TermBank()
    h0 = [B.inp("h[%d]" % i, w) for i in range(nwords)]
    by = [B.inp("m[%d]" % i, 8) for i in range(bs * n)]
    st = Box({i: h0[i] for i in range(nwords)})
    cont = {i: by[i] for i in range(bs * n)}
    M = simd.Machine(P, B, 64 if w == 64 else 32, {}, maxsteps=2000000)
    S = {"k": 0, "head": list(h0), "sched": None, "calls": 0}

    def state_is_head(m_, ref):
        c_, b_, k_ = m_.seq(ref)
        if k_ != nwords:
            raise Bad("a compression is handed a state of %d words" % k_)
        if [m_.scalar_bits(c_[b_ + i], w) for i in range(nwords)] != S["head"]:
            raise Bad("the compression of block %d does not start from the state its predecessor left" % S["k"])
        return c_, b_

    def advance(c_, b_, nb):
        S["k"] += nb
        S["head"] = [B.inp("st%d[%d]" % (S["k"], i), w) for i in range(nwords)]
        for i in range(nwords):
            c_[b_ + i] = S["head"][i]

    def window(m_, ref, nb, exact):
        c_, b_, k_ = m_.seq(ref)
        if c_ is not cont:
            raise Bad("a leaf is handed bytes that are not a window of the input run")
        if b_ != bs * S["k"]:
            raise Bad("a leaf is handed the bytes at offset %d when block %d (offset %d) is next" % (b_, S["k"], bs * S["k"]))
        if (exact and k_ != bs * nb) or k_ < bs * nb:
            raise Bad("a %d-block leaf is handed %d bytes at block %d" % (nb, k_, S["k"]))

    def mk(kind, nb, si, di):
        def hook(m_, f_, c, a):
            S["calls"] += 1
            if kind == "bytes":
                cs, b0 = state_is_head(m_, a[si])
                window(m_, a[di], nb, True)
                advance(cs, b0, nb)
            elif kind == "words":
                cs, b0 = state_is_head(m_, a[si])
                cw, bw, kw = m_.seq(a[di])
                if kw * (w // 8) != bs * nb:
                    raise Bad("a word leaf is handed %d words" % kw)
                k0 = bs * S["k"]
                if k0 + bs * nb > len(by):
                    raise Bad("a leaf is called for block %d of a %d-block run" % (S["k"], n))
                bw8 = w // 8
                for j in range(kw):
                    want = simd.cat(by[k0 + bw8 * j + (bw8 - 1 - t)] for t in range(bw8))
                    if m_.scalar_bits(cw[bw + j], w) != want:
                        raise Bad("word %d handed to the compression of block %d is not the big-endian word of the input at that position" % (j, S["k"]))
                advance(cs, b0, nb)
            elif kind == "sched":
                window(m_, a[di], nb, False)
                cs, b0, ks = m_.seq(a[si])
                for i in range(ks):
                    cs[b0 + i] = ("sched", S["calls"], i)
                S["sched"] = (nb, S["k"], [("sched", S["calls"], i) for i in range(ks)])
            elif kind == "comp":
                cs, b0 = state_is_head(m_, a[si])
                if S["sched"] is None or S["sched"][0] != nb or S["sched"][1] != S["k"]:
                    raise Bad("a %d-way compression at block %d does not follow the schedule of those blocks" % (nb, S["k"]))
                cw, bw, kw = m_.seq(a[di])
                if [cw[bw + i] for i in range(kw)] != S["sched"][2]:
                    raise Bad("a %d-way compression at block %d is handed a schedule other than the one just computed" % (nb, S["k"]))
                S["sched"] = None
                advance(cs, b0, nb)
            return None
        return hook
    M.hooks = [(re.compile(rx), mk(kind, nb, si, di)) for rx, kind, nb, si, di in leaves]
    args = [st.ref(), ("aslice", cont, 0, bs * n)]
    if data_first:
        args.reverse()
    M.call_fn(fn, args)
    if S["k"] != n:
        raise Bad("%d of %d blocks are compressed" % (S["k"], n))
    if [M.scalar_bits(st.v[i], w) for i in range(nwords)] != S["head"]:
        raise Bad("the state returned is not the one the last compression produced")
    if any(cont[i] is not by[i] for i in range(bs * n)):
        raise Bad("the input run is written to")
    return S["calls"]


def check(ctx, P, cfg, rule="shape-eval", simd_only=False, scalar_only=False):
    """every RUNS row whose function exists in P (configuration label cfg) is evaluated for n = 0..maxn"""
    done = 0
    seen = ctx.__dict__.setdefault("_runshape_seen", set())
    for _, path, nwords, w, bs, maxn, leaves in RUNS:
        is_simd = "sse41::" in path or "avx::" in path
        if (simd_only and not is_simd) or (scalar_only and is_simd):
            continue
        fn = P.fn_opt(path)
        inst = "%s@%s" % (path, cfg)
        if fn is None:
            if not is_simd:
                ctx.lost(rule, inst, "block-run driver %s is gone" % path)
            continue
        if inst in seen:
            done += 1
            continue
        bad = []
        n_ok = 0
        from .. import shapeconst
        extra, big = shapeconst.around(shapeconst.usize_consts(P, fn), unit=bs, hi=80)
        counts = sorted(set(range(maxn + 1)) | extra)
        for n in counts:
            try:
                run_one(P, path, nwords, w, bs, n, leaves, data_first="ripemd160" in path)
                n_ok += 1
            except Bad as e:
                bad.append((n, str(e)))
            except (simd.Unsupported, KeyError, IndexError, TypeError, AttributeError, ValueError) as e:
                bad.append((n, "not evaluable: %s: %s" % (type(e).__name__, str(e)[:100])))
            if len(bad) > 2:
                break
        ok = not bad and n_ok == len(counts)
        ctx.check(ok, rule, inst, "runs of 0..%d%s blocks: the compression leaves consume blocks 0..n-1 in order, each once, chained through the state" % (maxn, (" and %s" % sorted(extra - set(range(maxn + 1)))) if extra - set(range(maxn + 1)) else ""),
                  "%s does not compress each block of its run exactly once, in order: (blocks, what) %s" % (path, bad[:3]), where=fn.where(), key="%s:%s" % (rule, inst))
        if ok:
            seen.add(inst)
            done += 1
        if ok and big:
            ctx.note("%s names the length constant(s) %s, beyond the evaluated run lengths: the for-all-lengths structural rule keeps its authority" % (path, big))
        if ok and not big:
            why = "%s is decided for every run of 0..%d blocks by bounded shape evaluation with opaque compression leaves (shape-eval)" % (path, maxn)
            ctx.subsume("block-run:%s" % path, why)
            if is_simd:
                ctx.subsume("stride:%s:" % path.split("::")[-2], why)
    return done
