"""Shared rule instances for legacy Digest objects, Mac objects and HMAC (C08, C09)."""
import re

from .. import mir, pred, rules
from ..mir import fmt, walk, const_val

# legacy digest type -> (block bytes, output bits, hashing context type)
LEGACY = {
    "sha1::Sha1": (64, 160, "hashing::sha1::Context"),
    "sha2::Sha224": (64, 224, "hashing::sha2::Context224"),
    "sha2::Sha256": (64, 256, "hashing::sha2::Context256"),
    "sha2::Sha384": (128, 384, "hashing::sha2::Context384"),
    "sha2::Sha512": (128, 512, "hashing::sha2::Context512"),
    "sha2::Sha512Trunc224": (128, 224, "hashing::sha2::Context512_224"),
    "sha2::Sha512Trunc256": (128, 256, "hashing::sha2::Context512_256"),
    "sha3::Sha3_224": (144, 224, "hashing::sha3::Context224"),
    "sha3::Sha3_256": (136, 256, "hashing::sha3::Context256"),
    "sha3::Sha3_384": (104, 384, "hashing::sha3::Context384"),
    "sha3::Sha3_512": (72, 512, "hashing::sha3::Context512"),
    "sha3::Keccak224": (144, 224, "hashing::keccak::Context224"),
    "sha3::Keccak256": (136, 256, "hashing::keccak::Context256"),
    "sha3::Keccak384": (104, 384, "hashing::keccak::Context384"),
    "sha3::Keccak512": (72, 512, "hashing::keccak::Context512"),
    "ripemd160::Ripemd160": (64, 160, "hashing::ripemd160::Context"),
    "blake2b::Blake2b": (128, None, "hashing::blake2b::ContextDyn"),
    "blake2s::Blake2s": (64, None, "hashing::blake2s::ContextDyn"),
}


def cn(fn, op):
    return pred.canon(fn.expr(op), fn)


def digest_impl_types(P):
    return sorted({f.self_ty for f in P.fns.values() if f.impl_trait == "digest::Digest"})


def m(P, T, trait, name):
    return P.fn("<%s as %s>::%s" % (T, trait, name))


def flag_false_known(fn, bb, flag):
    for a in pred.facts_at(fn, bb):
        if a == ("bool", "arg1." + flag, False):
            return True
    return False


def engine_calls(P, fn, ctxpat, depth=0):
    """Calls (possibly through one level of private inherent helpers on the same type) whose callee
    matches ctxpat.  Returns list of (fn_where_found, call, via) ."""
    out = []
    rx = re.compile(ctxpat)
    for c in fn.calls():
        if rx.search(c.name()):
            out.append((fn, c, None))
        elif depth < 2 and c.local and fn.self_ty and c.name().startswith(fn.self_ty.split("<")[0] + "::"):
            g = P.fn_opt(c.name())
            if g is not None and g.id != fn.id:
                for (f2, c2, via) in engine_calls(P, g, ctxpat, depth + 1):
                    out.append((f2, c2, c))
    return out


def check_legacy_digest(ctx, P, T, for_prop):
    blk, bits, hctx = LEGACY[T]
    flag = "computed"
    inp = m(P, T, "digest::Digest", "input")
    res = m(P, T, "digest::Digest", "result")
    rst = m(P, T, "digest::Digest", "reset")
    H = re.escape(hctx)
    # --- delegation
    ups = engine_calls(P, inp, H + r"::update_mut$")
    ok = len(ups) == 1
    if ok:
        f2, c2, via = ups[0]
        ok = cn(f2, c2.args[0]) == "arg1.ctx" and cn(f2, c2.args[1]) == "arg2" and (via is None or (cn(inp, via.args[0]) == "arg1" and cn(inp, via.args[1]) == "arg2")) and rules.every_ret_path_passes(f2, [c2.bb]) and c2.bb not in f2.loop_blocks()
    ctx.check(ok, "delegate", T + "::input", "input(msg) = %s::update_mut(self.ctx, msg), once" % hctx, "%s::input does not feed exactly its argument to %s::update_mut once" % (T, hctx), where=inp.where(), key="delegate:%s::input" % T)
    fins = engine_calls(P, res, H + r"::finalize_reset(_at)?$")
    ok = len(fins) == 1
    fin_fn = fin_call = None
    if ok:
        fin_fn, fin_call, via = fins[0]
        ok = cn(fin_fn, fin_call.args[0]) == "arg1.ctx"
        if fin_call.name().endswith("_at"):
            ok = ok and cn(fin_fn, fin_call.args[1]) == "arg2" and (via is None or cn(res, via.args[1]) == "arg2")
        else:
            cps = [c for c in fin_fn.calls() if c.name().endswith("copy_from_slice")]
            ok = ok and len(cps) == 1 and cn(fin_fn, cps[0].args[0]) == "arg2" and any(x[0] == "call" and x[3] == (fin_call.bb,) for x in walk(fin_fn.expr(cps[0].args[1]))) or (ok and len(cps) == 1 and cn(fin_fn, cps[0].args[0]) == "arg2" and fin_call.dest[0] in [x[1] for x in walk(fin_fn.expr(cps[0].args[1])) if x[0] == "var"])
    ctx.check(ok, "delegate", T + "::result", "result(out) = out <- %s::finalize_reset(self.ctx)" % hctx, "%s::result does not write %s's finalize output to the caller's buffer" % (T, hctx), where=res.where(), key="delegate:%s::result" % T)
    # --- typestate flag
    if fin_fn is not None:
        ctx.check(flag_false_known(fin_fn, fin_call.bb, flag), "flag-guard", T + "::result", "result requires !computed", "%s::result does not refuse a second result (no `!computed` guard before finalising)" % T, where=res.where(), key="flag-guard:%s::result" % T)
    if ups and len(ups) == 1:
        ctx.check(flag_false_known(ups[0][0], ups[0][1].bb, flag), "flag-guard", T + "::input", "input requires !computed", "%s::input accepts data after the result was produced (no `!computed` guard)" % T, where=inp.where(), key="flag-guard:%s::input" % T)
    memo = {}
    vals = rules.last_write_values(P, res, flag, memo=memo)
    ctx.check(vals == {1}, "mustset", T + "::result:computed", "computed == true after result on every path", "%s::result does not leave computed == true on every path: %s" % (T, vals), where=res.where(), key="mustset:%s::result:computed" % T)
    vals = rules.last_write_values(P, rst, flag, memo={})
    ctx.check(vals == {0}, "mustset", T + "::reset:computed", "computed == false after reset", "%s::reset does not clear computed on every path: %s" % (T, vals), where=rst.where(), key="mustset:%s::reset:computed" % T)
    vals = rules.last_write_values(P, inp, flag, memo={})
    ctx.check(vals <= {rules.UNSET, 0}, "mustset", T + "::input:computed-untouched", "input never changes the flag", "%s::input modifies the result flag: %s" % (T, vals), where=inp.where())
    # reset delegates
    rs = engine_calls(P, rst, H + r"::reset(_with_key)?$")
    ok = len(rs) >= 1 and all(cn(f2, c2.args[0]) == "arg1.ctx" for f2, c2, via in rs)
    if ok:
        # ... on EVERY path: a reset that is skipped when no result was taken yet leaves the old input in the context
        direct = [c2.bb for f2, c2, via in rs if f2.id == rst.id] + [via.bb for f2, c2, via in rs if via is not None and f2.id != rst.id]
        ok = rules.every_ret_path_passes(rst, direct)
        for g in {f2.id: f2 for f2, c2, via in rs if f2.id != rst.id}.values():
            ok = ok and rules.every_ret_path_passes(g, [c2.bb for f2, c2, via in rs if f2.id == g.id])
    ctx.check(ok, "delegate", T + "::reset", "reset resets the hashing context on every path", "%s::reset does not reset its hashing context on every path (a mid-stream reset would keep the bytes already fed)" % T, where=rst.where(), key="delegate:%s::reset" % T)
    # constructor
    if bits is not None:
        nf = P.fn(T + "::new")
        cs = [c for c in nf.calls() if c.local]
        ctx.check(any(re.search(r"::new$", c.name()) for c in cs), "delegate", T + "::new", "new() builds the hashing context", "%s::new does not build a hashing context" % T, where=nf.where())


def check_sizes(ctx, P, T):
    blk, bits, hctx = LEGACY[T]
    bs = m(P, T, "digest::Digest", "block_size")
    e = bs.local_expr(0)
    v = e[1] if e[0] == "const" else None
    if v is None and e[0] == "kconst":
        v = e[3] if isinstance(e[3], int) else None
    ctx.check(v == blk, "table", T + "::block_size", "block_size() == %d" % blk, "%s::block_size() evaluates to %s, the algorithm's block (rate) is %d bytes" % (T, v if v is not None else fmt(e), blk), where=bs.where(), key="table:%s::block_size" % T)
    ob = m(P, T, "digest::Digest", "output_bits")
    e = ob.local_expr(0)
    if bits is not None:
        v = e[1] if e[0] == "const" else None
        ctx.check(v == bits, "table", T + "::output_bits", "output_bits() == %d" % bits, "%s::output_bits() evaluates to %s, the digest size is %d bits" % (T, v if v is not None else fmt(e), bits), where=ob.where(), key="table:%s::output_bits" % T)
    else:
        ok = e[0] == "call" and e[1].endswith("ContextDyn::output_bits") and pred.canon(e[2][0], ob) == "arg1.ctx"
        ctx.check(ok, "table", T + "::output_bits", "output_bits() = ctx.output_bits()", "%s::output_bits does not report its context's size" % T, where=ob.where())
        g = P.fn(hctx + "::output_bits")
        e2 = g.local_expr(0)
        l, c = pred.lin(e2, g)
        ctx.check(l == {"arg1.outlen": 8} and c == 0, "table", hctx + "::output_bits", "outlen * 8", "%s::output_bits is not outlen * 8" % hctx, where=g.where())


def check_output_bytes_default(ctx, P):
    fn = P.fn("digest::Digest::output_bytes")
    e = fn.local_expr(0)
    ok = e[0] == "bin" and e[1] == "Div" and e[3][:2] == ("const", 8)
    if ok:
        l, c = pred.lin(e[2], fn)
        ok = c == 7 and len(l) == 1 and list(l.values()) == [1] and "output_bits" in list(l.keys())[0]
    ctx.check(ok, "table", "Digest::output_bytes", "output_bytes() = (output_bits() + 7) / 8", "Digest::output_bytes default is not (output_bits()+7)/8: %s" % fmt(e), where=fn.where())


# ------------------------------------------------------------------ HMAC

D_INPUT = r"^digest::Digest::input$"
D_RESULT = r"^digest::Digest::result$"
D_RESET = r"^digest::Digest::reset$"


def check_hmac_mac(ctx, P):
    T = "hmac::Hmac<D>"
    inp = m(P, T, "mac::Mac", "input")
    rr = m(P, T, "mac::Mac", "raw_result")
    rst = m(P, T, "mac::Mac", "reset")
    res = m(P, T, "mac::Mac", "result")
    # input guarded
    cs = inp.calls_to(D_INPUT)
    ok = len(cs) == 1 and cn(inp, cs[0].args[0]) == "arg1.digest" and cn(inp, cs[0].args[1]) == "arg2" and flag_false_known(inp, cs[0].bb, "finished") and rules.every_ret_path_passes(inp, [cs[0].bb])
    ctx.check(ok, "flag-guard", "Hmac::input", "input requires !finished and feeds the inner digest", "Hmac::input does not refuse data after the result / does not feed the inner digest", where=inp.where(), key="flag-guard:Hmac::input")
    # raw_result: under !finished: result(out) -> reset -> input(o_key) -> input(out) -> finished = true ; then result(out)
    seq = [D_RESULT, D_RESET, D_INPUT, D_INPUT]
    first = [c for c in rr.calls_to(D_RESULT)]
    body = [c for c in rr.calls() if c.callee and c.callee.startswith("digest::Digest::")]
    names = [(c.callee.split("::")[-1], cn(rr, c.args[0]), cn(rr, c.args[1]) if len(c.args) > 1 else None) for c in body]
    want = [("result", "arg1.digest", "arg2"), ("reset", "arg1.digest", None), ("input", "arg1.digest", "arg1.o_key"), ("input", "arg1.digest", "arg2"), ("result", "arg1.digest", "arg2")]
    # o_key appears as a full-range index of the Vec
    norm = []
    for (n, a, b), c in zip(names, body):
        if n == "input" and b and "o_key" in b:
            w = rules.window(rr, rr.expr(c.args[1]))
            b = "arg1.o_key" if (w and w[0] == "arg1.o_key" and w[1] == ((), 0) and w[2] is None) else b
        norm.append((n, a, b))
    ctx.check(norm == want, "hmac-order", "Hmac::raw_result", "inner result -> reset -> input(o_key) -> input(inner) -> result", "Hmac::raw_result does not compute H(okey || H(ikey || m)) in order: %s" % norm, where=rr.where(), key="hmac-order:raw_result")
    if norm == want:
        inner = body[:4]
        ok = all(flag_false_known(rr, c.bb, "finished") for c in inner) and not flag_false_known(rr, body[4].bb, "finished") and rules.every_ret_path_passes(rr, [body[4].bb])
        ctx.check(ok, "hmac-order", "Hmac::raw_result:once", "outer transform runs only while !finished; the final result() always runs", "Hmac::raw_result's outer transform is not guarded by !finished", where=rr.where(), key="hmac-order:raw_result:guard")
    vals = rules.last_write_values(P, rr, "finished")
    ctx.check(vals == {1}, "mustset", "Hmac::raw_result:finished", "finished == true after raw_result on every path", "Hmac::raw_result does not leave finished == true on every path: %s" % vals, where=rr.where(), key="mustset:Hmac::raw_result:finished")
    # reset: digest.reset -> digest.input(i_key) -> finished = false
    body = [c for c in rst.calls() if c.callee and c.callee.startswith("digest::Digest::")]
    norm = []
    for c in body:
        n = c.callee.split("::")[-1]
        b = None
        if len(c.args) > 1:
            w = rules.window(rst, rst.expr(c.args[1]))
            b = w[0] if (w and w[1] == ((), 0) and w[2] is None) else cn(rst, c.args[1])
        norm.append((n, cn(rst, c.args[0]), b))
    ok = norm == [("reset", "arg1.digest", None), ("input", "arg1.digest", "arg1.i_key")] and all(rules.every_ret_path_passes(rst, [c.bb]) for c in body)
    ctx.check(ok, "rekey", "Hmac::reset", "reset = digest.reset(); digest.input(i_key): the retained inner key is re-absorbed", "Hmac::reset does not reset the digest and re-absorb i_key: %s" % norm, where=rst.where(), key="rekey:hmac::Hmac::reset")
    vals = rules.last_write_values(P, rst, "finished")
    ctx.check(vals == {0}, "mustset", "Hmac::reset:finished", "finished == false after reset", "Hmac::reset does not clear finished: %s" % vals, where=rst.where(), key="mustset:Hmac::reset:finished")
    ws = [names for b, i, names, rv in rules.field_writes(rst)]
    ctx.check(all(n == ["finished"] for n in ws), "rekey", "Hmac::reset:keys-untouched", "reset does not touch i_key / o_key", "Hmac::reset overwrites key material: %s" % ws, where=rst.where(), key="rekey:hmac::Hmac::reset:keys")
    # result: buffer of output_bytes, raw_result into it
    cs = res.calls_to(r"<hmac::Hmac<D> as mac::Mac>::raw_result$")
    ctx.check(len(cs) == 1 and cn(res, cs[0].args[0]) == "arg1", "delegate", "Hmac::result", "result() = raw_result into a fresh buffer", "Hmac::result does not go through raw_result", where=res.where())
    ob = m(P, T, "mac::Mac", "output_bytes")
    e = ob.local_expr(0)
    ctx.check(e[0] == "call" and e[1] == "digest::Digest::output_bytes" and pred.canon(e[2][0], ob) == "arg1.digest", "table", "Hmac::output_bytes", "output_bytes() = digest.output_bytes()", "Hmac::output_bytes is not the digest's output size", where=ob.where(), key="table:Hmac::output_bytes")


def check_hmac_keys(ctx, P):
    # the construction itself, against RFC 2104 with an uninterpreted digest (independent of how the code is organised);
    # the structural rules below decide the same clauses for every key length and stay as cross-checks
    from . import objshape
    ctx.guard("shape-eval", "Hmac", lambda: objshape.check_hmac(ctx, P))
    ek = P.fn("hmac::expand_key")
    # hash path iff key.len() > bs
    hres = ek.calls_to(D_RESULT)
    hin = ek.calls_to(D_INPUT)
    hrs = ek.calls_to(D_RESET)
    cps = [c for c in ek.calls() if c.name().endswith("copy_from_slice")]
    ok = len(hres) == 1 and len(hin) == 1 and len(cps) == 1 and len(hrs) == 1
    if not ok:
        ctx.fail("expand-key", "shape", "expand_key must have one copy path and one hash path (input, result, reset)", where=ek.where(), key="expand-key:shape")
        return
    bs_leaf = None
    for c in ek.calls_to(r"^digest::Digest::block_size$"):
        bs_leaf = pred.canon(("call", c.name(), tuple(ek.expr(a) for a in c.args), (c.bb,)), ek)
    fh = pred.facts_at(ek, hin[0].bb)
    fc = pred.facts_at(ek, cps[0].bb)
    want_h = pred.atom("le", -1, {bs_leaf: 1, "len(arg2)": -1})     # bs - len <= -1  <=> len > bs
    want_c = pred.atom("le", 0, {"len(arg2)": 1, bs_leaf: -1})      # len <= bs
    ctx.check(want_h in fh and want_c in fc, "expand-key", "predicate", "key is hashed iff key.len() > block_size (a key of exactly one block is copied)",
              "expand_key hashes the key under the wrong condition: hash path facts %s, copy path facts %s" % ([pred.show(f) for f in fh], [pred.show(f) for f in fc]), where=ek.where(), key="expand-key:predicate")
    # expanded key: repeat(0).take(bs)
    ok0 = False
    for c in ek.calls():
        if c.name().endswith("Iterator::collect") or c.name().endswith("::collect"):
            e = ek.expr(c.args[0])
            tk = [x for x in walk(e) if x[0] == "call" and x[1].endswith("::take")]
            rp = [x for x in walk(e) if x[0] == "call" and x[1].endswith("iter::repeat")]
            if tk and rp and pred.canon(tk[0][2][1], ek) == bs_leaf and rp[0][2][0][:2] == ("const", 0):
                ok0 = True
    ctx.check(ok0, "expand-key", "zero-padded", "K' starts as block_size zero bytes", "expand_key does not start from block_size zero bytes", where=ek.where(), key="expand-key:zero")
    wd = rules.window(ek, ek.expr(cps[0].args[0]))
    ctx.check(wd is not None and wd[1] == ((), 0) and wd[2] == ((("len(arg2)", 1),), 0) and cn(ek, cps[0].args[1]) == "arg2", "expand-key", "copy", "K'[0..key.len()] = key", "expand_key copy path does not place the key at the start of K'", where=ek.where(), key="expand-key:copy")
    wr = rules.window(ek, ek.expr(hres[0].args[1]))
    ob_leaf = None
    for c in ek.calls_to(r"^digest::Digest::output_bytes$"):
        ob_leaf = pred.canon(("call", c.name(), tuple(ek.expr(a) for a in c.args), (c.bb,)), ek)
    ctx.check(cn(ek, hin[0].args[1]) == "arg2" and wr is not None and wr[1] == ((), 0) and wr[2] == (((ob_leaf, 1),), 0) and wd[0] == wr[0], "expand-key", "hash", "K'[0..output_bytes] = H(key)", "expand_key hash path does not write H(key) at the start of K'", where=ek.where(), key="expand-key:hash")
    mn, _ = rules.call_sequence_min_progress(ek, [D_INPUT, D_RESULT, D_RESET])
    ctx.check(ek.reaches(hres[0].bb, hrs[0].bb), "expand-key", "reset-after-hash", "the digest is reset after hashing the key", "expand_key does not reset the digest after hashing the key", where=ek.where(), key="expand-key:reset")
    # derive_key: every element ^= mask
    dk = P.fn("hmac::derive_key")
    loops = rules.iter_loops(dk)
    okl = len(loops) == 1 and [c.split("::")[-1] for c in loops[0]["chain"]] in (["into_iter", "iter_mut"], ["iter_mut"]) and loops[0]["sources"] == [("iter_mut", "arg1")] and not loops[0]["early_exits"]
    okx = False
    if okl:
        for b in loops[0]["body"]:
            for s in dk.stmts(b):
                if s[0] == "=" and s[1][1] == ["*"] and s[2][0] == "bin" and s[2][1] == "BitXor":
                    ops = {pred.canon(dk.expr(s[2][2]), dk), pred.canon(dk.expr(s[2][3]), dk)}
                    if "arg2" in ops:
                        okx = True
    ctx.check(okl and okx, "derive-key", "coverage", "derive_key xors the mask into every byte (one iter_mut loop over the whole key, no early exit)", "derive_key does not xor the mask into every byte of the key block (%s)" % ([l["chain"] for l in loops]), where=dk.where(), key="derive-key:coverage")
    # key flow: the function that derives both pads (a helper `create_keys`, or Hmac::new itself when the helper is inlined)
    nf = P.fn("hmac::Hmac::<D>::new")
    cands = [f for f in P.fns.values() if f.path.startswith("hmac::") and len(f.calls_to(r"^hmac::derive_key$")) == 2]
    if len(cands) != 1:
        ctx.fail("create-keys", "ipad/opad", "expected exactly one function in hmac that derives the two pads with derive_key, found %s" % [f.path for f in cands], where=nf.where(), key="create-keys")
        return
    ck = cands[0]
    dks = ck.calls_to(r"^hmac::derive_key$")
    masks = {}
    for c in dks:
        e = ck.expr(c.args[0])
        v = [x[1] for x in walk(e) if x[0] == "var"]
        mk = ck.expr(c.args[1])
        masks[v[0] if v else None] = mk[1] if mk[0] == "const" else None
    ek_c = ck.calls_to(r"^hmac::expand_key$")
    cl = [c for c in ck.calls() if (c.name().endswith("Clone>::clone") or c.name().endswith("::clone")) and aead_var(ck, c.args[0]) in masks]
    ok = len(ek_c) == 1 and len(cl) == 1 and len(dks) == 2
    ik = okl_ = None
    if ok:
        ik = ek_c[0].dest[0]
        okl_ = cl[0].dest[0]
        ok = masks.get(ik) == 0x36 and masks.get(okl_) == 0x5c and aead_var(ck, cl[0].args[0]) == ik
        ok = ok and cn(ck, ek_c[0].args[1]) == "arg2" and cn(ck, ek_c[0].args[0]) in ("arg1", "v:digest")
        if ck.id != nf.id:
            ret = ck.local_expr(0)
            ok = ok and ret[0] == "agg" and [aead_var2(x) for x in ret[2]] == [ik, okl_]
    ctx.check(ok, "create-keys", "ipad/opad", "i_key = K' ^ 0x36.., o_key = clone(K') ^ 0x5c.. (in %s)" % ck.path.split("::")[-1], "%s does not derive (K' ^ ipad, K' ^ opad): masks %s" % (ck.path, masks), where=ck.where(), key="create-keys")
    # Hmac::new: absorb i_key first; store keys in the right fields
    ins = nf.calls_to(D_INPUT)
    agg = [s_ for b_ in sorted(nf.reachable()) for s_ in nf.stmts(b_) if s_[0] == "=" and s_[2][0] == "agg" and s_[2][1][0] == "adt" and s_[2][1][1] == "hmac::Hmac"]
    ok2 = ok and len(ins) == 1 and len(agg) == 1
    if ok2:
        w = rules.window(nf, nf.expr(ins[0].args[1]))
        ok2 = w is not None and w[1] == ((), 0) and w[2] is None
        d = dict(zip(agg[0][2][1][4], [nf.expr(o) for o in agg[0][2][2]]))
        fin0 = const_val(agg[0][2][2][agg[0][2][1][4].index("finished")]) == 0
        if ck.id == nf.id:
            # derived in place: the absorbed buffer and the stored fields are the two variables themselves
            absorbed = None
            for x in walk(nf.expr(ins[0].args[1])):
                if x[0] == "var" and x[1] in (ik, okl_):
                    absorbed = x[1]
            last_dk = max(nf.rpo().index(c.bb) for c in dks)
            ok2 = ok2 and absorbed == ik and aead_var2(d["i_key"]) == ik and aead_var2(d["o_key"]) == okl_ and fin0 and all(nf.dominates(c.bb, ins[0].bb) for c in dks)
        else:
            cks = nf.calls_to("^" + re.escape(ck.path) + "$")
            ok2 = ok2 and len(cks) == 1 and nf.dominates(cks[0].bb, ins[0].bb)

            def tup_field(e):
                for x in walk(e):
                    if x[0] == "field" and x[1][0] in ("var", "call"):
                        return x[2]
                return None
            if ok2:
                ikf = tup_field(d["i_key"])
                okf = tup_field(d["o_key"])
                absorbed = None
                for x in walk(nf.expr(ins[0].args[1])):
                    if x[0] == "call" and rules.INDEX_FN.search(x[1]):
                        base = x[2][0]
                        absorbed = tup_field(base)
                        if absorbed is None:
                            for y in walk(base):
                                if y[0] == "var":
                                    for b_, e_ in rules.var_defs(nf, y[1]):
                                        absorbed = tup_field(e_)
                ok2 = ikf == 0 and okf == 1 and absorbed == 0 and fin0 and cn(nf, ins[0].args[0]) in ("arg1",)
    ctx.check(ok2, "hmac-new", "absorb-ikey", "Hmac::new stores (i_key, o_key), absorbs i_key into the digest, finished = false", "Hmac::new does not absorb the inner key first / stores the keys wrongly", where=nf.where(), key="hmac-new")


def aead_var(fn, op):
    e = fn.expr(op)
    while isinstance(e, tuple) and e[0] in ("ref", "cast", "deref"):
        e = e[2] if e[0] in ("ref", "cast") else e[1]
    return e[1] if e[0] == "var" else None


def aead_var2(e):
    while isinstance(e, tuple) and e[0] in ("ref", "cast", "deref"):
        e = e[2] if e[0] in ("ref", "cast") else e[1]
    return e[1] if e[0] == "var" else None
