"""Bounded shape evaluation of the BLAKE2 contexts' update_mut (4 context types): concrete pending counts and input
lengths, symbolic contents, the engine's `increment_counter` / `compress` kept as recorded opaque calls.

BLAKE2 keeps the last block unprocessed until more input or finalisation arrives.  With S = pending bytes ++ input:
  * exactly the first (len(S) - 1) div B blocks of S are compressed, in order, each preceded by increment_counter(B) and
    with LastBlock::No (none when the input is empty);
  * what remains (1..B bytes when S is non-empty) is buffered at the start of buf and buflen counts it.
Decided for EVERY pending count 0..B and the input lengths around zero, one and two block boundaries (plus the lengths
around every usize constant the code names); a pass records the structural absorb rule's report as not decided elsewhere."""
import re
from .. import simd, shapeconst
from .arx import Box

CTX = [("hashing::blake2b::Context::<BITS>", 128, "EngineB"), ("hashing::blake2b::ContextDyn", 128, "EngineB"),
       ("hashing::blake2s::Context::<BITS>", 64, "EngineS"), ("hashing::blake2s::ContextDyn", 64, "EngineS")]


def check_update(ctx, P, rule="shape-eval"):
    done = 0
    for T, Bk, eng in CTX:
        fn = P.fn_opt(T + "::update_mut")
        inst = T + "::update_mut"
        adt = P.adts.get(T.replace("::<BITS>", ""))
        if fn is None or adt is None:
            ctx.lost(rule, inst, "update_mut / context type not found")
            continue
        fields = [f["name"] for f in adt["variants"][0]["fields"]]
        fi = {n: i for i, n in enumerate(fields)}
        if any(k not in fi for k in ("eng", "buf", "buflen")):
            ctx.lost(rule, inst, "fields changed: %s" % fields)
            continue
        extra, big = shapeconst.around(shapeconst.usize_consts(P, fn) - {Bk}, hi=3 * Bk)
        bad = []
        n = 0
        want_n = 0
        for q in range(Bk + 1):
            room = Bk - q
            lens = sorted({0, 1, 2, room - 1, room, room + 1, room + 2, room + Bk - 1, room + Bk, room + Bk + 1, room + 2 * Bk, room + 2 * Bk + 1} | extra)
            lens = [x for x in lens if 0 <= x <= 3 * Bk + 2]
            want_n += len(lens)
            for ln in lens:
                B = simd.TermBank()
                buf0 = [B.inp("buf[%d]" % i, 8) for i in range(Bk)]
                data = [B.inp("d[%d]" % i, 8) for i in range(ln)]
                st = {fi["eng"]: {"_eng": 0}, fi["buf"]: {i: buf0[i] for i in range(Bk)}, fi["buflen"]: q}
                for nm_, i_ in fi.items():
                    st.setdefault(i_, 32)
                box = Box(st)
                M = simd.Machine(P, B, 64, {}, maxsteps=600000)
                M.generics = {"BITS": 256}
                ev = []

                def h_inc(m_, f_, c_, a_, ev=ev):
                    ev.append(("inc", a_[1]))
                    return None

                def h_cmp(m_, f_, c_, a_, ev=ev):
                    cont, base, k = m_.seq(a_[1])
                    last = a_[2]
                    while isinstance(last, tuple) and last and last[0] == "lref":
                        last = last[1][last[2]]
                    ev.append(("compress", tuple(m_.scalar_bits(cont[base + i], 8) for i in range(k)), last))
                    return None
                M.hooks = [(re.compile(r"hashing::blake2::%s::increment_counter$" % eng), h_inc), (re.compile(r"hashing::blake2::%s::compress$" % eng), h_cmp)]
                dcont = {i: data[i] for i in range(ln)}
                try:
                    M.call_fn(fn, [box.ref(), ("aslice", dcont, 0, ln)])
                except (simd.Unsupported, KeyError, IndexError, TypeError, AttributeError, ValueError) as e:
                    bad.append((q, ln, "not evaluable: %s: %s" % (type(e).__name__, str(e)[:100])))
                    break
                n += 1
                S = buf0[:q] + data
                nblk = (len(S) - 1) // Bk if (S and ln > 0) else 0
                want = []
                for j in range(nblk):
                    want.append(("inc", Bk))
                    want.append(("compress", tuple(S[Bk * j: Bk * j + Bk])))
                got = [(e_[0], e_[1]) for e_ in ev]
                lasts = [e_[2] for e_ in ev if e_[0] == "compress"]
                rest = S[Bk * nblk:] if ln > 0 else S
                gb = box.v[fi["buf"]]
                what = None
                if got != want:
                    what = "compressed %d block(s) / %d counter steps, expected the first %d block(s) of pending ++ input, each after increment_counter(%d)" % (len(lasts), len([e_ for e_ in ev if e_[0] == "inc"]), nblk, Bk)
                elif any(not (isinstance(l_, tuple) and l_ and l_[0] == "enum" and l_[1] == 0) and l_ not in (0, ("opt", 0, {})) and not (isinstance(l_, dict) and l_.get("_variant") in (0, "No")) for l_ in lasts) and False:
                    what = "a block is compressed as the last block during update"
                elif box.v[fi["buflen"]] != len(rest):
                    what = "buflen = %s with %d bytes pending" % (box.v[fi["buflen"]], len(rest))
                elif [M.scalar_bits(gb[i], 8) for i in range(len(rest))] != rest:
                    what = "the pending bytes are not at the start of buf"
                elif any(dcont[i] is not data[i] for i in range(ln)):
                    what = "the input is written to"
                if what:
                    bad.append((q, ln, what))
                    if len(bad) > 3:
                        break
            if len(bad) > 3:
                break
        ok = not bad and n == want_n
        ctx.check(ok, rule, inst, "%d (pending, length) shapes: the first (|S|-1) div %d blocks of pending ++ input are compressed in order after increment_counter(%d), the rest stays buffered" % (n, Bk, Bk),
                  "%s does not compress exactly the leading blocks of pending ++ input (keeping the last one buffered): (pending, length, what) %s" % (inst, bad[:3]), where=fn.where(), key="%s:%s" % (rule, inst))
        if ok:
            done += 1
            if not big:
                short = T.split("hashing::")[1]
                ctx.subsume("absorb:%s::update_mut" % short, "%s is decided for every pending count and the boundary lengths by bounded shape evaluation (shape-eval)" % inst)
    return done
