"""Shared rule instances for hashing contexts (C01, C02, C09): BLAKE2 keyed initialisation / reset
completeness, buffer zeroing."""
import re

from .. import mir, pred, rules
from ..mir import fmt, walk, const_val


def cn(fn, op):
    return pred.canon(fn.expr(op), fn)


def full_zeroings(fn, target):
    """Blocks after which the buffer named `target` (canonical name, e.g. 'arg1.buf' or 'v:buf') is
    all zero: `target = [0; N]`, zero(&mut target[..]), target.fill(0)."""
    out = []
    for b in sorted(fn.reachable()):
        for s in fn.stmts(b):
            if s[0] == "=" and s[2][0] == "rep" and const_val(s[2][1]) == 0:
                lhs = pred.canon(fn.place_expr(s[1]), fn) if s[1][1] else ("v:%s" % fn.dbg.get(s[1][0], "_%d" % s[1][0]) if s[1][0] in fn.dbg else "_%d" % s[1][0])
                if lhs == target:
                    out.append(("after-stmt", b))
        t = fn.term(b)
        if t[0] == "call":
            c = mir.Call(fn, b, t)
            nm = c.name()
            if nm == "cryptoutil::zero" or nm.endswith("<impl [T]>::fill"):
                if nm.endswith("fill") and fn.expr(c.args[1])[:2] != ("const", 0):
                    continue
                w = rules.window(fn, fn.expr(c.args[0]))
                if w and w[0] == target and w[1] == ((), 0) and w[2] is None:
                    out.append(("after-call", b))
    return out


def zero_before(fn, target, bb):
    """A full zeroing of `target` dominates block bb (and happens before it)."""
    for kind, b in full_zeroings(fn, target):
        if b != bb and fn.dominates(b, bb):
            return True
        if b == bb and kind == "after-stmt":
            return True
    return False


def local_name(fn, l):
    return "v:%s" % fn.dbg[l] if l in fn.dbg else "_%d" % l


def check_blake2_keyed(ctx, P, path, kind, blk, outlen_leaf, rule_prefix="keyed-init"):
    """kind = 'new_keyed' (state built in locals, returned as aggregate) or 'reset_with_key' (state in *self)."""
    fn = P.fn(path)
    inst = path
    key = "arg2" if (kind == "reset_with_key" or "ContextDyn" in path) else "arg1"
    if kind == "new_keyed" and "ContextDyn" not in path:
        key = "arg1"
    elif kind == "new_keyed":
        key = "arg2"
    klen = "len(%s)" % key
    # --- engine (re)initialisation with (outlen, key.len())
    eng = [c for c in fn.calls() if re.search(r"hashing::blake2::Engine[BS]::(new|reset)$", c.name())]
    ok = len(eng) == 1 and rules.every_ret_path_passes(fn, [eng[0].bb])
    if ok:
        a = eng[0].args[-2:]
        o = pred.lin(fn.expr(a[0]), fn)
        k = pred.lin(fn.expr(a[1]), fn)
        ok = k == ({klen: 1}, 0)
        ol = pred.canon(fn.expr(a[0]), fn)
        ok = ok and ol == outlen_leaf
        if kind == "reset_with_key":
            ok = ok and cn(fn, eng[0].args[0]) == "arg1.eng"
    ctx.check(ok, rule_prefix, inst + ":engine", "engine parameter block from (outlen, key.len())", "%s does not (re)initialise the engine with (outlen, key.len()): %s" % (path, [fmt(fn.expr(x)) for x in eng[0].args] if eng else "no engine call"), where=fn.where(), key="%s:%s:engine" % (rule_prefix, path))
    # --- key copy into a zeroed block, under key non-empty
    cps = [c for c in fn.calls() if c.name().endswith("copy_from_slice")]
    target = "arg1.buf" if kind == "reset_with_key" else None
    okc = len(cps) == 1
    if okc:
        c = cps[0]
        w = rules.window(fn, fn.expr(c.args[0]))
        okc = w is not None and w[1] == ((), 0) and w[2] == (((klen, 1),), 0) and cn(fn, c.args[1]) == key
        if okc:
            if target is None:
                target = w[0]
            okc = w[0] == target
        facts = pred.facts_at(fn, c.bb)
        nonempty = pred.A("ne", 0, **{klen: 1}) in facts or pred.A("le", -1, **{klen: -1}) in facts
        ctx.check(nonempty, rule_prefix, inst + ":key-copy-guard", "key copied only when non-empty", "%s copies the key without the non-empty guard" % path, where=fn.where(c.line))
    ctx.check(okc, rule_prefix, inst + ":key-copy", "buf[0..key.len()] = key", "%s does not place the key at the start of the block buffer" % path, where=fn.where(), key="%s:%s:key-copy" % (rule_prefix, path))
    if okc:
        zb = zero_before(fn, target, cps[0].bb)
        ctx.check(zb, rule_prefix, inst + ":zero-block", "the whole block buffer is zero before the key is copied in", "%s does not clear the WHOLE block buffer before copying the key: stale bytes beyond the key stay in the padded key block" % path, where=fn.where(), key="%s:%s:zero-block" % (rule_prefix, path))
    # --- buflen: BLOCK iff key non-empty else 0 ; and on the empty path the buffer is all zero
    if kind == "reset_with_key":
        writes = [(b, fn.rvalue_expr(rv)) for b, i, names, rv in rules.field_writes(fn) if names == ["buflen"]]
    else:
        # local variable that ends up in the aggregate's buflen field
        agg = [s for b in sorted(fn.reachable()) for s in fn.stmts(b) if s[0] == "=" and s[2][0] == "agg" and s[2][1][0] == "adt" and "Context" in s[2][1][1]]
        writes = []
        if len(agg) == 1:
            d = dict(zip(agg[0][2][1][4], agg[0][2][2]))
            e = fn.expr(d["buflen"])
            if e[0] == "var":
                writes = rules.var_defs(fn, e[1])
            bufe = fn.expr(d["buf"])
            ctx.check(bufe[0] == "var" and local_name(fn, bufe[1]) == target, rule_prefix, inst + ":buf-field", "the prepared block becomes the context buffer", "%s stores a different buffer than the one it prepared" % path, where=fn.where())
    got = {}
    for b, e in writes:
        facts = pred.facts_at(fn, b)
        empty = pred.A("eq", 0, **{klen: 1}) in facts
        nonempty = pred.A("ne", 0, **{klen: 1}) in facts
        got["empty" if empty else "nonempty" if nonempty else "?"] = e[1] if e[0] == "const" else fmt(e)
    ctx.check(got == {"empty": 0, "nonempty": blk}, rule_prefix, inst + ":buflen", "buflen = %d iff the key is non-empty, else 0" % blk, "%s sets buflen wrongly: %s" % (path, got), where=fn.where(), key="%s:%s:buflen" % (rule_prefix, path))
    if kind == "reset_with_key":
        # empty-key path leaves the buffer all zero as well
        rets = fn.ret_blocks()
        z = full_zeroings(fn, "arg1.buf")
        okz = all(any(fn.dominates(b, r) for k, b in z) for r in rets)
        ctx.check(okz, rule_prefix, inst + ":zero-all-paths", "buffer cleared on every path", "%s leaves stale buffer contents on some path" % path, where=fn.where(), key="%s:%s:zero-all" % (rule_prefix, path))
        kl = [c for c in fn.calls() if False]
    # key length guard
    facts_any = [pred.facts_at(fn, c.bb) for c in eng]
    mk = 64 if blk == 128 else 32
    ctx.check(bool(eng) and pred.implies(facts_any[0], pred.A("le", mk, **{klen: 1})), "guard", inst + ":keylen", "key.len() <= %d asserted first" % mk, "%s does not bound key.len() by %d before using it" % (path, mk), where=fn.where(), key="guard:%s:keylen" % path)


def check_blake2_plain_reset(ctx, P, path, outlen_leaf):
    fn = P.fn(path)
    eng = [c for c in fn.calls() if re.search(r"hashing::blake2::Engine[BS]::reset$", c.name())]
    ok = len(eng) == 1 and cn(fn, eng[0].args[0]) == "arg1.eng" and pred.canon(fn.expr(eng[0].args[1]), fn) == outlen_leaf and fn.expr(eng[0].args[2])[:2] == ("const", 0)
    ctx.check(ok, "reset-complete", path + ":engine", "engine reset with (outlen, 0)", "%s does not reset the engine with (outlen, keylen 0)" % path, where=fn.where(), key="reset-complete:%s:engine" % path)
    vals = rules.last_write_values(P, fn, "buflen")
    ctx.check(vals == {0}, "reset-complete", path + ":buflen", "buflen = 0", "%s does not clear buflen: %s" % (path, vals), where=fn.where(), key="reset-complete:%s:buflen" % path)
    z = full_zeroings(fn, "arg1.buf")
    ctx.check(bool(z) and all(any(fn.dominates(b, r) for k, b in z) for r in fn.ret_blocks()), "reset-complete", path + ":buf", "buffer cleared", "%s does not clear the whole buffer" % path, where=fn.where(), key="reset-complete:%s:buf" % path)


BLAKE2_CTX = [
    ("hashing::blake2b::Context::<BITS>", 128, "(lin{+1*P:BITS+7} Div 8)"),
    ("hashing::blake2b::ContextDyn", 128, None),
    ("hashing::blake2s::Context::<BITS>", 64, "(lin{+1*P:BITS+7} Div 8)"),
    ("hashing::blake2s::ContextDyn", 64, None),
]


def check_all_blake2_keyed(ctx, P, which=("new_keyed", "reset_with_key", "reset")):
    for T, blk, leaf in BLAKE2_CTX:
        dyn = leaf is None
        if "new_keyed" in which:
            ol = leaf if not dyn else "arg1"
            ctx.guard("keyed-init", T + "::new_keyed", lambda: check_blake2_keyed(ctx, P, T + "::new_keyed", "new_keyed", blk, ol))
        if "reset_with_key" in which:
            ol = leaf if not dyn else "arg1.outlen"
            ctx.guard("keyed-init", T + "::reset_with_key", lambda: check_blake2_keyed(ctx, P, T + "::reset_with_key", "reset_with_key", blk, ol))
        if "reset" in which:
            ol = leaf if not dyn else "arg1.outlen"
            ctx.guard("reset-complete", T + "::reset", lambda: check_blake2_plain_reset(ctx, P, T + "::reset", ol))
