"""Shared rule instances for hashing contexts (C01, C02, C09): BLAKE2 keyed initialisation / reset
completeness, buffer zeroing."""
import re

from .. import mir, pred, rules
from ..mir import fmt, walk, const_val


def cn(fn, op):
    return pred.canon(fn.expr(op), fn)


def full_zeroings(fn, target):
    """Blocks after which the buffer named `target` (canonical name, e.g. 'arg1.buf' or 'v:buf') is
    all zero: `target = [0; N]`, zero(&mut target[..]), target.fill(0)."""
    out = []
    for b in sorted(fn.reachable()):
        for s in fn.stmts(b):
            if s[0] == "=" and s[2][0] == "rep" and const_val(s[2][1]) == 0:
                lhs = pred.canon(fn.place_expr(s[1]), fn) if s[1][1] else ("v:%s" % fn.dbg.get(s[1][0], "_%d" % s[1][0]) if s[1][0] in fn.dbg else "_%d" % s[1][0])
                if lhs == target:
                    out.append(("after-stmt", b))
        t = fn.term(b)
        if t[0] == "call":
            c = mir.Call(fn, b, t)
            nm = c.name()
            if nm == "cryptoutil::zero" or nm.endswith("<impl [T]>::fill"):
                if nm.endswith("fill") and fn.expr(c.args[1])[:2] != ("const", 0):
                    continue
                w = rules.window(fn, fn.expr(c.args[0]))
                if w and w[0] == target and w[1] == ((), 0) and w[2] is None:
                    out.append(("after-call", b))
    return out


def zero_before(fn, target, bb):
    """A full zeroing of `target` dominates block bb (and happens before it)."""
    for kind, b in full_zeroings(fn, target):
        if b != bb and fn.dominates(b, bb):
            return True
        if b == bb and kind == "after-stmt":
            return True
    return False


def local_name(fn, l):
    return "v:%s" % fn.dbg[l] if l in fn.dbg else "_%d" % l


def check_blake2_keyed(ctx, P, path, kind, blk, outlen_leaf, rule_prefix="keyed-init"):
    """kind = 'new_keyed' (state built in locals, returned as aggregate) or 'reset_with_key' (state in *self)."""
    fn = P.fn(path)
    inst = path
    key = "arg2" if (kind == "reset_with_key" or "ContextDyn" in path) else "arg1"
    if kind == "new_keyed" and "ContextDyn" not in path:
        key = "arg1"
    elif kind == "new_keyed":
        key = "arg2"
    klen = "len(%s)" % key
    # --- engine (re)initialisation with (outlen, key.len())
    eng = [c for c in fn.calls() if re.search(r"hashing::blake2::Engine[BS]::(new|reset)$", c.name())]
    ok = len(eng) == 1 and rules.every_ret_path_passes(fn, [eng[0].bb])
    if ok:
        a = eng[0].args[-2:]
        o = pred.lin(fn.expr(a[0]), fn)
        k = pred.lin(fn.expr(a[1]), fn)
        ok = k == ({klen: 1}, 0)
        ol = pred.canon(fn.expr(a[0]), fn)
        ok = ok and ol == outlen_leaf
        if kind == "reset_with_key":
            ok = ok and cn(fn, eng[0].args[0]) == "arg1.eng"
    ctx.check(ok, rule_prefix, inst + ":engine", "engine parameter block from (outlen, key.len())", "%s does not (re)initialise the engine with (outlen, key.len()): %s" % (path, [fmt(fn.expr(x)) for x in eng[0].args] if eng else "no engine call"), where=fn.where(), key="%s:%s:engine" % (rule_prefix, path))
    # --- key copy into a zeroed block, under key non-empty
    cps = [c for c in fn.calls() if c.name().endswith("copy_from_slice")]
    target = "arg1.buf" if kind == "reset_with_key" else None
    okc = len(cps) == 1
    if okc:
        c = cps[0]
        w = rules.window(fn, fn.expr(c.args[0]))
        okc = w is not None and w[1] == ((), 0) and w[2] == (((klen, 1),), 0) and cn(fn, c.args[1]) == key
        if okc:
            if target is None:
                target = w[0]
            okc = w[0] == target
        facts = pred.facts_at(fn, c.bb)
        nonempty = pred.A("ne", 0, **{klen: 1}) in facts or pred.A("le", -1, **{klen: -1}) in facts
        ctx.check(nonempty, rule_prefix, inst + ":key-copy-guard", "key copied only when non-empty", "%s copies the key without the non-empty guard" % path, where=fn.where(c.line))
    ctx.check(okc, rule_prefix, inst + ":key-copy", "buf[0..key.len()] = key", "%s does not place the key at the start of the block buffer" % path, where=fn.where(), key="%s:%s:key-copy" % (rule_prefix, path))
    if okc:
        zb = zero_before(fn, target, cps[0].bb)
        ctx.check(zb, rule_prefix, inst + ":zero-block", "the whole block buffer is zero before the key is copied in", "%s does not clear the WHOLE block buffer before copying the key: stale bytes beyond the key stay in the padded key block" % path, where=fn.where(), key="%s:%s:zero-block" % (rule_prefix, path))
    # --- buflen: BLOCK iff key non-empty else 0 ; and on the empty path the buffer is all zero
    if kind == "reset_with_key":
        writes = [(b, fn.rvalue_expr(rv)) for b, i, names, rv in rules.field_writes(fn) if names == ["buflen"]]
    else:
        # local variable that ends up in the aggregate's buflen field
        agg = [s for b in sorted(fn.reachable()) for s in fn.stmts(b) if s[0] == "=" and s[2][0] == "agg" and s[2][1][0] == "adt" and "Context" in s[2][1][1]]
        writes = []
        if len(agg) == 1:
            d = dict(zip(agg[0][2][1][4], agg[0][2][2]))
            e = fn.expr(d["buflen"])
            if e[0] == "var":
                writes = rules.var_defs(fn, e[1])
            bufe = fn.expr(d["buf"])
            ctx.check(bufe[0] == "var" and local_name(fn, bufe[1]) == target, rule_prefix, inst + ":buf-field", "the prepared block becomes the context buffer", "%s stores a different buffer than the one it prepared" % path, where=fn.where())
    got = {}
    for b, e in writes:
        facts = pred.facts_at(fn, b)
        empty = pred.A("eq", 0, **{klen: 1}) in facts
        nonempty = pred.A("ne", 0, **{klen: 1}) in facts
        got["empty" if empty else "nonempty" if nonempty else "?"] = e[1] if e[0] == "const" else fmt(e)
    ctx.check(got == {"empty": 0, "nonempty": blk}, rule_prefix, inst + ":buflen", "buflen = %d iff the key is non-empty, else 0" % blk, "%s sets buflen wrongly: %s" % (path, got), where=fn.where(), key="%s:%s:buflen" % (rule_prefix, path))
    if kind == "reset_with_key":
        # empty-key path leaves the buffer all zero as well
        rets = fn.ret_blocks()
        z = full_zeroings(fn, "arg1.buf")
        okz = all(any(fn.dominates(b, r) for k, b in z) for r in rets)
        ctx.check(okz, rule_prefix, inst + ":zero-all-paths", "buffer cleared on every path", "%s leaves stale buffer contents on some path" % path, where=fn.where(), key="%s:%s:zero-all" % (rule_prefix, path))
        kl = [c for c in fn.calls() if False]
    # key length guard
    facts_any = [pred.facts_at(fn, c.bb) for c in eng]
    mk = 64 if blk == 128 else 32
    ctx.check(bool(eng) and pred.implies(facts_any[0], pred.A("le", mk, **{klen: 1})), "guard", inst + ":keylen", "key.len() <= %d asserted first" % mk, "%s does not bound key.len() by %d before using it" % (path, mk), where=fn.where(), key="guard:%s:keylen" % path)


def check_blake2_plain_reset(ctx, P, path, outlen_leaf):
    fn = P.fn(path)
    eng = [c for c in fn.calls() if re.search(r"hashing::blake2::Engine[BS]::reset$", c.name())]
    ok = len(eng) == 1 and cn(fn, eng[0].args[0]) == "arg1.eng" and pred.canon(fn.expr(eng[0].args[1]), fn) == outlen_leaf and fn.expr(eng[0].args[2])[:2] == ("const", 0)
    ctx.check(ok, "reset-complete", path + ":engine", "engine reset with (outlen, 0)", "%s does not reset the engine with (outlen, keylen 0)" % path, where=fn.where(), key="reset-complete:%s:engine" % path)
    vals = rules.last_write_values(P, fn, "buflen")
    ctx.check(vals == {0}, "reset-complete", path + ":buflen", "buflen = 0", "%s does not clear buflen: %s" % (path, vals), where=fn.where(), key="reset-complete:%s:buflen" % path)
    z = full_zeroings(fn, "arg1.buf")
    ctx.check(bool(z) and all(any(fn.dominates(b, r) for k, b in z) for r in fn.ret_blocks()), "reset-complete", path + ":buf", "buffer cleared", "%s does not clear the whole buffer" % path, where=fn.where(), key="reset-complete:%s:buf" % path)


BLAKE2_CTX = [
    ("hashing::blake2b::Context::<BITS>", 128, "(lin{+1*P:BITS+7} Div 8)"),
    ("hashing::blake2b::ContextDyn", 128, None),
    ("hashing::blake2s::Context::<BITS>", 64, "(lin{+1*P:BITS+7} Div 8)"),
    ("hashing::blake2s::ContextDyn", 64, None),
]


def check_all_blake2_keyed(ctx, P, which=("new_keyed", "reset_with_key", "reset")):
    kinds = tuple(k for k in which if k in ("new_keyed", "reset_with_key"))
    if kinds:
        ctx.guard("shape-eval", "blake2 keyed init", lambda: check_blake2_keyed_shapes(ctx, P, kinds))
    for T, blk, leaf in BLAKE2_CTX:
        dyn = leaf is None
        if "new_keyed" in which:
            ol = leaf if not dyn else "arg1"
            ctx.guard("keyed-init", T + "::new_keyed", lambda: check_blake2_keyed(ctx, P, T + "::new_keyed", "new_keyed", blk, ol))
        if "reset_with_key" in which:
            ol = leaf if not dyn else "arg1.outlen"
            ctx.guard("keyed-init", T + "::reset_with_key", lambda: check_blake2_keyed(ctx, P, T + "::reset_with_key", "reset_with_key", blk, ol))
        if "reset" in which:
            ol = leaf if not dyn else "arg1.outlen"
            ctx.guard("reset-complete", T + "::reset", lambda: check_blake2_plain_reset(ctx, P, T + "::reset", ol))


# ---------------------------------------------------------------------------------------------- keyed init by shape evaluation
def check_blake2_keyed_shapes(ctx, P, which=("new_keyed", "reset_with_key"), rule="shape-eval"):
    """BLAKE2 keyed (re)initialisation for EVERY key length 0..max, key bytes symbolic, the engine constructor / reset kept
    as a recorded opaque call: the engine is (re)built from (outlen, key.len()), the block buffer is key || zeros (all of
    it, whatever it held before), buflen is one block iff the key is non-empty.  Independent of how the code spells it
    (helpers, branches); a pass records the pattern rules' reports as not decided elsewhere."""
    import re as _re
    from .. import simd
    from .arx import Box
    done = 0
    for T, blk, leaf in BLAKE2_CTX:
        dyn = leaf is None
        mk = 64 if blk == 128 else 32
        adt = P.adts.get(T.replace("::<BITS>", ""))
        if adt is None:
            ctx.lost(rule, T, "context type not found")
            continue
        fields = [f["name"] for f in adt["variants"][0]["fields"]]
        fi = {n: i for i, n in enumerate(fields)}
        for kind in which:
            fn = P.fn_opt("%s::%s" % (T, kind))
            inst = "%s::%s" % (T, kind)
            if fn is None:
                ctx.lost(rule, inst, "function not found")
                continue
            bad = []
            n = 0
            for bits in ((8, 256, mk * 8) if not dyn else (1, 32, mk)):
                outlen = (bits + 7) // 8 if not dyn else bits
                for kl in range(mk + 1):
                    B = simd.TermBank()
                    key = [B.inp("k[%d]" % i, 8) for i in range(kl)]
                    M = simd.Machine(P, B, 64, {}, maxsteps=400000)
                    if not dyn:
                        M.generics = {"BITS": bits}
                    ev = []

                    def h_new(m_, f_, c_, a_, ev=ev):
                        ev.append(("new", a_[0], a_[1]))
                        return {"_engine": len(ev)}

                    def h_reset(m_, f_, c_, a_, ev=ev):
                        ev.append(("reset", a_[1], a_[2]))
                        tgt = a_[0]
                        while isinstance(tgt, tuple) and tgt and tgt[0] == "lref":
                            tgt = tgt[1][tgt[2]]
                        if isinstance(tgt, dict) and "_engine" in tgt:
                            tgt["_engine"] = 1 if tgt["_engine"] == 0 else -1
                        return None
                    M.hooks = [(_re.compile(r"hashing::blake2::Engine[BS]::new$"), h_new), (_re.compile(r"hashing::blake2::Engine[BS]::reset$"), h_reset)]
                    kref = ("aslice", {i: key[i] for i in range(kl)}, 0, kl)
                    try:
                        if kind == "new_keyed":
                            st = M.call_fn(fn, ([outlen] if dyn else []) + [kref])
                        else:
                            st0 = {fi["eng"]: {"_engine": 0}, fi["buf"]: {i: B.inp("stale[%d]" % i, 8) for i in range(blk)}, fi["buflen"]: 77 % (blk + 1)}
                            if dyn:
                                st0[fi["outlen"]] = outlen
                            box = Box(st0)
                            M.call_fn(fn, [box.ref(), kref])
                            st = box.v
                    except (simd.Unsupported, KeyError, IndexError, TypeError, AttributeError, ValueError) as e:
                        bad.append((bits, kl, "not evaluable: %s: %s" % (type(e).__name__, str(e)[:100])))
                        break
                    n += 1
                    want_ev = [("new" if kind == "new_keyed" else "reset", outlen, kl)]
                    buf = st[fi["buf"]]
                    gb = [M.scalar_bits(buf[i], 8) for i in range(blk)]
                    wb = key + [B.const(0, 8)] * (blk - kl)
                    what = None
                    if ev != want_ev:
                        what = "the engine is (re)initialised with %s, not (outlen %d, key length %d)" % ([e_[1:] for e_ in ev], outlen, kl)
                    elif not (isinstance(st[fi["eng"]], dict) and st[fi["eng"]].get("_engine") == 1):
                        what = "the context does not keep the engine it (re)initialised"
                    elif gb != wb:
                        k_ = [i for i in range(blk) if gb[i] != wb[i]][0]
                        what = "buffer byte %d is not %s" % (k_, "key[%d]" % k_ if k_ < kl else "zero (stale or misplaced bytes in the padded key block)")
                    elif st[fi["buflen"]] != (blk if kl else 0):
                        what = "buflen = %s for a key of %d bytes" % (st[fi["buflen"]], kl)
                    elif dyn and st[fi["outlen"]] != outlen:
                        what = "outlen not kept"
                    if what:
                        bad.append((bits, kl, what))
                        if len(bad) > 2:
                            break
                if len(bad) > 2:
                    break
            ok = not bad and n == 3 * (mk + 1)
            ctx.check(ok, rule, inst, "%d (output size, key length 0..%d) shapes: engine from (outlen, key.len()), buffer = key || zeros, buflen = one block iff keyed" % (n, mk),
                      "%s does not set up the keyed state: (bits, key length, what) %s" % (inst, bad[:3]), where=fn.where(), key="%s:%s" % (rule, inst))
            if ok:
                done += 1
                ctx.subsume("keyed-init:%s" % inst, "%s is decided for every key length by shape evaluation (shape-eval)" % inst)
    return done


def check_legacy_blake2_keys_shapes(ctx, P, rule="shape-eval"):
    """legacy blake2b::Blake2b / blake2s::Blake2s objects: new_keyed / reset_with_key for EVERY key length, the wrapped
    ContextDyn constructor / reset kept as recorded opaque calls: the wrapper keys its context with exactly (outlen, key),
    retains key || zeros and key.len() for later trait resets, and clears the computed flag"""
    import re as _re
    from .. import simd
    from .arx import Box
    done = 0
    for T, mk, inner in (("blake2b::Blake2b", 64, "hashing::blake2b::ContextDyn"), ("blake2s::Blake2s", 32, "hashing::blake2s::ContextDyn")):
        adt = P.adts.get(T)
        if adt is None:
            ctx.lost(rule, T, "type not found")
            continue
        fields = [f["name"] for f in adt["variants"][0]["fields"]]
        fi = {n: i for i, n in enumerate(fields)}
        if any(k not in fi for k in ("ctx", "computed", "key", "keylen")):
            ctx.lost(rule, T, "fields changed: %s" % fields)
            continue
        for kind in ("new", "new_keyed", "reset_with_key"):
            fn = P.fn_opt("%s::%s" % (T, kind))
            inst = "%s::%s" % (T, kind)
            if fn is None:
                ctx.lost(rule, inst, "function not found")
                continue
            bad = []
            n = 0
            for kl in (range(mk + 1) if kind != "new" else (0,)):
                B = simd.TermBank()
                key = [B.inp("k[%d]" % i, 8) for i in range(kl)]
                M = simd.Machine(P, B, 64, {}, maxsteps=400000)
                ev = []

                def h_new(m_, f_, c_, a_, ev=ev):
                    cont, base, k_ = m_.seq(a_[1])
                    ev.append(("new_keyed", a_[0], tuple(m_.scalar_bits(cont[base + i], 8) for i in range(k_))))
                    return {"_ctx": 1}

                def h_rk(m_, f_, c_, a_, ev=ev):
                    cont, base, k_ = m_.seq(a_[1])
                    ev.append(("reset_with_key", tuple(m_.scalar_bits(cont[base + i], 8) for i in range(k_))))
                    tgt = a_[0]
                    while isinstance(tgt, tuple) and tgt and tgt[0] == "lref":
                        tgt = tgt[1][tgt[2]]
                    if isinstance(tgt, dict) and "_ctx" in tgt:
                        tgt["_ctx"] = 1 if tgt["_ctx"] == 0 else -1
                    return None
                def h_new0(m_, f_, c_, a_, ev=ev):
                    ev.append(("new", a_[0]))
                    return {"_ctx": 1}
                M.hooks = [(_re.compile(_re.escape(inner) + r"::new_keyed$"), h_new), (_re.compile(_re.escape(inner) + r"::reset_with_key$"), h_rk), (_re.compile(_re.escape(inner) + r"::new$"), h_new0)]
                kref = ("aslice", {i: key[i] for i in range(kl)}, 0, kl)
                try:
                    if kind == "new":
                        st = M.call_fn(fn, [mk // 2])
                    elif kind == "new_keyed":
                        st = M.call_fn(fn, [mk // 2, kref])
                    else:
                        box = Box({fi["ctx"]: {"_ctx": 0}, fi["computed"]: True, fi["key"]: {i: B.inp("old[%d]" % i, 8) for i in range(mk)}, fi["keylen"]: 7})
                        M.call_fn(fn, [box.ref(), kref])
                        st = box.v
                except (simd.Unsupported, KeyError, IndexError, TypeError, AttributeError, ValueError) as e:
                    bad.append((kl, "not evaluable: %s: %s" % (type(e).__name__, str(e)[:100])))
                    break
                n += 1
                gk = [M.scalar_bits(st[fi["key"]][i], 8) for i in range(mk)]
                wk = key + [B.const(0, 8)] * (mk - kl)
                want_ev = [("new", mk // 2)] if kind == "new" else [("new_keyed", mk // 2, tuple(key))] if kind == "new_keyed" else [("reset_with_key", tuple(key))]
                what = None
                if ev != want_ev:
                    what = "the wrapped context is not keyed with exactly the key given (%d calls)" % len(ev)
                elif not (isinstance(st[fi["ctx"]], dict) and st[fi["ctx"]].get("_ctx") == 1):
                    what = "the keyed context is not the one the object keeps"
                elif gk != wk:
                    what = "the retained key is not key || zeros"
                elif st[fi["keylen"]] != kl:
                    what = "keylen = %s" % (st[fi["keylen"]],)
                elif st[fi["computed"]] not in (False, 0):
                    what = "the computed flag is not cleared"
                if what:
                    bad.append((kl, what))
                    if len(bad) > 2:
                        break
            ok = not bad and n == (mk + 1 if kind != "new" else 1)
            ctx.check(ok, rule, inst, "key lengths 0..%d: context keyed with (outlen, key), key || zeros and its length retained, computed cleared" % mk,
                      "%s does not key its context and retain the key: (key length, what) %s" % (inst, bad[:3]), where=fn.where(), key="%s:%s" % (rule, inst))
            if ok:
                done += 1
                ctx.subsume("rekey:%s:retains-key" % inst, "%s is decided for every key length by shape evaluation (shape-eval)" % inst)
                ctx.subsume("ctor:%s" % inst, "%s is decided by shape evaluation (shape-eval)" % inst)
    return done
