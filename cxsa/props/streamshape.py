"""Bounded shape evaluation of the stream ciphers' process_mut (ChaCha, XChaCha, ChaChaOriginal, Salsa, XSalsa): concrete
offsets and lengths, symbolic keystream and data bytes, `update` kept as a recorded opaque call whose contract (decided
separately by update-order / block-eq) is "self.output := next keystream block, self.offset := 0".

With KS = output[offset..64] ++ u1 ++ u2 ++ ... (u_j the block produced by the j-th update) every run must
  * turn data[i] into data[i] XOR KS[i] for every i < len (in place, each byte once, no byte skipped or reused);
  * leave the engine positioned at KS[len]: the unread part output[offset'..64] followed by the blocks of future updates
    is exactly KS[len..] (so lazily and eagerly refilling implementations are both accepted, a dropped or duplicated
    keystream byte is not).
Decided for EVERY offset 0..64 and every length 0..130 (two refills); the cipher's behaviour is periodic in the block."""
import re
from .. import simd
from .arx import Box


def lengths_for(off, thorough, maxlen):
    if thorough:
        return list(range(maxlen))
    room = 64 - off
    s = {0, 1, 2, room - 1, room, room + 1, room + 63, room + 64, room + 65, maxlen - 1}
    return sorted(x for x in s if 0 <= x < maxlen)


def _run_type(job):
    cfg, T, thorough, maxlen = job
    from .sha2eq import _prog
    P = _prog(cfg)
    fn = P.fn("%s::<ROUNDS>::process_mut" % T)
    adt = P.adts.get(T)
    if adt is None:
        return T, "lost", "cipher type %s is gone" % T, 0, fn.where(), []
    fields = [f["name"] for f in adt["variants"][0]["fields"]]
    fi = {n: i for i, n in enumerate(fields)}
    if any(n not in fi for n in ("state", "output", "offset")) or len(fields) != 3:
        return T, "lost", "fields of %s changed: %s" % (T, fields), 0, fn.where(), []
    bad = []
    n = 0
    want_n = 0
    from .. import shapeconst
    extra, big = shapeconst.around(shapeconst.usize_consts(P, fn), hi=600)
    for off in range(65):
        lens = sorted(set(lengths_for(off, thorough, maxlen)) | extra | {(64 - off) + x for x in extra if (64 - off) + x <= 600})
        want_n += len(lens)
        for ln in lens:
            B = simd.TermBank()
            out0 = [B.inp("o[%d]" % i, 8) for i in range(64)]
            data = [B.inp("d[%d]" % i, 8) for i in range(ln)]
            st = {fi["state"]: ("opaque-engine",), fi["output"]: {i: out0[i] for i in range(64)}, fi["offset"]: off}
            box = Box(st)
            M = simd.Machine(P, B, 64, {}, maxsteps=400000)
            M.generics = {"ROUNDS": 20}
            ups = []

            def on_update(m_, f_, c_, a_, ups=ups, B=B, fi=fi):
                ups.append(1)
                j = len(ups)
                env = a_[0][1][a_[0][2]]
                env[fi["output"]] = {i: B.inp("u%d[%d]" % (j, i), 8) for i in range(64)}
                env[fi["offset"]] = 0
                return None
            M.hooks = [(re.compile(re.escape(T) + r"::<ROUNDS>::update$"), on_update)]
            dcont = {i: data[i] for i in range(ln)}
            try:
                M.call_fn(fn, [box.ref(), ("aslice", dcont, 0, ln)])
            except (simd.Unsupported, KeyError, IndexError, TypeError, AttributeError, ValueError) as e:
                bad.append((off, ln, "not evaluable: %s: %s" % (type(e).__name__, str(e)[:100])))
                break
            n += 1
            nup = len(ups)
            ks = out0[off:] + [B.inp("u%d[%d]" % (j, i), 8) for j in range(1, nup + 3) for i in range(64)]
            foff = box.v[fi["offset"]]
            what = None
            if not isinstance(foff, int) or isinstance(foff, bool) or not 0 <= foff <= 64:
                what = "offset left at %r" % (foff,)
            elif any(M.scalar_bits(dcont[i], 8) != B.xor(data[i], ks[i]) for i in range(ln)):
                k = [i for i in range(ln) if M.scalar_bits(dcont[i], 8) != B.xor(data[i], ks[i])][0]
                what = "data[%d] is not data[%d] ^ keystream[%d]" % (k, k, k)
            else:
                fo = box.v[fi["output"]]
                rem = [M.scalar_bits(fo[i], 8) for i in range(foff, 64)]
                have = (64 - off) + 64 * nup
                if have - ln != len(rem) or rem != ks[ln: ln + len(rem)]:
                    what = "after %d bytes the engine is not positioned at keystream[%d] (updates %d, offset %d)" % (ln, ln, nup, foff)
            if what:
                bad.append((off, ln, what))
                if len(bad) > 3:
                    break
        if len(bad) > 3:
            break
    return T, ("ok" if not bad and n == want_n else "bad"), bad[:3], n, fn.where(), big


def check_process_mut(ctx, P, types, rule="shape-eval", maxlen=131, thorough=False, cfg="K0"):
    import concurrent.futures
    import os
    jobs = [(cfg, T, thorough, maxlen) for T in types]
    with concurrent.futures.ProcessPoolExecutor(max_workers=min(len(jobs), int(os.environ.get("CX_JOBS", "6")))) as ex:
        results = list(ex.map(_run_type, jobs))
    done = 0
    for T, status, x, n, where, big in results:
        if status == "lost":
            ctx.lost(rule, T + "::process_mut", x)
            continue
        okall = status == "ok"
        ctx.check(okall, rule, T + "::process_mut", "%d (offset, length) shapes (every offset 0..64; %s): data[i] ^= KS[i] for every i and the engine is left positioned at KS[len]" % (n, "every length below %d" % maxlen if thorough else "the lengths around zero, one and two refills"),
                  "%s::process_mut does not XOR the consecutive keystream bytes into the data and stay positioned: (offset, length, what) %s" % (T, x), where=where, key="%s:%s::process_mut" % (rule, T))
        if okall:
            done += 1
        if okall and not big:
            for pre in ("lockstep:%s" % T, "refill-pred:%s" % T, "sibling:%s::process_mut" % T):
                ctx.subsume(pre, "%s::process_mut is decided for every offset and the lengths around zero, one and two refills by bounded shape evaluation (shape-eval)" % T)
    return done
