"""C17 — the 32-bit and 64-bit curve backends are observationally equivalent.

Decided:
  build      the crate type-checks with `--features force-32bits` under its own lint levels (stable
             toolchain), as it does by default
  tables     all 792 precomputed field elements, D, 2D, sqrt(-1), 0, 1 denote the SAME field elements in
             both backends (each equals the definition-derived oracle); L agrees
  limbpoly   in BOTH backends add, sub, neg, mul, square, square_and_double, mul_small, square_repeatdly
             are the same polynomial functions modulo 2^255-19 (each equals the specification polynomial)
  exponent   invert / pow25523 chains give p-2 and (p-5)/8 in both
  canonical  canonical-scalar acceptance is exactly S < L in both (64-bit borrow chain; 32-bit byte-wise
             comparison over all 32 bytes against little-endian L, accepting polarity); Fe equality,
             is_negative and is_nonzero go through the canonical encoding in both
  shared     the ladder (clamp, step polynomials, swaps), the group law and select wiring are the same
             source and satisfy the same rules when resolved against either backend
  fe-bounds  limb-bound invariants and overflow freedom of both backends; encode (canonical reduction identity, digits, packing)
             and decode (bit 255 ignored) in both; scalar32 reduce / muladd congruent modulo L with reduced digits (sc32);
             scalar32 order test decided on all inputs; Scalar::bits / Scalar::ZERO agree
  fe-use     32-bit backend: every call site of a field operation anywhere in the crate hands it operands built from at most
             three TIGHT values without a carry (the contract fe-bounds proves); nobody outside fe32 touches Fe limbs
Not decided: scalar64 Barrett arithmetic as numbers; that the canonical reduction's quotient is floor(H / p)."""
from .. import facts as F
from . import C12, C14, C15

EXPLANATION = __doc__
TECHNIQUE = "interval abstract interpretation over ssa terms with exact carry/remainder relations and trace partitioning on carries (inductive limb-bound invariants, overflow-assert discharge); R-BUILD (rustc type check with the crate's lint levels), both backends checked against one specification: table oracle, limb-polynomial identities, exponent chains, canonical-predicate rules; level (type-state) dataflow over every fe32 operation call site of the crate against the proved 3xTIGHT operand contract, who-may-access rule for Fe limbs"


def run(ctx):
    ok, log = F.build_check(features=["force-32bits"])
    ctx.check(ok, "R-BUILD", "force-32bits", "cargo check --features force-32bits succeeds with the crate's own lint levels", "the crate does not compile with --features force-32bits: %s" % log[-700:], where="Cargo.toml", key="build:force32")
    ok2, log2 = F.build_check()
    ctx.check(ok2, "R-BUILD", "default", "cargo check (default features) succeeds", "the crate does not compile with default features: %s" % log2[-700:], where="Cargo.toml", key="build:default")
    if not ok:
        return
    P = ctx.prog("K0")
    P2 = ctx.prog("K2")
    ctx.guard("table", "fe64", lambda: C15.check_tables(ctx, P, "fe64"))
    ctx.guard("table", "fe32", lambda: C15.check_tables(ctx, P2, "fe32"))
    ctx.guard("limbpoly", "fe64", lambda: C15.check_field_ops(ctx, P, "fe64", "K0"))
    ctx.guard("limbpoly", "fe32", lambda: C15.check_field_ops(ctx, P2, "fe32", "K2"))
    from . import febounds
    ctx.guard("fe-bounds", "fe64", lambda: febounds.check_fe64(ctx, P, "K0"))
    ctx.guard("fe-bounds", "fe32", lambda: febounds.check_fe32(ctx, P2, "K2"))
    from . import sc32
    ctx.guard("decode", "fe64::from_bytes", lambda: C12.check_from_bytes64(ctx, P))
    ctx.guard("decode32", "fe32::from_bytes", lambda: sc32.check_decode32(ctx, P2))
    ctx.guard("table", "Scalar::ZERO/64", lambda: sc32.check_scalar_consts(ctx, P, "scalar64"))
    ctx.guard("table", "Scalar::ZERO/32", lambda: sc32.check_scalar_consts(ctx, P2, "scalar32"))
    ctx.guard("sc", "scalar32::reduce", lambda: sc32.check_scalar32(ctx, P2, "reduce"))
    ctx.guard("sc", "scalar32::muladd", lambda: sc32.check_scalar32(ctx, P2, "muladd"))
    ctx.guard("exponent", "fe64", lambda: C12.check_exponents(ctx, P, "K0", "fe64"))
    ctx.guard("exponent", "fe32", lambda: C12.check_exponents(ctx, P2, "K2", "fe32"))
    ctx.guard("canonical", "fe64", lambda: C15.check_canonical(ctx, P, "fe64"))
    ctx.guard("canonical", "fe32", lambda: C15.check_canonical(ctx, P2, "fe32"))
    ctx.guard("canonical", "scalar64", lambda: C15.check_scalar64(ctx, P))
    ctx.guard("canonical", "scalar32", lambda: C14.check_s32(ctx, P2))
    ctx.guard("canonical", "scalar32-order", lambda: C14.check_s32_order(ctx, P2))
    ctx.guard("bits-all", "scalar64", lambda: C14.check_bits_all(ctx, P, "scalar64"))
    ctx.guard("bits-all", "scalar32", lambda: C14.check_bits_all(ctx, P2, "scalar32"))
    for tag, prog in (("K0", P), ("K2", P2)):
        ctx.guard("ladder", "curve25519/" + tag, lambda: C12.ladder(ctx, prog, "curve25519::curve25519", False))
        ctx.guard("ladder", "curve25519_base/" + tag, lambda: C12.ladder(ctx, prog, "curve25519::curve25519_base", True))
        ctx.guard("grouplaw", "ge/" + tag, lambda: C15.check_group_law(ctx, prog))
        ctx.guard("select", "ge/" + tag, lambda: C15.check_select(ctx, prog, "fe64" if tag == "K0" else "fe32"))
        ctx.guard("verify", "ed25519::verify/" + tag, lambda: C14.check_verify(ctx, prog))
    ctx.trusted += ["definition-derived oracle cxsa/spec/curve.py", "ssa evaluator, limb-polynomial normal form"]
    ctx.not_decided += ["fe32 to_bytes as a bit map (carry-based); scalar64 Barrett arithmetic as numbers"]
