"""Rule `compress-eq`: value-graph equality of the SHA-256 block functions with FIPS 180-4, for every chaining value and
every message block at once (cxsa/simd.py evaluator, cxsa/vgraph.py normal forms).

  reference   impl256::reference::digest_block over 1 and 2 blocks        == compress iterated            (default build)
  sse4.1      impl256::sse41::digest_block over 4 blocks (one 4-way batch) and 5 blocks (batch + scalar tail)  (K3 / K4)
  avx         impl256::avx::digest_block over 8 blocks, and 8 + 4 + 1 blocks (8-way, then the 4-way path, then the tail) (K4)

The specification side is built from the definition: W_t = sigma1(W_{t-2}) + W_{t-7} + sigma0(W_{t-15}) + W_{t-16} over
big-endian message words, 64 rounds of  T1 = h + Sigma1(e) + Ch(e,f,g) + K_t + W_t,  T2 = Sigma0(a) + Maj(a,b,c),  with the
round constants derived from the cube roots of the primes (cxsa/spec/hashes.py).  Sums are compared modulo associativity
and commutativity, Ch / Maj as canonical truth tables, the sigma functions as canonical parities of routed bits; the
lane-parallel schedules of the SIMD code (gather, byte swap, shifted-xor rotations, K pre-added) normalise to the same graph.
Nothing is executed on data."""
from .. import simd
from ..spec import hashes
from .arx import Box


def spec_compress256(B, h, mbytes, K):
    """h: 8 lanes of 32 bits; mbytes: 64 byte lanes; returns 8 lanes"""
    w = [simd.cat(mbytes[4 * i: 4 * i + 4][::-1]) for i in range(16)]

    def s0(x):
        return B.xor(B.xor(B.rotr(x, 7), B.rotr(x, 18)), B.shr(x, 3))

    def s1(x):
        return B.xor(B.xor(B.rotr(x, 17), B.rotr(x, 19)), B.shr(x, 10))

    def S0(x):
        return B.xor(B.xor(B.rotr(x, 2), B.rotr(x, 13)), B.rotr(x, 22))

    def S1(x):
        return B.xor(B.xor(B.rotr(x, 6), B.rotr(x, 11)), B.rotr(x, 25))
    for t in range(16, 64):
        w.append(B.add(B.add(s1(w[t - 2]), w[t - 7]), B.add(s0(w[t - 15]), w[t - 16])))
    a, b, c, d, e, f, g, hh = h
    for t in range(64):
        ch = B.xor(B.and_(e, f), B.andnot(e, g))
        maj = B.xor(B.xor(B.and_(a, b), B.and_(a, c)), B.and_(b, c))
        t1 = B.add(B.add(B.add(hh, S1(e)), B.add(ch, B.const(K[t], 32))), w[t])
        t2 = B.add(S0(a), maj)
        hh, g, f, e, d, c, b, a = g, f, e, B.add(d, t1), c, b, a, B.add(t1, t2)
    return [B.add(x, y) for x, y in zip(h, [a, b, c, d, e, f, g, hh])]


def spec_compress512(B, h, mbytes, K):
    w = [simd.cat(mbytes[8 * i: 8 * i + 8][::-1]) for i in range(16)]

    def s0(x):
        return B.xor(B.xor(B.rotr(x, 1), B.rotr(x, 8)), B.shr(x, 7))

    def s1(x):
        return B.xor(B.xor(B.rotr(x, 19), B.rotr(x, 61)), B.shr(x, 6))

    def S0(x):
        return B.xor(B.xor(B.rotr(x, 28), B.rotr(x, 34)), B.rotr(x, 39))

    def S1(x):
        return B.xor(B.xor(B.rotr(x, 14), B.rotr(x, 18)), B.rotr(x, 41))
    for t in range(16, 80):
        w.append(B.add(B.add(s1(w[t - 2]), w[t - 7]), B.add(s0(w[t - 15]), w[t - 16])))
    a, b, c, d, e, f, g, hh = h
    for t in range(80):
        ch = B.xor(B.and_(e, f), B.andnot(e, g))
        maj = B.xor(B.xor(B.and_(a, b), B.and_(a, c)), B.and_(b, c))
        t1 = B.add(B.add(B.add(hh, S1(e)), B.add(ch, B.const(K[t], 64))), w[t])
        t2 = B.add(S0(a), maj)
        hh, g, f, e, d, c, b, a = g, f, e, B.add(d, t1), c, b, a, B.add(t1, t2)
    return [B.add(x, y) for x, y in zip(h, [a, b, c, d, e, f, g, hh])]


def spec_sha1(B, h, mbytes):
    w = [simd.cat(mbytes[4 * i: 4 * i + 4][::-1]) for i in range(16)]
    for t in range(16, 80):
        w.append(B.rotl(B.xor(B.xor(w[t - 3], w[t - 8]), B.xor(w[t - 14], w[t - 16])), 1))
    a, b, c, d, e = h
    Kc = hashes.SHA1_K
    for t in range(80):
        if t < 20:
            f = B.xor(B.and_(b, c), B.andnot(b, d))
        elif t < 40 or t >= 60:
            f = B.xor(B.xor(b, c), d)
        else:
            f = B.xor(B.xor(B.and_(b, c), B.and_(b, d)), B.and_(c, d))
        tmp = B.add(B.add(B.add(B.rotl(a, 5), f), B.add(e, B.const(Kc[t // 20], 32))), w[t])
        e, d, c, b, a = d, c, B.rotl(b, 30), a, tmp
    return [B.add(x, y) for x, y in zip(h, [a, b, c, d, e])]


RMD_R = [list(range(16)), [7, 4, 13, 1, 10, 6, 15, 3, 12, 0, 9, 5, 2, 14, 11, 8], [3, 10, 14, 4, 9, 15, 8, 1, 2, 7, 0, 6, 13, 11, 5, 12], [1, 9, 11, 10, 0, 8, 12, 4, 13, 3, 7, 15, 14, 5, 6, 2], [4, 0, 5, 9, 7, 12, 2, 10, 14, 1, 3, 8, 11, 6, 15, 13]]
RMD_RP = [[5, 14, 7, 0, 9, 2, 11, 4, 13, 6, 15, 8, 1, 10, 3, 12], [6, 11, 3, 7, 0, 13, 5, 10, 14, 15, 8, 12, 4, 9, 1, 2], [15, 5, 1, 3, 7, 14, 6, 9, 11, 8, 12, 2, 10, 0, 4, 13], [8, 6, 4, 1, 3, 11, 15, 0, 5, 12, 2, 13, 9, 7, 10, 14], [12, 15, 10, 4, 1, 5, 8, 7, 6, 2, 13, 14, 0, 3, 9, 11]]
RMD_S = [[11, 14, 15, 12, 5, 8, 7, 9, 11, 13, 14, 15, 6, 7, 9, 8], [7, 6, 8, 13, 11, 9, 7, 15, 7, 12, 15, 9, 11, 7, 13, 12], [11, 13, 6, 7, 14, 9, 13, 15, 14, 8, 13, 6, 5, 12, 7, 5], [11, 12, 14, 15, 14, 15, 9, 8, 9, 14, 5, 6, 8, 6, 5, 12], [9, 15, 5, 11, 6, 8, 13, 12, 5, 12, 13, 14, 11, 8, 5, 6]]
RMD_SP = [[8, 9, 9, 11, 13, 15, 15, 5, 7, 7, 8, 11, 14, 14, 12, 6], [9, 13, 15, 7, 12, 8, 9, 11, 7, 7, 12, 7, 6, 15, 13, 11], [9, 7, 15, 11, 8, 6, 6, 14, 12, 13, 5, 14, 13, 13, 7, 5], [15, 5, 8, 11, 14, 14, 6, 14, 6, 9, 12, 9, 12, 5, 15, 8], [8, 5, 12, 9, 12, 5, 14, 6, 8, 13, 6, 5, 15, 13, 11, 11]]


def spec_ripemd160(B, h, mbytes):
    x = [simd.cat(mbytes[4 * i: 4 * i + 4]) for i in range(16)]

    def f(j, a, b, c):
        if j == 0:
            return B.xor(B.xor(a, b), c)
        if j == 1:
            return B.xor(B.and_(a, b), B.andnot(a, c))
        if j == 2:
            return B.xor(B.or_(a, B.not_(b)), c)
        if j == 3:
            return B.xor(B.and_(a, c), B.andnot(c, b))
        return B.xor(a, B.or_(b, B.not_(c)))
    al, bl, cl, dl, el = h
    ar, br, cr, dr, er = h
    for j in range(80):
        r = j // 16
        t = B.add(B.rotl(B.add(B.add(al, f(r, bl, cl, dl)), B.add(x[RMD_R[r][j % 16]], B.const(hashes.RMD_KL[r], 32))), RMD_S[r][j % 16]), el)
        al, el, dl, cl, bl = el, dl, B.rotl(cl, 10), bl, t
        t = B.add(B.rotl(B.add(B.add(ar, f(4 - r, br, cr, dr)), B.add(x[RMD_RP[r][j % 16]], B.const(hashes.RMD_KR[r], 32))), RMD_SP[r][j % 16]), er)
        ar, er, dr, cr, br = er, dr, B.rotl(cr, 10), br, t
    t = B.add(B.add(h[1], cl), dr)
    return [t, B.add(B.add(h[2], dl), er), B.add(B.add(h[3], el), ar), B.add(B.add(h[4], al), br), B.add(B.add(h[0], bl), cr)]


def spec_keccak_f(B, lanes):
    """FIPS 202 Keccak-f[1600] on 25 lanes (index x + 5y): theta, rho, pi, chi, iota for 24 rounds"""
    A = list(lanes)
    rc = hashes.KECCAK_RC
    for rnd in range(24):
        C = [B.xor(B.xor(B.xor(A[x], A[x + 5]), B.xor(A[x + 10], A[x + 15])), A[x + 20]) for x in range(5)]
        D = [B.xor(C[(x + 4) % 5], B.rotl(C[(x + 1) % 5], 1)) for x in range(5)]
        A = [B.xor(A[i], D[i % 5]) for i in range(25)]
        # rho and pi:  B[y][2x+3y] = rot(A[x][y], r[x][y])
        Bn = [None] * 25
        Bn[0] = A[0]
        x, y = 1, 0
        for t in range(24):
            r = ((t + 1) * (t + 2) // 2) % 64
            nx, ny = y, (2 * x + 3 * y) % 5
            Bn[nx + 5 * ny] = B.rotl(A[x + 5 * y], r)
            x, y = nx, ny
        A = [B.xor(Bn[x + 5 * y], B.andnot(Bn[(x + 1) % 5 + 5 * y], Bn[(x + 2) % 5 + 5 * y])) for y in range(5) for x in range(5)]
        A[0] = B.xor(A[0], B.const(rc[rnd], 64))
    return A


def _one_keccak(job):
    cfg, path = job
    try:
        P = _prog(cfg)
    except Exception as e:
        return (path, "noprog", str(e)[:200], 0, None)
    fn = P.fn_opt(path)
    if fn is None:
        return (path, "lost", None, 0, None)
    B = simd.TermBank()
    by = [B.inp("s[%d]" % i, 8) for i in range(200)]
    st = Box({i: by[i] for i in range(200)})
    M = simd.Machine(P, B, 64, {}, maxsteps=8000000)
    try:
        M.call_fn(fn, [st.ref()])
        out = [M.scalar_bits(st.v[i], 8) for i in range(200)]
    except (simd.Unsupported, KeyError, IndexError, TypeError, AttributeError, ValueError) as e:
        return (path, "eval", "%s: %s" % (type(e).__name__, str(e)[:200]), 0, fn.where())
    lanes = [simd.cat(by[8 * i: 8 * i + 8]) for i in range(25)]
    spec = spec_keccak_f(B, lanes)
    sb = []
    for l in spec:
        sb += simd.lanes(l, 8)
    bad = sorted({i // 8 for i in range(200) if out[i] != sb[i]})
    return (path, "done", bad, len(B.defs), fn.where())


def check_keccak(ctx, progs, rule="compress-eq"):
    path = "hashing::sha3::keccak_f"
    if "K0" not in progs:
        return 0
    import concurrent.futures
    with concurrent.futures.ProcessPoolExecutor(max_workers=1) as ex:
        res = list(ex.map(_one_keccak, [("K0", path)]))[0]
    path, status, x, nnodes, where = res
    key = "%s:%s" % (rule, path)
    if status == "lost":
        ctx.lost(rule, path, "function not present")
        return 0
    if status in ("noprog", "eval"):
        ctx.fail(rule, path, "%s could not be evaluated to a value graph (%s)" % (path, x), where=where, key=key + ":eval")
        return 0
    ctx.check(not x, rule, path, "keccak_f == FIPS 202 Keccak-f[1600] (24 rounds of theta, rho, pi, chi, iota) on all 25 lanes as value graphs (%d graph nodes)" % nnodes,
              "%s is not Keccak-f[1600]: lanes %s differ from the specification" % (path, x), where=where, key=key)
    return 1


OTHER = [
    # (configuration, function, word width, state words, block bytes, spec, argument order: state first?)
    ("K0", "hashing::sha2::impl512::reference::digest_block", 64, 8, 128, "sha512", True),
    ("K0", "hashing::sha1::digest_blocks", 32, 5, 64, "sha1", True),
    ("K0", "hashing::ripemd160::process_msg_blocks", 32, 5, 64, "ripemd160", False),
]


def _one_other(job):
    cfg, path, w, nst, bb, which, state_first, nb = job
    try:
        P = _prog(cfg)
    except Exception as e:
        return (path, nb, "noprog", str(e)[:200], None, 0, None)
    fn = P.fn_opt(path)
    if fn is None:
        return (path, nb, "lost", None, None, 0, None)
    B = simd.TermBank()
    h = [B.inp("h[%d]" % i, w) for i in range(nst)]
    by = [B.inp("m[%d]" % i, 8) for i in range(bb * nb)]
    st = Box({i: h[i] for i in range(nst)})
    cont = {i: by[i] for i in range(bb * nb)}
    M = simd.Machine(P, B, w, {}, maxsteps=8000000)
    msg = ("aslice", cont, 0, bb * nb)
    try:
        M.call_fn(fn, [st.ref(), msg] if state_first else [msg, st.ref()])
        out = [M.scalar_bits(st.v[i], w) for i in range(nst)]
    except (simd.Unsupported, KeyError, IndexError, TypeError, AttributeError, ValueError) as e:
        return (path, nb, "eval", "%s: %s" % (type(e).__name__, str(e)[:200]), None, 0, fn.where())
    spec = h
    for j in range(nb):
        blk = by[bb * j: bb * j + bb]
        if which == "sha512":
            spec = spec_compress512(B, spec, blk, hashes.K64)
        elif which == "sha1":
            spec = spec_sha1(B, spec, blk)
        else:
            spec = spec_ripemd160(B, spec, blk)
    bad = [i for i in range(nst) if out[i] != spec[i]]
    wrote = any(cont[i] is not by[i] for i in range(bb * nb))
    return (path, nb, "done", bad, wrote, len(B.defs), fn.where())


def check_other(ctx, progs, rule="compress-eq", blocks=(1, 2), only=None):
    """SHA-512, SHA-1 and RIPEMD-160 block functions of the default build against their specifications"""
    import concurrent.futures
    import os
    jobs = [(cfg, path, w, nst, bb, which, sf, nb) for (cfg, path, w, nst, bb, which, sf) in OTHER if cfg in progs and (only is None or which in only) for nb in blocks]
    if not jobs:
        return 0
    with concurrent.futures.ProcessPoolExecutor(max_workers=min(len(jobs), int(os.environ.get("CX_JOBS", "6")))) as ex:
        results = list(ex.map(_one_other, jobs))
    n = 0
    oks_ = {}
    for path, nb, status, x, wrote, nnodes, where in sorted(results, key=lambda r: (r[0], r[1])):
        inst = "%s:%d-blocks" % (path, nb)
        key = "%s:%s:%d" % (rule, path, nb)
        if status == "lost":
            ctx.lost(rule, path, "function not present")
        elif status == "noprog":
            ctx.fail(rule, inst, "configuration could not be analysed: %s" % x, key=key + ":noprog")
        elif status == "eval":
            ctx.fail(rule, inst, "%s could not be evaluated to a value graph for a run of %d blocks (%s): it panics, reads outside the run or uses a construct the evaluator does not model" % (path, nb, x), where=where, key=key + ":eval")
        else:
            n += 1
            okk_ = not x and not wrote
            oks_.setdefault(path, []).append(okk_)
            ctx.check(not x and not wrote, rule, inst, "state' == the specified compression function over %d consecutive blocks as value graphs (%d graph nodes)" % (nb, nnodes),
                      "%s does not compute its specified compression function over a run of %d blocks: state words %s differ%s" % (path, nb, x, "; the message buffer is modified" if wrote else ""), where=where, key=key)
    # the census of rotation amounts is a cross-check of the same function
    for path, oks in oks_.items():
        if len(oks) >= 2 and all(oks):
            tag = "sha512-reference" if "impl512" in path else "sha1" if "sha1" in path else "ripemd160" if "ripemd" in path else None
            if tag:
                ctx.subsume("rotations:%s" % tag, "%s equals its specified compression function as a value graph (compress-eq)" % path)
    return n


CASES = [
    # (configuration, function, block counts in the quick tier, additional block counts in the thorough tier)
    ("K0", "hashing::sha2::impl256::reference::digest_block", (1, 2), ()),
    ("K3", "hashing::sha2::impl256::sse41::digest_block", (4, 5), (9,)),
    ("K4", "hashing::sha2::impl256::sse41::digest_block", (4,), ()),
    ("K4", "hashing::sha2::impl256::avx::digest_block", (8, 9), (13,)),
]

_PROGS = {}


def _prog(cfg):
    from .. import facts, mir
    if cfg not in _PROGS:
        d, _ = facts.extract(cfg)
        _PROGS[cfg] = mir.Program(d, cfg)
    return _PROGS[cfg]


def _one(job):
    """worker: one (configuration, function, number of blocks) comparison; returns a plain tuple"""
    cfg, path, nb = job
    K = hashes.K32
    try:
        P = _prog(cfg)
    except Exception as e:                       # the configuration does not type-check: reported by R-BUILD
        return (cfg, path, nb, "noprog", str(e)[:200], None, 0, None)
    fn = P.fn_opt(path)
    if fn is None:
        return (cfg, path, nb, "lost", None, None, 0, None)
    B = simd.TermBank()
    h = [B.inp("h[%d]" % i, 32) for i in range(8)]
    by = [B.inp("m[%d]" % i, 8) for i in range(64 * nb)]
    st = Box({i: h[i] for i in range(8)})
    cont = {i: by[i] for i in range(64 * nb)}
    M = simd.Machine(P, B, 32, {}, maxsteps=8000000)
    try:
        M.call_fn(fn, [st.ref(), ("aslice", cont, 0, 64 * nb)])
        out = [M.scalar_bits(st.v[i], 32) for i in range(8)]
    except (simd.Unsupported, KeyError, IndexError, TypeError, AttributeError, ValueError) as e:
        return (cfg, path, nb, "eval", "%s: %s" % (type(e).__name__, str(e)[:200]), None, 0, fn.where())
    spec = h
    for j in range(nb):
        spec = spec_compress256(B, spec, by[64 * j: 64 * j + 64], K)
    bad = [i for i in range(8) if out[i] != spec[i]]
    wrote = any(cont[i] is not by[i] for i in range(64 * nb))
    return (cfg, path, nb, "done", bad, wrote, len(B.defs), fn.where())


def check_sha256(ctx, progs, rule="compress-eq", cases=None, thorough=False):
    """progs: the configurations the caller extracted (only their keys are used: each worker process loads its fact file
    from the cache); cases: optional set of (cfg, path) to restrict to"""
    import concurrent.futures
    import os
    jobs = []
    for cfg, path, quick, more in CASES:
        if cfg not in progs or (cases is not None and (cfg, path) not in cases):
            continue
        for nb in quick + (more if thorough else ()):
            jobs.append((cfg, path, nb))
    jobs.sort(key=lambda j: -j[2])
    n = 0
    if not jobs:
        return 0
    with concurrent.futures.ProcessPoolExecutor(max_workers=min(len(jobs), int(os.environ.get("CX_JOBS", "6")))) as ex:
        results = list(ex.map(_one, jobs))
    per_fn = {}
    for cfg, path, nb, status, x, wrote, nnodes, where in sorted(results):
        inst = "%s@%s:%d-blocks" % (path, cfg, nb)
        key = "%s:%s:%d" % (rule, path, nb)
        if status == "lost":
            ctx.lost(rule, "%s@%s" % (path, cfg), "function not present in configuration %s" % cfg)
        elif status == "noprog":
            ctx.fail(rule, inst, "configuration %s could not be analysed: %s" % (cfg, x), key=key + ":noprog")
        elif status == "eval":
            ctx.fail(rule, inst, "%s could not be evaluated to a value graph for a run of %d blocks (%s): it panics, reads outside the run or uses a construct the evaluator does not model" % (path, nb, x), where=where, key=key + ":eval")
        else:
            n += 1
            okk = not x and not wrote
            per_fn.setdefault((cfg, path), []).append(okk)
            ctx.check(okk, rule, inst, "state' == SHA-256 compression of %d consecutive blocks as value graphs (%d graph nodes); the message is not written" % (nb, nnodes),
                      "%s (%s) does not compute the SHA-256 compression function over a run of %d blocks: state words %s differ%s" % (path, cfg, nb, x, "; the message buffer is modified" if wrote else ""), where=where, key=key)
    for (cfg_, path_), oks in per_fn.items():
        if "reference" in path_ and len(oks) >= 2 and all(oks):
            ctx.subsume("rotations:sha256-reference", "%s equals the SHA-256 compression as a value graph (compress-eq)" % path_)
    return n
