"""Rule `compress-eq`: value-graph equality of the SHA-256 block functions with FIPS 180-4, for every chaining value and
every message block at once (cxsa/simd.py evaluator, cxsa/vgraph.py normal forms).

  reference   impl256::reference::digest_block over 1 and 2 blocks        == compress iterated            (default build)
  sse4.1      impl256::sse41::digest_block over 4 blocks (one 4-way batch) and 5 blocks (batch + scalar tail)  (K3 / K4)
  avx         impl256::avx::digest_block over 8 blocks, and 8 + 4 + 1 blocks (8-way, then the 4-way path, then the tail) (K4)

The specification side is built from the definition: W_t = sigma1(W_{t-2}) + W_{t-7} + sigma0(W_{t-15}) + W_{t-16} over
big-endian message words, 64 rounds of  T1 = h + Sigma1(e) + Ch(e,f,g) + K_t + W_t,  T2 = Sigma0(a) + Maj(a,b,c),  with the
round constants derived from the cube roots of the primes (cxsa/spec/hashes.py).  Sums are compared modulo associativity
and commutativity, Ch / Maj as canonical truth tables, the sigma functions as canonical parities of routed bits; the
lane-parallel schedules of the SIMD code (gather, byte swap, shifted-xor rotations, K pre-added) normalise to the same graph.
Nothing is executed on data."""
from .. import simd
from ..spec import hashes
from .arx import Box


def spec_compress256(B, h, mbytes, K):
    """h: 8 lanes of 32 bits; mbytes: 64 byte lanes; returns 8 lanes"""
    w = [simd.cat(mbytes[4 * i: 4 * i + 4][::-1]) for i in range(16)]

    def s0(x):
        return B.xor(B.xor(B.rotr(x, 7), B.rotr(x, 18)), B.shr(x, 3))

    def s1(x):
        return B.xor(B.xor(B.rotr(x, 17), B.rotr(x, 19)), B.shr(x, 10))

    def S0(x):
        return B.xor(B.xor(B.rotr(x, 2), B.rotr(x, 13)), B.rotr(x, 22))

    def S1(x):
        return B.xor(B.xor(B.rotr(x, 6), B.rotr(x, 11)), B.rotr(x, 25))
    for t in range(16, 64):
        w.append(B.add(B.add(s1(w[t - 2]), w[t - 7]), B.add(s0(w[t - 15]), w[t - 16])))
    a, b, c, d, e, f, g, hh = h
    for t in range(64):
        ch = B.xor(B.and_(e, f), B.andnot(e, g))
        maj = B.xor(B.xor(B.and_(a, b), B.and_(a, c)), B.and_(b, c))
        t1 = B.add(B.add(B.add(hh, S1(e)), B.add(ch, B.const(K[t], 32))), w[t])
        t2 = B.add(S0(a), maj)
        hh, g, f, e, d, c, b, a = g, f, e, B.add(d, t1), c, b, a, B.add(t1, t2)
    return [B.add(x, y) for x, y in zip(h, [a, b, c, d, e, f, g, hh])]


CASES = [
    # (configuration, function, block counts in the quick tier, additional block counts in the thorough tier)
    ("K0", "hashing::sha2::impl256::reference::digest_block", (1, 2), ()),
    ("K3", "hashing::sha2::impl256::sse41::digest_block", (4, 5), (9,)),
    ("K4", "hashing::sha2::impl256::sse41::digest_block", (4,), ()),
    ("K4", "hashing::sha2::impl256::avx::digest_block", (8,), (13,)),
]

_PROGS = {}


def _prog(cfg):
    from .. import facts, mir
    if cfg not in _PROGS:
        d, _ = facts.extract(cfg)
        _PROGS[cfg] = mir.Program(d, cfg)
    return _PROGS[cfg]


def _one(job):
    """worker: one (configuration, function, number of blocks) comparison; returns a plain tuple"""
    cfg, path, nb = job
    K = hashes.K32
    try:
        P = _prog(cfg)
    except Exception as e:                       # the configuration does not type-check: reported by R-BUILD
        return (cfg, path, nb, "noprog", str(e)[:200], None, 0, None)
    fn = P.fn_opt(path)
    if fn is None:
        return (cfg, path, nb, "lost", None, None, 0, None)
    B = simd.TermBank()
    h = [B.inp("h[%d]" % i, 32) for i in range(8)]
    by = [B.inp("m[%d]" % i, 8) for i in range(64 * nb)]
    st = Box({i: h[i] for i in range(8)})
    cont = {i: by[i] for i in range(64 * nb)}
    M = simd.Machine(P, B, 32, {}, maxsteps=8000000)
    try:
        M.call_fn(fn, [st.ref(), ("aslice", cont, 0, 64 * nb)])
        out = [M.scalar_bits(st.v[i], 32) for i in range(8)]
    except (simd.Unsupported, KeyError, IndexError, TypeError, AttributeError, ValueError) as e:
        return (cfg, path, nb, "eval", "%s: %s" % (type(e).__name__, str(e)[:200]), None, 0, fn.where())
    spec = h
    for j in range(nb):
        spec = spec_compress256(B, spec, by[64 * j: 64 * j + 64], K)
    bad = [i for i in range(8) if out[i] != spec[i]]
    wrote = any(cont[i] is not by[i] for i in range(64 * nb))
    return (cfg, path, nb, "done", bad, wrote, len(B.defs), fn.where())


def check_sha256(ctx, progs, rule="compress-eq", cases=None, thorough=False):
    """progs: the configurations the caller extracted (only their keys are used: each worker process loads its fact file
    from the cache); cases: optional set of (cfg, path) to restrict to"""
    import concurrent.futures
    import os
    jobs = []
    for cfg, path, quick, more in CASES:
        if cfg not in progs or (cases is not None and (cfg, path) not in cases):
            continue
        for nb in quick + (more if thorough else ()):
            jobs.append((cfg, path, nb))
    jobs.sort(key=lambda j: -j[2])
    n = 0
    if not jobs:
        return 0
    with concurrent.futures.ProcessPoolExecutor(max_workers=min(len(jobs), max(1, (os.cpu_count() or 2) - 1))) as ex:
        results = list(ex.map(_one, jobs))
    for cfg, path, nb, status, x, wrote, nnodes, where in sorted(results):
        inst = "%s@%s:%d-blocks" % (path, cfg, nb)
        key = "%s:%s:%d" % (rule, path, nb)
        if status == "lost":
            ctx.lost(rule, "%s@%s" % (path, cfg), "function not present in configuration %s" % cfg)
        elif status == "noprog":
            ctx.fail(rule, inst, "configuration %s could not be analysed: %s" % (cfg, x), key=key + ":noprog")
        elif status == "eval":
            ctx.fail(rule, inst, "%s could not be evaluated to a value graph for a run of %d blocks (%s): it panics, reads outside the run or uses a construct the evaluator does not model" % (path, nb, x), where=where, key=key + ":eval")
        else:
            n += 1
            ctx.check(not x and not wrote, rule, inst, "state' == SHA-256 compression of %d consecutive blocks as value graphs (%d graph nodes); the message is not written" % (nb, nnodes),
                      "%s (%s) does not compute the SHA-256 compression function over a run of %d blocks: state words %s differ%s" % (path, cfg, nb, x, "; the message buffer is modified" if wrote else ""), where=where, key=key)
    return n
