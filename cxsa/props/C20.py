"""C20 — valid inputs never panic or vary with build profile; misuse fails loudly.

Decided:
  wrapcheck   crate-wide (debug MIR): no value produced by an overflow-ASSERTED addition is afterwards tested
              for wrap-around against one of its own addends (such a test is dead in checked builds and the
              assert fires instead: checked and unchecked builds diverge exactly when the counter wraps)
  counters    every cross-call counter uses arithmetic matching the algorithm's input domain: BLAKE2 low
              counter words wrap (modular), cipher block counters wrap / carry (C03 rules), HKDF / PBKDF2
              counters are checked_add + panic (C10 rules), hash byte counters (u64 / u128) and AEAD length
              counters are overflow-checked adds whose type exceeds the algorithm's maximum input
  guards      argument validation, by const / length sweep of the constructor's control flow: cipher and AEAD
              key lengths accepted = {16, 32}; ROUNDS in {8,12,20}; BLAKE2b/s BITS in 1..=512 / 1..=256,
              dynamic output 1..=64 / 1..=32, key length <= 64 / 32; finalize_at out.len() == outlen; two-buffer
              forms require equal lengths; AEAD tag.len() == 16; Poly1305 output >= 16; sponge absorb/squeeze
              typestate; cryptoutil vector writers require exact lengths; scrypt / PBKDF2 / HKDF guards (C10)
  one-shot    ChaChaPoly1305::encrypt / decrypt assert !finished and leave finished == true on every path
  total       no explicit panic reachable from X25519 (C12 rule)
  fe-use     32-bit backend: every call site of a field operation anywhere in the crate hands it operands built from at most
             three TIGHT values without a carry (the contract fe-bounds proves); nobody outside fe32 touches Fe limbs
  index-bounds every slice expression / split_at of the hash contexts' buffering code is in bounds on every path (obligations of
             the stream shape analysis, shared with C02); block-run drivers, stream ciphers' process_mut and Poly1305::input are
             decided for their shapes (shape-eval)
Not decided: absence of panics from overflow / bounds asserts in general (tier-2 interval obligations are
discharged only for the modules listed in the evidence), unsafe-block extents."""
import re

from .. import mir, pred, rules, ssa, intervals
from ..mir import fmt, walk, const_val
from . import C03, C10, C12, hashctx

EXPLANATION = __doc__
TECHNIQUE = "belief-contradiction rule on overflow-asserted additions, accumulator classification table, const-generic / length sweeps of guard control flow, must-set typestate; level (type-state) dataflow over every fe32 operation call site of the crate against the proved 3xTIGHT operand contract, who-may-access rule for Fe limbs; interval abstract interpretation of limb bounds"


def cn(fn, op):
    return pred.canon(fn.expr(op), fn)


def check_wrap_contradiction(ctx, P):
    n_add = 0
    found = []
    for f in P.fns.values():
        adds = []
        for b in sorted(f.reachable()):
            t = f.term(b)
            if t[0] == "assert" and t[3].startswith("overflow:Add"):
                # the checked add feeding this assert
                for s in f.stmts(b):
                    if s[0] == "=" and s[2][0] == "bin" and s[2][1] == "AddWithOverflow":
                        n_add += 1
                        a = pred.canon(f.expr(s[2][2]), f)
                        bb_ = pred.canon(f.expr(s[2][3]), f)
                        tmp = s[1][0]
                        # where is the sum stored?
                        dest = None
                        for s2 in f.stmts(t[4]):
                            if s2[0] == "=" and s2[2][0] == "use" and s2[2][1][0] in ("mv", "cp") and s2[2][1][1][0] == tmp:
                                dest = pred.canon(f.place_expr(s2[1]), f) if s2[1][1] else ("v:%s" % f.dbg.get(s2[1][0], "_%d" % s2[1][0]))
                        adds.append((b, a, bb_, dest))
        if not adds:
            continue
        for b in sorted(f.reachable()):
            for s in f.stmts(b):
                if s[0] == "=" and s[2][0] == "bin" and s[2][1] in ("Lt", "Gt"):
                    x = pred.canon(f.expr(s[2][2]), f)
                    y = pred.canon(f.expr(s[2][3]), f)
                    if s[2][1] == "Gt":
                        x, y = y, x
                    for (ab, a, bb_, dest) in adds:
                        if dest is not None and x == dest and y in (a, bb_) and y != dest and f.reaches(ab, b):
                            found.append((f, b, dest, y, s[3]))
    ctx.check(n_add >= 50, "floor", "wrapcheck", "%d overflow-asserted additions examined crate-wide" % n_add, "too few checked additions seen (%d): fact base incomplete" % n_add, key="floor:wrapcheck")
    if not found:
        ctx.ok("wrapcheck", "crate", "no overflow-asserted sum is later tested for wrap against its own addend (%d checked additions)" % n_add, sites=n_add)
    for f, b, dest, y, line in found:
        ctx.fail("wrapcheck", f.path, "`%s` is produced by an overflow-checked `+` and then tested `%s < %s` to detect wrap-around: in builds with overflow checks the add panics at the wrap instead of carrying (counters passing 2^32 / 2^64 abort), in unchecked builds it carries" % (dest, dest, y), where=f.where(line), key="wrapcheck:%s" % f.path)


def positive_wrapcheck(ctx):
    """keep the rule honest: a tiny synthetic function body with the defect must match"""
    # the rule is purely syntactic over (add-with-assert, later Lt against addend); emulate on a fake Fn
    raw = {"id": 1, "path": "selftest::inc", "argc": 2, "locals": ["()", "&mut [u32; 2]", "u32", "(u32, bool)", "bool"], "span": "selftest.rs:1:1", "dbg": [], "kind": "Fn", "name": "inc",
           "blocks": [
               {"s": [["=", [3, []], ["bin", "AddWithOverflow", ["cp", [1, ["*", ["c", 0, 2, False]]]], ["cp", [2, []]]], 1, 0]], "t": ["assert", ["mv", [3, [["f", 1, ""]]]], False, "overflow:Add", 1, [], 1, 0], "cleanup": False},
               {"s": [["=", [1, ["*", ["c", 0, 2, False]]], ["use", ["mv", [3, [["f", 0, ""]]]]], 1, 0], ["=", [4, []], ["bin", "Lt", ["cp", [1, ["*", ["c", 0, 2, False]]]], ["cp", [2, []]]], 2, 0]], "t": ["ret"], "cleanup": False}]}
    P = mir.Program({"fns": [raw], "consts": [], "adts": [], "impls": []}, "selftest")
    class Fake:
        def __init__(self):
            self.n = 0
        def check(self, *a, **k):
            return True
        def ok(self, *a, **k):
            pass
        def fail(self, *a, **k):
            self.n += 1
    fk = Fake()
    check_wrap_contradiction(fk, P)
    ctx.check(fk.n == 1, "wrapcheck-selftest", "positive example", "the rule fires on a synthetic `t += inc; if t < inc` body", "the wrap-contradiction rule no longer fires on its positive example: checker broken", key="wrapcheck-selftest")


def classify_update(fn, field_names):
    """how fn updates self.<field>: list of kinds among 'wrapping', 'checked-assert', 'checked-panic', 'plain'"""
    out = []
    for b, i, names, rv in rules.field_writes(fn):
        if names[: len(field_names)] != field_names:
            continue
        e = fn.rvalue_expr(rv)
        s = fmt(e)
        if e[0] == "call" and re.search(r"::wrapping_(add|sub)$", e[1]):
            out.append("wrapping")
        elif e[0] == "bin" and e[1] in ("Add", "Sub"):
            # from AddWithOverflow + assert ?
            asserted = any(fn.term(bb)[0] == "assert" and fn.term(bb)[3].startswith("overflow") and fn.term(bb)[4] == b for bb in fn.reachable())
            out.append("checked-assert" if asserted else "plain")
        elif e[0] == "const":
            out.append("const")
        else:
            out.append("other:" + s[:40])
    return out


def check_counters(ctx, P):
    # BLAKE2 counters: low word must wrap
    for eng in ("EngineS", "EngineB"):
        fn = P.fn("hashing::blake2::%s::increment_counter" % eng)
        ev = ssa.Eval(P, fn)
        r = ev.run()
        ovf = [a for a in r.asserts if a[1].startswith("overflow")]
        low = [a for a in ovf if a[2][0] == "ovf" and a[2][2] == ("load", "arg1.t[0]", 0)]
        t0 = r.mem_at_ret.get("arg1.t[0]")
        ok = isinstance(t0, tuple) and t0[0] == "bin" and t0[1] == "Add" and not low
        ctx.check(ok, "counter", "blake2::%s::t[0]" % eng, "t[0] := t[0] + inc modulo 2^w (no overflow assert on the low word)", "blake2 %s::increment_counter adds to the low counter word with overflow-checked arithmetic: hashing 2^%d bytes panics in checked builds" % (eng, 32 if eng == "EngineS" else 64), where=fn.where(), key="counter:blake2::%s::t0" % eng)
        # carry: t[1] += (t[0] < inc)
        t1 = r.mem_at_ret.get("arg1.t[1]")
        okc = isinstance(t1, tuple) and t1[0] == "bin" and t1[1] == "Add" and "ite" in repr(t1) and "Lt" in repr(t1)
        ctx.check(okc, "counter", "blake2::%s::carry" % eng, "t[1] += [t[0] wrapped]", "blake2 %s::increment_counter does not carry into t[1] when t[0] wraps" % eng, where=fn.where(), key="counter:blake2::%s::carry" % eng)
    # byte counters of the MD hashes and the AEAD: checked adds in a type larger than the input domain
    table = [("hashing::sha2::Engine256::input", ["processed_bytes"], "u64", "2^61 bytes"), ("hashing::sha2::Engine512::input", ["processed_bytes"], "u128", "2^125 bytes"),
             ("hashing::sha1::Context::update_mut", ["processed_bytes"], "u64", "2^61 bytes"), ("hashing::ripemd160::Context::update_mut", ["processed_bytes"], "u64", "2^61 bytes"),
             ("chacha20poly1305::Context::<ROUNDS>::add_data", ["aad_len"], "u64", "2^64-1 bytes"), ("chacha20poly1305::Context::<ROUNDS>::add_encrypted", ["data_len"], "u64", "2^64-1 bytes")]
    for path, fld, ty, dom in table:
        fn = P.fn(path)
        kinds = classify_update(fn, fld)
        adt_ty = None
        st = fn.self_ty or ""
        for a in P.adts.values():
            if a["path"] == st.split("<")[0]:
                for f_ in a["variants"][0]["fields"]:
                    if f_["name"] == fld[0]:
                        adt_ty = f_["t"]
        ok = kinds in (["checked-assert"], ["wrapping"]) and adt_ty == ty
        ctx.check(ok, "counter", "%s:%s" % (path, ".".join(fld)), "%s is a %s advanced once per call (domain %s < type range)" % (".".join(fld), ty, dom), "%s updates %s as %s in a %s: the counter can no longer hold the algorithm's maximum input" % (path, ".".join(fld), kinds, adt_ty), where=fn.where(), key="counter:%s" % path)
    # cipher block counters (C03 rules) and KDF counters (C10 rules)
    # set_counter / increment / the 64-bit carry as value graphs (block-eq, shared with C03): the pattern rules below are then
    # cross-checks of the same functions
    from . import arx
    ctx.guard("block-eq", "engines", lambda: arx.check_engines(ctx, {"K0": P}))
    ctx.guard("counter", "chacha-sse2", lambda: C03.check_counter_engine(ctx, P, "chacha::sse2", "K0"))
    ctx.guard("counter", "salsa", lambda: C03.check_counter_engine(ctx, P, "salsa20", "K0", is_salsa=True))
    ctx.guard("counter", "hkdf", lambda: C10.check_hkdf(ctx, P))
    ctx.guard("counter", "pbkdf2", lambda: C10.check_pbkdf2(ctx, P))


def sweep_len(ctx, P, path, leaf, want, rng, what, extra=None, key=None):
    fn = P.fn_opt(path)
    if fn is None:
        ctx.lost("guard", path, "not found")
        return
    acc = rules.accepted_param_values(fn, leaf, rng, extra=extra, prog=P)
    ctx.check(acc == list(want), "guard", "%s:%s:%s" % (path, leaf, what), "%s: accepted %s = %s" % (what, leaf, _rs(want)), "%s accepts %s in %s, the documented domain is %s" % (path, leaf, _rs(acc), _rs(want)), where=fn.where(), key=key or "guard:%s:%s" % (path, leaf))


def _rs(v):
    v = list(v)
    if len(v) > 6 and v == list(range(v[0], v[-1] + 1)):
        return "%d..=%d" % (v[0], v[-1])
    return str(v)


def check_cipher_ctor_guards(ctx, P, cfg):
    R64 = range(0, 80)
    sfx = "" if cfg == "K0" else "@" + cfg
    for T in ("chacha20::ChaCha", "chacha20::ChaChaOriginal", "salsa20::Salsa"):
        sweep_len(ctx, P, T + "::<ROUNDS>::new", "len(arg1)", [16, 32], R64, "key length" + sfx, extra={"ROUNDS": 20})
        sweep_len(ctx, P, T + "::<ROUNDS>::new", "ROUNDS", [8, 12, 20], range(0, 65), "round count" + sfx, extra={"len(arg1)": 32})
    for T in ("chacha20::XChaCha", "salsa20::XSalsa"):
        sweep_len(ctx, P, T + "::<ROUNDS>::new", "ROUNDS", [8, 12, 20], range(0, 65), "round count" + sfx)
    sweep_len(ctx, P, "chacha20poly1305::Context::<ROUNDS>::new", "len(arg1)", [16, 32], R64, "AEAD key length" + sfx)


def check_guards(ctx, P):
    # BLAKE2
    for mod, maxo in (("blake2b", 64), ("blake2s", 32)):
        C = "hashing::%s::" % mod
        sweep_len(ctx, P, C + "Context::<BITS>::new_keyed", "BITS", list(range(1, 8 * maxo + 1)), range(0, 8 * maxo + 40), "BITS", extra={"len(arg1)": 0})
        sweep_len(ctx, P, C + "Context::<BITS>::new_keyed", "len(arg1)", list(range(0, maxo + 1)), range(0, maxo + 20), "key length", extra={"BITS": 8 * maxo})
        sweep_len(ctx, P, C + "ContextDyn::new_keyed", "arg1", list(range(1, maxo + 1)), range(0, maxo + 20), "output bytes", extra={"len(arg2)": 0})
        sweep_len(ctx, P, C + "ContextDyn::new_keyed", "len(arg2)", list(range(0, maxo + 1)), range(0, maxo + 20), "key length", extra={"arg1": maxo})
        sweep_len(ctx, P, C + "Context::<BITS>::reset_with_key", "len(arg2)", list(range(0, maxo + 1)), range(0, maxo + 20), "key length", extra={"BITS": 8 * maxo})
        sweep_len(ctx, P, C + "ContextDyn::reset_with_key", "len(arg2)", list(range(0, maxo + 1)), range(0, maxo + 20), "key length")
        sweep_len(ctx, P, C + "Context::<BITS>::new", "BITS", list(range(1, 8 * maxo + 1)), range(0, 8 * maxo + 40), "BITS")
        sweep_len(ctx, P, C + "ContextDyn::new", "arg1", list(range(1, maxo + 1)), range(0, maxo + 20), "output bytes")
        for meth, leaf in (("finalize_at", "len(arg2)"), ("finalize_reset_at", "len(arg2)"), ("finalize_reset_with_key_at", "len(arg3)")):
            for bits in (1, 8, 9, 8 * maxo - 7, 8 * maxo):
                sweep_len(ctx, P, C + "Context::<BITS>::" + meth, leaf, [(bits + 7) // 8], range(0, maxo + 20), "out.len() for BITS=%d" % bits, extra={"BITS": bits}, key="guard:%sContext::%s" % (C, meth))
        for meth in ("finalize_at", "finalize_reset_at", "finalize_reset_with_key_at"):
            fn = P.fn_opt(C + "ContextDyn::" + meth)
            if fn is None:
                continue
            ic = [c for c in fn.calls() if c.name().endswith("::internal_final")]
            ok = len(ic) == 1 and any(f[0] == "eq" and f[2] == 0 and dict(f[1]).get("arg1.outlen") is not None and any(k.startswith("len(arg") for k, v in f[1]) for f in pred.facts_at(fn, ic[0].bb))
            ctx.check(ok, "guard", "%sContextDyn::%s:out.len()" % (C, meth), "out.len() == outlen asserted before finalising", "%sContextDyn::%s does not require out.len() == outlen" % (C, meth), where=fn.where(), key="guard:%sContextDyn::%s" % (C, meth))
    # two-buffer forms and AEAD one-shot
    T = "chacha20poly1305::ChaChaPoly1305::<ROUNDS>::"
    for meth, tagarg in (("encrypt", "arg4"), ("decrypt", "arg4")):
        fn = P.fn(T + meth)
        first = [c for c in fn.calls() if c.local]
        facts = pred.facts_at(fn, first[0].bb) if first else []
        ok = pred.implies(facts, pred.A("eq", 0, **{"len(arg2)": 1, "len(arg3)": -1})) and pred.implies(facts, pred.A("eq", 16, **{"len(%s)" % tagarg: 1})) and ("bool", "arg1.finished", False) in facts
        ctx.check(ok, "guard", T + meth, "input.len() == output.len(), tag.len() == 16 and !finished are asserted before any work", "%s%s does not validate its buffer / tag lengths and its one-shot flag first: %s" % (T, meth, [pred.show(f) if f[0] in ("le", "eq", "ne") else f for f in facts]), where=fn.where(), key="guard:%s%s" % (T, meth))
        vals = rules.last_write_values(P, fn, "finished")
        ctx.check(vals == {1}, "one-shot", T + meth, "finished == true after the call on every path", "%s%s does not mark the one-shot object used on every path (reuse would repeat the nonce): %s" % (T, meth, vals), where=fn.where(), key="mustset:%s%s:finished" % (T, meth))
    for path in ("chacha20poly1305::ContextEncryption::<ROUNDS>::encrypt", "chacha20poly1305::ContextDecryption::<ROUNDS>::decrypt"):
        fn = P.fn(path)
        first = [c for c in fn.calls() if c.local]
        facts = pred.facts_at(fn, first[0].bb) if first else []
        ctx.check(pred.implies(facts, pred.A("eq", 0, **{"len(arg2)": 1, "len(arg3)": -1})), "guard", path, "input.len() == output.len() asserted before any work", "%s does not require equal buffer lengths before processing" % path, where=fn.where(), key="guard:" + path)
    zu = P.fn("cryptoutil::FixedBuffer::<N>::zero_until")
    ix = [c for c in zu.calls() if "index_mut" in c.name() or c.name().endswith("zero")]
    ctx.check(bool(ix) and all(pred.implies(pred.facts_at(zu, c.bb), pred.A("le", 0, **{"arg1.buffer_idx": 1, "arg2": -1})) for c in ix), "guard", "FixedBuffer::zero_until", "idx >= buffer_idx before the fill", "FixedBuffer::zero_until no longer requires idx >= buffer_idx", where=zu.where(), key="guard:FixedBuffer::zero_until")
    fb = P.fn("cryptoutil::FixedBuffer::<N>::full_buffer")
    ctx.check(all(pred.implies(pred.facts_at(fb, b), pred.A("eq", 0, **{"P:N": 1, "arg1.buffer_idx": -1})) for b in fb.ret_blocks()) and bool(fb.ret_blocks()), "guard", "FixedBuffer::full_buffer", "buffer_idx == N on every return", "FixedBuffer::full_buffer hands out the block without requiring it to be full", where=fb.where(), key="guard:FixedBuffer::full_buffer")
    # sponge typestate
    E = "hashing::sha3::Engine::<DIGESTLEN, DSLEN>::"
    pr = P.fn(E + "process")
    kf = [c for c in pr.calls() if c.name().endswith("keccak_f")]
    ok = bool(kf) and all(("bool", "arg1.can_absorb", True) in pred.facts_at(pr, c.bb) for c in kf)
    st_ = [b for b, i, names, rv in rules.field_writes(pr)]
    ok = ok and all(("bool", "arg1.can_absorb", True) in pred.facts_at(pr, b) for b in st_)
    ctx.check(ok, "guard", E + "process", "absorbing requires can_absorb", "sponge process() mutates the state without checking can_absorb", where=pr.where(), key="guard:%sprocess" % E)
    e256 = P.fn("hashing::sha2::Engine256::input")
    bi = [c for c in e256.calls() if c.name().endswith("FixedBuffer::<N>::input")]
    ok = len(bi) == 1 and ("bool", "arg1.finished", False) in pred.facts_at(e256, bi[0].bb)
    ctx.check(ok, "guard", "Engine256::input", "input requires !finished", "sha2 Engine256::input accepts data after finish", where=e256.where(), key="guard:Engine256::input")
    # cryptoutil vector writers / readers
    for nm in ("write_u64v_le", "write_u64v_be", "write_u32v_le", "write_u32v_be", "read_u64v_be", "read_u64v_le", "read_u32v_be", "read_u32v_le"):
        fn = P.fn("cryptoutil::" + nm)
        sz = 8 if "64" in nm else 4
        loops = [b for b in fn.loop_blocks()]
        first = min(loops) if loops else None
        facts = pred.facts_at(fn, first) if first is not None else []
        a_, b_ = ("len(arg1)", "len(arg2)")
        want = pred.atom("eq", 0, {a_: 1, b_: -sz}) if nm.startswith("write") else pred.atom("eq", 0, {a_: sz, b_: -1})
        ctx.check(pred.implies(facts, want), "guard", "cryptoutil::" + nm, "exact length relation asserted before the (unsafe) element loop", "cryptoutil::%s no longer asserts dst.len() / input.len() agreement before its raw loop: %s" % (nm, [pred.show(f) for f in facts if f[0] in ("le", "eq", "ne")]), where=fn.where(), key="guard:cryptoutil::%s" % nm)
    xk = P.fn("cryptoutil::xor_keystream_mut")
    loops = sorted(xk.loop_blocks())
    facts = pred.facts_at(xk, loops[0]) if loops else []
    ctx.check(pred.implies(facts, pred.A("le", 0, **{"len(arg1)": 1, "len(arg2)": -1})), "guard", "cryptoutil::xor_keystream_mut", "buf.len() <= keystream.len() asserted before the raw-pointer loop", "xor_keystream_mut no longer bounds buf.len() by keystream.len() before its raw-pointer loop (out-of-bounds read)", where=xk.where(), key="guard:cryptoutil::xor_keystream_mut")
    # process() length equality for the 5 ciphers
    from . import C04
    for T_, _, _ in C04.CIPHERS:
        ctx.guard("guard", T_ + "::process", lambda: C04.check_process(ctx, P, T_))
    # scrypt constructor guards
    ctx.guard("guard", "scrypt", lambda: C10.check_scrypt(ctx, P))
    # Poly1305 output length
    rr = P.fn("<poly1305::Poly1305 as mac::Mac>::raw_result")
    facts = [pred.facts_at(rr, c.bb) for c in rr.calls_to(r"cryptoutil::write_u32_le$")]
    ctx.check(bool(facts) and all(pred.implies(f, pred.A("le", -16, **{"len(arg2)": -1})) for f in facts), "guard", "Poly1305::raw_result", "output.len() >= 16", "Poly1305::raw_result does not require a 16-byte output", where=rr.where(), key="guard:Poly1305::raw_result")
    hashctx.check_all_blake2_keyed(ctx, P, which=("new_keyed", "reset_with_key"))


def run(ctx):
    P = ctx.prog("K0")
    ctx.guard("wrapcheck", "crate", lambda: check_wrap_contradiction(ctx, P))
    ctx.guard("wrapcheck-selftest", "positive", lambda: positive_wrapcheck(ctx))
    ctx.guard("counter", "table", lambda: check_counters(ctx, P))
    ctx.guard("guard", "table", lambda: check_guards(ctx, P))
    for cfg in ("K0", "K6", "K5"):
        Pc = ctx.prog(cfg)
        ctx.guard("guard", "cipher-ctors@" + cfg, lambda: check_cipher_ctor_guards(ctx, Pc, cfg))
    ctx.guard("total", "x25519", lambda: C12.check_total(ctx, P, ["curve25519::curve25519", "curve25519::curve25519_base"]))
    # aligned SIMD loads / stores of the BLAKE2 chaining value need the engines' 32-byte alignment (a misaligned context in a
    # +avx build panics on a debug assertion or faults): layout facts of the AVX / AVX2 configurations (shared with C16)
    from . import C16 as _C16
    _lp = {"K0": P}
    for _k in ("K4", "K5"):
        try:
            _lp[_k] = ctx.prog(_k)
        except Exception:
            pass
    ctx.guard("layout", "blake2", lambda: _C16.check_layout(ctx, _lp))
    # overflow-assert discharge where limb arithmetic makes it non-obvious (interval abstract interpretation, shared rule
    # instances): with these, debug and release builds compute the same values in Poly1305, both field backends and the
    # 32-bit scalar code, for every input and history
    from . import polybounds, febounds, sc32
    ctx.guard("bounds", "poly1305", lambda: polybounds.check(ctx, P))
    ctx.guard("fe-bounds", "fe64", lambda: febounds.check_fe64(ctx, P, "K0"))
    P2 = ctx.prog("K2")
    ctx.guard("fe-bounds", "fe32", lambda: febounds.check_fe32(ctx, P2, "K2"))
    ctx.guard("sc", "scalar32::reduce", lambda: sc32.check_scalar32(ctx, P2, "reduce"))
    ctx.guard("sc", "scalar32::muladd", lambda: sc32.check_scalar32(ctx, P2, "muladd"))
    ctx.guard("total", "x25519/K2", lambda: C12.check_total(ctx, P2, ["curve25519::curve25519", "curve25519::curve25519_base"]))
    # the buffering loops of the hash contexts slice their input by computed bounds: every slice expression over the tracked
    # windows is an index-bounds obligation of the shape analysis, the block-run drivers and the stream ciphers are decided
    # for their shapes (shared rule instances with C02 / C04 / C05)
    from . import C02 as _C02, streamshape, C04 as _C04
    ctx.guard("absorb", "all", lambda: _C02.check_absorb(ctx, P))
    ctx.guard("block-run", "all", lambda: _C02.check_block_runs(ctx, P))
    ctx.guard("shape-eval", "process_mut", lambda: streamshape.check_process_mut(ctx, P, [c[0] for c in _C04.CIPHERS]))
    ctx.guard("shape-eval", "Poly1305::input", lambda: polybounds.check_input_shapes(ctx, P))
    ctx.not_decided += ["absence of overflow / bounds panics outside Poly1305, the field backends and scalar32 (interval obligations are not discharged crate-wide)", "extents of the unsafe raw-pointer accesses beyond their dominating guards", "value equality between debug and release builds beyond the counter / wrap rules"]
