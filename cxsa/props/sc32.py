"""Rules for the 32-bit curve backend (--features force-32bits, configuration K2), which the default test build never
compiles:

  decode32     fe32 Fe::from_bytes: sum(h_i * 2^w_i) == (bytes as a little-endian number) - 2^255 * bit255  modulo
               2^255-19 as a polynomial identity over the 32 input bytes (all carry symbols cancel; the only quotient
               left is the `>> 23` of the top three bytes, i.e. exactly bit 255 is dropped)
  sc-digits    scalar32 reduce_from_wide_bytes / muladd: the 21-bit digits read from the input are the consecutive
               bit-fields [21i, 21i+21) of the little-endian byte strings (bit provenance)
  sc-identity  sum(s_i * 2^(21 i)) of the final digits is congruent to the input number (resp. a*b + c) modulo the group
               order L as a polynomial identity over the digit symbols: every 2^252-fold uses the right multiple of L's
               low part in the right digit, every carry is added one digit up and removed below
  sc-bounds    under 21-bit input digits no overflow assert can fire, and the final digits are reduced (0 <= s_i < 2^21,
               the top one small enough for its byte) where they are packed with `(s_i >> a) | (s_j << b)`: interval
               abstract interpretation with the exact carry/remainder relation
  sc-encode    the 32 output bytes are the consecutive bit-fields of the final digits"""
import re

from .. import ssa, bounds, limbpoly, termbits, intern
from ..poly import Poly
from ..spec import curve

L = (1 << 252) + 27742317777372353535851937790883648493
PM = (1 << 255) - 19


def _byte_sym(names):
    def leaf(t):
        if t[0] == "elem" and isinstance(t[1], tuple) and t[1] and t[1][0] == "load" and t[1][1] in names and isinstance(t[2], int):
            return "%s_%d" % (names[t[1][1]], t[2])
        if t[0] == "load":
            m = re.match(r"^(arg\d)\[(\d+)\]$", t[1])
            if m and m.group(1) in names:
                return "%s_%s" % (names[m.group(1)], m.group(2))
        return None
    return leaf


INL = lambda n: bool(re.search(r"::load_[34][iu]$", n))


def check_decode32(ctx, P, rule="decode32"):
    fn = P.fn("curve25519::fe::fe32::Fe::from_bytes")
    r = ssa.Eval(P, fn, inline=INL).run()
    intern.Interner().canon_result(r)
    limbs = r.ret.get("0") if isinstance(r.ret, ssa.Agg) else None
    if not isinstance(limbs, ssa.Agg):
        ctx.fail(rule, "fe32::from_bytes", "cannot see the ten limbs of the result", where=fn.where(), key="%s:fe32::from_bytes" % rule)
        return
    LP = limbpoly.LimbPoly(_byte_sym({"arg1": "b"}))
    tot = Poly()
    for i, sh in enumerate(curve.FE32_SHIFTS):
        tot = tot + LP.val(limbs.get_elem(i)) * (1 << sh)
    want = Poly()
    for j in range(32):
        want = want + Poly.var("b_%d" % j) * (1 << (8 * j))
    diff = (tot - want).mod(PM)
    # the only admissible residue: -2^255 * Q(top three bytes, 23)
    ok = not LP.unknown and len(diff) == 1
    why = ""
    if ok:
        (mon, c), = diff.items()
        ok = len(mon) == 1 and mon[0][1] == 1 and c == (-(1 << 255)) % PM
        if ok:
            qn = mon[0][0]
            key = [k for k, v in LP.qnames.items() if v == qn]
            ok = len(key) == 1 and key[0][1] == 23
            if ok:
                top = LP.val(key[0][0])
                ok = top == Poly.var("b_29") + Poly.var("b_30") * 256 + Poly.var("b_31") * 65536
                why = "" if ok else "the quotient left over is not the `>> 23` of bytes 29..31"
            else:
                why = "the quotient left over is %s" % ([(str(k[0])[:60], k[1]) for k in key])
        else:
            why = "residue %s" % diff.show()[:200]
    else:
        why = "residue %s%s" % (diff.show()[:200], ("; unrecognised operation %s" % str(LP.unknown[0])[:80]) if LP.unknown else "")
    ctx.check(ok, rule, "fe32::from_bytes", "sum(h_i 2^w_i) == LE(bytes) - 2^255 * (bytes[29..32] >> 23) (mod 2^255-19): %d carry symbols cancel, bit 255 and only bit 255 is dropped" % (len(LP.qnames) - 1),
              "fe32 Fe::from_bytes does not decode the little-endian value with bit 255 ignored: %s" % why, where=fn.where(), key="%s:fe32::from_bytes" % rule)


# ------------------------------------------------------------------------------------------------ scalar32
def _digit_terms(roots):
    """the initial 21-bit digits: sub-terms  2097151 & (load [>> k])"""
    seen, order = set(), []
    for r in roots:
        bounds.subterms(r, seen, order)
    out = []
    for t in order:
        if t[0] == "bin" and t[1] == "BitAnd":
            for x, m in ((t[2], t[3]), (t[3], t[2])):
                if ssa.is_c(m) and m[1] == 2097151:
                    out.append(t)
    return out


def _top_digit_terms(roots, known):
    """the unmasked top digits  load >> k  (a11 = load_4(a[28..]) >> 7): direct leaves that are not inside a known digit"""
    return []


def check_scalar32(ctx, P, which, rule_prefix="sc"):
    """which: 'reduce' or 'muladd'"""
    if which == "reduce":
        fn = P.fn("curve25519::scalar::scalar32::Scalar::reduce_from_wide_bytes")
        argn = {"arg1": "s"}
    else:
        fn = P.fn("curve25519::scalar::scalar32::muladd")
        argn = {"arg1": "a", "arg2": "b", "arg3": "c"}
    inst = "scalar32::%s" % which
    r = ssa.Eval(P, fn, inline=INL).run()
    intern.Interner().canon_result(r)
    ret = r.ret
    out = ret.get("0") if isinstance(ret, ssa.Agg) else None
    if not isinstance(out, ssa.Agg):
        ctx.fail(rule_prefix + "-encode", inst, "cannot see the 32 output bytes", where=fn.where(), key="%s-encode:%s" % (rule_prefix, inst))
        return
    obytes = [out.get_elem(i) for i in range(32)]
    # ---- initial digits and their bit provenance
    names = {}
    for a, s in argn.items():
        names[a] = s
        names[a + ".0"] = s
    digs = _digit_terms(obytes)
    B = termbits.Bits(termbits.byte_leaf(set(names)))
    dig_of = {}      # term -> (symbol, index)
    bad = []
    for t in digs:
        bits = B.bits(t, 64)
        b0 = bits[0]
        if not (isinstance(b0, tuple) and b0[1] % 21 == 0 and all(bits[j] == (b0[0], b0[1] + j) for j in range(21)) and all(x == 0 for x in bits[21:])):
            bad.append(termbits.show(bits[:24]))
            continue
        dig_of[t] = (names[b0[0]], b0[1] // 21)
    # unmasked top digits (a11 = load_4(a[28..32]) >> 7 : bits 231..255)
    seen, order = set(), []
    for o in obytes:
        bounds.subterms(o, seen, order)
    for t in order:
        if t in dig_of or not (t[0] == "bin" and t[1] in ("Shr", "ShrUnchecked") and ssa.is_c(t[3])):
            continue
        bits = B.bits(t, 64)
        b0 = bits[0]
        nbits = 512 if which == "reduce" else 256
        if isinstance(b0, tuple) and b0[1] % 21 == 0 and b0[1] + 21 > nbits - 21 and b0[1] < nbits:
            n = nbits - b0[1]
            if all(bits[j] == (b0[0], b0[1] + j) for j in range(n)) and all(x == 0 for x in bits[n:]):
                dig_of[t] = (names[b0[0]], b0[1] // 21)
    want = {"reduce": {("s", i) for i in range(24)}, "muladd": {(x, i) for x in "abc" for i in range(12)}}[which]
    got = set(dig_of.values())
    ctx.check(not bad and got == want, rule_prefix + "-digits", inst, "%d input digits are the bit-fields [21i, 21i+21) of the little-endian inputs" % len(want),
              "%s does not split its input into consecutive 21-bit digits: missing %s, unexpected %s, malformed %s" % (inst, sorted(want - got)[:6], sorted(got - want)[:6], bad[:2]), where=fn.where(), key="%s-digits:%s" % (rule_prefix, inst))
    if bad or got != want:
        return
    # ---- final digits: the operands of the packing expressions
    #  out[k] = (s_i >> a) as u8   or   ((s_i >> a) | (s_j << b)) as u8
    fin = {}
    Bo = termbits.Bits(lambda t: None)
    packs = []
    finals = []

    def strip(t):
        while isinstance(t, tuple) and t and t[0] == "cast":
            t = t[1]
        return t
    for k, ob in enumerate(obytes):
        e = strip(ob)
        parts = [e]
        if e[0] == "bin" and e[1] == "BitOr":
            parts = [strip(e[2]), strip(e[3])]
        for pt in parts:
            if pt[0] == "bin" and pt[1] in ("Shr", "Shl") and ssa.is_c(pt[3]):
                base = strip(pt[2])
                sh = pt[3][1] if pt[1] == "Shr" else -pt[3][1]
            else:
                base, sh = pt, 0
            finals.append((k, base, sh))
        if len(parts) == 2:
            packs.append((k, parts))
    # order the distinct final digit terms by first use: digit i feeds bytes floor(21 i / 8) ...
    dterms = []
    for k, base, sh in finals:
        if base not in dterms:
            dterms.append(base)
    ok_enc = len(dterms) == 12
    enc_bad = []
    if ok_enc:
        for k, base, sh in finals:
            i = dterms.index(base)
            # byte k holds bits [8k, 8k+8) of sum s_i 2^(21 i): from digit i the bits starting at 8k - 21 i
            if sh != 8 * k - 21 * i:
                enc_bad.append((k, i, sh))
    ctx.check(ok_enc and not enc_bad, rule_prefix + "-encode", inst, "output byte k = bits [8k, 8k+8) of sum(s_i 2^(21 i)) over the 12 final digits",
              "%s does not pack its 12 final digits into consecutive output bits: %d digit terms, misplaced (byte, digit, shift) %s" % (inst, len(dterms), enc_bad[:4]), where=fn.where(), key="%s-encode:%s" % (rule_prefix, inst))
    if not ok_enc or enc_bad:
        return
    # ---- congruence modulo L over the digit symbols
    def opaque(t):
        d = dig_of.get(t)
        return "%s_%d" % d if d is not None else None
    LP = limbpoly.LimbPoly(lambda t: None, opaque=opaque)
    tot = Poly()
    for i, t in enumerate(dterms):
        tot = tot + LP.val(t) * (1 << (21 * i))

    def num(sym, n):
        acc = Poly()
        for i in range(n):
            acc = acc + Poly.var("%s_%d" % (sym, i)) * (1 << (21 * i))
        return acc
    spec = num("s", 24) if which == "reduce" else num("a", 12) * num("b", 12) + num("c", 12)
    diff = (tot - spec).mod(L)
    ctx.check(not diff and not LP.unknown, rule_prefix + "-identity", inst, "sum(s_i 2^(21 i)) == %s (mod L) as a polynomial identity; %d carry symbols cancel" % ("the 504-bit input" if which == "reduce" else "a*b + c", len(LP.qnames)),
              "%s is not congruent to %s modulo the group order: residue %s%s" % (inst, "its input" if which == "reduce" else "a*b + c", diff.show()[:200], ("; unrecognised operation %s" % str(LP.unknown[0])[:80]) if LP.unknown else ""), where=fn.where(), key="%s-identity:%s" % (rule_prefix, inst))
    # ---- bounds: no overflow, reduced digits at the packing sites
    def leaf(t):
        d = dig_of.get(t)
        if d is not None:
            if which == "muladd" and d[1] == 11:
                return (0, (1 << 25) - 1)
            if which == "reduce" and d[1] == 23:
                return (0, (1 << 29) - 1)
            return (0, 2097151)
        if t[0] == "elem":
            return (0, 255)
        return None
    ev = bounds.Iv(leaf)
    dv = [ev.iv(t) for t in dterms]
    fails = bounds.assert_failures(r, ev)
    # digits 0..10 must be exact 21-bit digits; the top digit only has to fit its bytes (that it is not negative follows from
    # the magnitude of the reduced value, which intervals cannot see: not decided)
    okb = all(v[0] >= 0 and v[1] < (1 << 21) for v in dv[:11]) and dv[11][0] >= -(1 << 21) and dv[11][1] < (1 << 25) and not fails
    wr = [w for w in ev.wraps if w[0] != "cast"]
    ctx.check(okb and not wr, rule_prefix + "-bounds", inst, "final digits within %s; %d overflow asserts discharged" % ([bounds.fmt_iv(v) for v in (dv[0], dv[10], dv[11])], len([a for a in r.asserts if a[1].startswith("overflow:")])),
              "%s: the final digits are not reduced 21-bit digits where they are packed into bytes (a carry step is missing), or an operation can overflow: digits %s; undischarged %s; wrapping %s" % (inst, [bounds.fmt_iv(v) for v in dv], [(f[1], bounds.fmt_iv(f[2]) if f[2] else None) for f in fails[:3]], [(w[0], bounds.fmt_iv(w[2])) for w in wr[:3]]),
              where=fn.where(), key="%s-bounds:%s" % (rule_prefix, inst))


def check_scalar_consts(ctx, P, backend):
    """public constants of the scalar type: Scalar::ZERO is the zero scalar in the backend's representation"""
    path = "curve25519::scalar::%s::Scalar::ZERO" % backend
    try:
        v = P.const(path)
    except Exception as e:
        ctx.lost("table", path, str(e))
        return

    def flat(x):
        if isinstance(x, (list, tuple)):
            for y in x:
                for z in flat(y):
                    yield z
        elif isinstance(x, dict):
            for y in x.values():
                for z in flat(y):
                    yield z
        else:
            yield x
    vals = [x for x in flat(v) if isinstance(x, int) and not isinstance(x, bool)]
    n = 32 if backend == "scalar32" else 5
    ctx.check(len(vals) == n and all(x == 0 for x in vals), "table", path, "Scalar::ZERO is all-zero (%d words)" % n, "%s is not the zero scalar: %s" % (path, vals[:8]), where=P.consts[path].get("span"), key="table:%s" % path)
