"""C09 — MAC and digest objects: reset rekeys, results never silently change.

Decided (typestate / rekey rules, every history):
  mustset     after result / raw_result the "already produced" flag is true on EVERY path (Hmac,
              Poly1305, the 18 legacy digest types incl. the two BLAKE2 MACs)
  flag-guard  input (and result) are dominated by the `!flag` check; Poly1305's second raw_result
              returns the stored accumulator without re-running finish
  rekey       after reset: Poly1305 r / pad untouched, h / leftover / finalized restored to their
              constructor values; Hmac re-absorbs the retained i_key; keyed legacy BLAKE2 resets
              with the key it retained (trait resets), the key is retained by new_keyed and
              reset_with_key; the hashing contexts' reset_with_key / new_keyed produce the same
              state (zeroed block with key prefix, buflen, engine parameters)
  delegate    every legacy digest delegates input/result/reset to the hashing context of its name
              on EVERY path (a reset skipped when no result was taken yet keeps the bytes already fed)
  hmac-keys   the retained i_key / o_key are the RFC 2104 pads of the key for every key length (a key of exactly one block
              is used as is), shared with C08
  shape-eval Hmac (new / input / raw_result / reset) against RFC 2104 with an UNINTERPRETED digest (transcript -> fresh symbols), every
             key length class x message split x {result, result again, reset + next message}; sizes derived from the code's
             length constants.  Independent of how the code is organised; the structural rules stay as cross-checks
  shape-eval BLAKE2 keyed (re)initialisation for every key length (engine from (outlen, key.len()), buffer = key || zeros,
             buflen one block iff keyed) and the legacy wrappers' key retention, constructors kept opaque
Not decided: digest / MAC values."""
import re

from .. import mir, pred, rules
from ..mir import fmt, walk, const_val
from . import objects, hashctx

EXPLANATION = __doc__
TECHNIQUE = "MIR must-set dataflow with callee summaries, branch-fact guards, reset-completeness and definite-zeroing rules; object-level bounded shape evaluation with an uninterpreted digest / PRF (transcript terms) against the RFC's defining term"


def cn(fn, op):
    return pred.canon(fn.expr(op), fn)


def check_poly1305(ctx, P):
    T = "poly1305::Poly1305"
    inp = objects.m(P, T, "mac::Mac", "input")
    rr = objects.m(P, T, "mac::Mac", "raw_result")
    rst = objects.m(P, T, "mac::Mac", "reset")
    fin = P.fn(T + "::finish")
    # input: every state-changing site requires !finalized
    sites = [c.bb for c in inp.calls_to(r"poly1305::Poly1305::block$")] + [b for b, i, names, rv in rules.field_writes(inp)]
    ok = bool(sites) and all(objects.flag_false_known(inp, b, "finalized") for b in sites)
    ctx.check(ok, "flag-guard", "Poly1305::input", "input requires !finalized before touching the state", "Poly1305::input accepts data after the tag was produced (state changes not dominated by `!finalized`)", where=inp.where(), key="flag-guard:Poly1305::input")
    # raw_result: finish only under !finalized, flag true afterwards on every path
    fc = rr.calls_to(r"poly1305::Poly1305::finish$")
    ok = len(fc) == 1 and objects.flag_false_known(rr, fc[0].bb, "finalized") and cn(rr, fc[0].args[0]) == "arg1"
    ctx.check(ok, "flag-guard", "Poly1305::raw_result", "finish() runs only while !finalized", "Poly1305::raw_result re-runs finish on an already finished accumulator", where=rr.where(), key="flag-guard:Poly1305::raw_result")
    vals = rules.last_write_values(P, fin, "finalized")
    ctx.check(vals == {1}, "mustset", "poly1305::Poly1305::finish:finalized", "finalized == true after finish on every path", "Poly1305::finish does not set finalized on every path (block-aligned messages): a second result re-finishes and returns different bytes, input is still accepted: %s" % vals, where=fin.where(), key="mustset:poly1305::Poly1305::finish:finalized")
    # the flag is set BEFORE the padded partial block is processed (hibit = 0)
    bl = fin.calls_to(r"poly1305::Poly1305::block$")
    if not bl:
        # the block call may sit in a private helper of the type (e.g. "process the buffered block"): the call of that helper
        # in finish is the site that must come after the flag
        bl = [via for f2, c2, via in objects.engine_calls(P, fin, r"poly1305::Poly1305::block$") if via is not None]
    okb = len(bl) == 1
    if okb:
        setters = [b for b, i, names, rv in rules.field_writes(fin) if names == ["finalized"] and rv[0] == "use" and const_val(rv[1]) == 1]
        okb = any(fin.dominates(b, bl[0].bb) for b in setters)
    ctx.check(okb, "order", "Poly1305::finish:flag-before-block", "finalized is set before the padded last block is processed (so its high bit is 0)", "Poly1305::finish processes the padded partial block before setting finalized", where=fin.where(), key="order:Poly1305::finish:flag-before-block")
    # outputs come from h[0..4]
    outs = {}
    for c in rr.calls_to(r"cryptoutil::write_u32_le$"):
        w = rules.window(rr, rr.expr(c.args[0]))
        v = rr.expr(c.args[1])
        idx = [x[2][1] for x in walk(v) if x[0] == "index" and x[2][0] == "const" and pred.canon(x[1], rr) == "arg1.h"]
        if w and w[0] == "arg2" and w[2]:
            outs[(w[1][1], w[2][1])] = idx[0] if idx else None
    ctx.check(outs == {(0, 4): 0, (4, 8): 1, (8, 12): 2, (12, 16): 3}, "wire", "Poly1305::raw_result:output", "tag bytes = LE words h[0..4]", "Poly1305::raw_result does not emit h[0..4] in order: %s" % outs, where=rr.where(), key="wire:Poly1305::raw_result:output")
    facts = [pred.facts_at(rr, c.bb) for c in rr.calls_to(r"cryptoutil::write_u32_le$")]
    ctx.check(bool(facts) and all(pred.implies(f, pred.A("le", -16, **{"len(arg2)": -1})) for f in facts), "guard", "Poly1305::raw_result:len", "output.len() >= 16 asserted", "Poly1305::raw_result does not require output.len() >= 16", where=rr.where(), key="guard:Poly1305::raw_result:len")
    # reset: exactly h, leftover, finalized; constructor values
    ws = {}
    for b, i, names, rv in rules.field_writes(rst):
        ws[".".join(names)] = rst.rvalue_expr(rv)
    ok = set(ws) == {"h", "leftover", "finalized"} and ws["h"][0] == "rep" and ws["h"][1][:2] == ("const", 0) and ws["leftover"][:2] == ("const", 0) and ws["finalized"][:2] == ("const", 0) and not [c for c in rst.calls() if c.local]
    ctx.check(ok, "rekey", "poly1305::Poly1305::reset", "reset restores h = 0, leftover = 0, finalized = false and leaves r / pad (the key) untouched", "Poly1305::reset does not restore exactly the message state (writes %s): the key material must stay, the accumulator must be cleared" % sorted(ws), where=rst.where(), key="rekey:poly1305::Poly1305::reset")
    vals = rules.last_write_values(P, rr, "finalized")
    ctx.check(vals <= {1, rules.UNSET} and 1 in vals, "mustset", "Poly1305::raw_result:finalized", "raw_result leaves finalized true", "raw_result can leave finalized false: %s" % vals, where=rr.where())


def check_blake2_mac(ctx, P, mod):
    T = "%s::%s" % (mod, mod.capitalize())
    Tn = T
    for tr in ("mac::Mac", "digest::Digest"):
        rst = objects.m(P, T, tr, "reset")
        # follow: reset -> reset_same_key -> reset_with_key(&self.key[..self.keylen])
        chain = []
        f = rst
        arg_ok = False
        for _ in range(3):
            cs = [c for c in f.calls() if c.local and c.name().startswith(T + "::")]
            if len(cs) != 1:
                break
            chain.append(cs[0].name().split("::")[-1])
            if cs[0].name().endswith("::reset_with_key"):
                w = rules.window(f, f.expr(cs[0].args[1]))
                # key window: self.key (or a copy of it) [..self.keylen]
                base_ok = False
                if w:
                    if w[0] == "arg1.key":
                        base_ok = True
                    else:
                        for l, nm in f.dbg.items():
                            if "v:" + nm == w[0] or "_%d" % l == w[0]:
                                base_ok = any(pred.canon(e, f) == "arg1.key" for b, e in rules.var_defs(f, l))
                        m_ = re.match(r"_(\d+)$", w[0])
                        if m_:
                            base_ok = base_ok or any(pred.canon(e, f) == "arg1.key" for b, e in rules.var_defs(f, int(m_.group(1))))
                arg_ok = bool(w) and base_ok and w[1] == ((), 0) and w[2] == ((("arg1.keylen", 1),), 0) and cn(f, cs[0].args[0]) == "arg1"
                break
            f = P.fn(cs[0].name())
        ctx.check(arg_ok, "rekey", "%s::%s::reset" % (T, tr.split("::")[-1]), "trait reset rekeys with the retained key: reset_with_key(&self.key[..self.keylen])", "<%s as %s>::reset does not reset with the key the object was created with (call chain %s): a keyed MAC silently becomes an unkeyed hash" % (T, tr, chain), where=rst.where(), key="rekey:%s::%s::reset" % (T, tr.split("::")[-1]))
    # key retained by new_keyed and reset_with_key
    for meth, keyarg in (("new_keyed", "arg2"), ("reset_with_key", "arg2")):
        fn = P.fn("%s::%s" % (T, meth))
        cps = [c for c in fn.calls() if c.name().endswith("copy_from_slice")]
        ok = len(cps) == 1 and cn(fn, cps[0].args[1]) == keyarg
        tgt = None
        if ok:
            w = rules.window(fn, fn.expr(cps[0].args[0]))
            ok = w is not None and w[1] == ((), 0) and w[2] == ((("len(%s)" % keyarg, 1),), 0)
            tgt = w[0] if w else None
            ok = ok and hashctx.zero_before(fn, tgt, cps[0].bb)
        if meth == "reset_with_key":
            ok = ok and tgt == "arg1.key"
            kl = [fn.rvalue_expr(rv) for b, i, names, rv in rules.field_writes(fn) if names == ["keylen"]]
            ok = ok and len(kl) == 1 and pred.lin(kl[0], fn) == ({"len(arg2)": 1}, 0)
            cs = fn.calls_to(r"ContextDyn::reset_with_key$")
            ok = ok and len(cs) == 1 and cn(fn, cs[0].args[0]) == "arg1.ctx" and cn(fn, cs[0].args[1]) == "arg2"
        else:
            agg = [s for b in sorted(fn.reachable()) for s in fn.stmts(b) if s[0] == "=" and s[2][0] == "agg" and s[2][1][0] == "adt" and s[2][1][1] == T]
            ok = ok and len(agg) == 1
            if ok:
                d = dict(zip(agg[0][2][1][4], [fn.expr(o) for o in agg[0][2][2]]))
                ok = d["key"][0] == "var" and hashctx.local_name(fn, d["key"][1]) == tgt and pred.lin(d["keylen"], fn) == ({"len(arg2)": 1}, 0) and d["computed"][:2] == ("const", 0)
                cs = fn.calls_to(r"ContextDyn::new_keyed$")
                ok = ok and len(cs) == 1 and cn(fn, cs[0].args[0]) == "arg1" and cn(fn, cs[0].args[1]) == "arg2"
        ctx.check(ok, "rekey", "%s::%s:retains-key" % (T, meth), "%s keeps (key, key.len()) for later trait resets and keys the context" % meth, "%s::%s does not retain the key it was given (zero-padded copy + length)" % (T, meth), where=fn.where(), key="rekey:%s::%s:retains-key" % (T, meth))
    # inherent reset(): documented unkeyed -> forgets the key
    fn = P.fn(T + "::reset")
    vals = rules.last_write_values(P, fn, "keylen")
    ctx.check(vals == {0}, "rekey", T + "::reset:forgets-key", "inherent reset() (documented: state after new()) forgets the retained key", "%s::reset() returns to the unkeyed state but keeps a stale key for later trait resets" % T, where=fn.where())
    # Mac result flag (shared helper finalize)
    rr = objects.m(P, T, "mac::Mac", "raw_result")
    vals = rules.last_write_values(P, rr, "computed")
    ctx.check(vals == {1}, "mustset", T + "::Mac::raw_result:computed", "computed == true after raw_result", "<%s as Mac>::raw_result does not set computed on every path: %s" % (T, vals), where=rr.where(), key="mustset:%s::Mac::raw_result:computed" % T)
    mi = objects.m(P, T, "mac::Mac", "input")
    ups = objects.engine_calls(P, mi, r"ContextDyn::update_mut$")
    ok = len(ups) == 1 and objects.flag_false_known(ups[0][0], ups[0][1].bb, "computed")
    ctx.check(ok, "flag-guard", T + "::Mac::input", "Mac::input requires !computed", "<%s as Mac>::input accepts data after the result" % T, where=mi.where(), key="flag-guard:%s::Mac::input" % T)


def check_blake2_object(ctx, P, mod):
    if not getattr(ctx, "_legacy_b2_shapes", False):
        ctx._legacy_b2_shapes = True
        ctx.guard("shape-eval", "legacy blake2 keys", lambda: hashctx.check_legacy_blake2_keys_shapes(ctx, P))
    """the legacy Blake2b / Blake2s object around its hashing context: constructors start un-finalised, the inherent reset
    returns to the state of new() on every path, the one-shot helper feeds the whole input and finalises into the caller's
    buffer, the reported MAC size is the context's digest size in bytes"""
    T = "%s::%s" % (mod, mod.capitalize())
    H = "hashing::%s::ContextDyn" % mod
    for ctor in ("new", "new_keyed"):
        fn = P.fn("%s::%s" % (T, ctor))
        aggs = [st for b in sorted(fn.reachable()) for st in fn.stmts(b) if st[0] == "=" and st[2][0] == "agg" and st[2][1][0] == "adt" and st[2][1][1] == T]
        ok = len(aggs) == 1
        if ok:
            d = dict(zip(aggs[0][2][1][4], [fn.expr(o) for o in aggs[0][2][2]]))
            comp = d.get("computed")
            ctxe = pred.short(d.get("ctx"), fn) if d.get("ctx") is not None else ""
            want = "ContextDyn::new(arg1)" if ctor == "new" else "ContextDyn::new_keyed(arg1,arg2)"
            ok = comp is not None and comp[:2] == ("const", 0) and ctxe == want
            if ctor == "new":
                kl = d.get("keylen")
                ok = ok and kl is not None and kl[:2] == ("const", 0)
        ctx.check(ok, "ctor", "%s::%s" % (T, ctor), "%s builds %s with the caller's parameters and starts with computed == false" % (ctor, H.split("::")[-1] + "::" + ctor), "%s::%s does not start un-finalised on the hashing context built from its own arguments" % (T, ctor), where=fn.where(), key="ctor:%s::%s" % (T, ctor))
    # inherent reset
    fn = P.fn(T + "::reset")
    rs = [c for c in fn.calls() if c.name() == H + "::reset"]
    ok = len(rs) == 1 and pred.canon(fn.expr(rs[0].args[0]), fn) == "arg1.ctx" and rules.every_ret_path_passes(fn, [rs[0].bb])
    vals = rules.last_write_values(P, fn, "computed")
    ok = ok and vals == {0}
    ctx.check(ok, "rekey", T + "::reset:state", "inherent reset() resets the hashing context and clears computed on every path", "%s::reset() does not return the object to the state of new() (context reset on every path, computed = false): computed in %s" % (T, vals), where=fn.where(), key="rekey:%s::reset:state" % T)
    # one-shot helper
    fn = P.fn("%s::%s" % (T, mod))
    up = [c for c in fn.calls() if c.name() == T + "::update"]
    fi = [c for c in fn.calls() if c.name() == T + "::finalize"]
    ok = len(up) == 1 and len(fi) == 1 and fn.dominates(up[0].bb, fi[0].bb) and rules.every_ret_path_passes(fn, [fi[0].bb]) and rules.every_ret_path_passes(fn, [up[0].bb])
    if ok:
        ok = pred.canon(fn.expr(up[0].args[1]), fn) == "arg2" and pred.canon(fn.expr(fi[0].args[1]), fn) == "arg1" and pred.canon(fn.expr(up[0].args[0]), fn) == pred.canon(fn.expr(fi[0].args[0]), fn)
    ctx.check(ok, "oneshot", "%s::%s" % (T, mod), "one-shot = update(input) then finalize(out) on one object, on every path", "%s::%s does not feed its whole input and finalise into the caller's buffer" % (T, mod), where=fn.where(), key="oneshot:%s::%s" % (T, mod))
    # Mac::output_bytes and Mac::result buffer size
    ob = objects.m(P, T, "mac::Mac", "output_bytes")
    e = pred.short(ob.local_expr(0), ob)
    ok = e in ("(ContextDyn::output_bits(arg1.ctx) Div 8)",)
    ctx.check(ok, "table", T + "::Mac::output_bytes", "output_bytes = output_bits / 8", "<%s as Mac>::output_bytes is not the digest size in bytes: %s" % (T, e), where=ob.where(), key="table:%s::Mac::output_bytes" % T)


def check_digest_defaults(ctx, P):
    """provided methods of the Digest trait: input_str feeds the string's bytes, output_bytes = ceil(bits / 8)"""
    fn = P.fn_opt("digest::Digest::input_str")
    if fn is None:
        ctx.lost("delegate", "Digest::input_str", "provided method not found")
        return
    cs = [c for c in fn.calls() if c.name().endswith("Digest::input") or c.name().endswith("::input")]
    ok = len(cs) == 1 and rules.every_ret_path_passes(fn, [cs[0].bb]) and pred.short(fn.expr(cs[0].args[1]), fn) in ("str::as_bytes(arg2)", "as_bytes(arg2)") and pred.canon(fn.expr(cs[0].args[0]), fn) == "arg1"
    ctx.check(ok, "delegate", "Digest::input_str", "input_str(s) = input(s.as_bytes())", "Digest::input_str does not feed the string's bytes to input: %s" % [pred.short(fn.expr(a), fn) for c in cs for a in c.args], where=fn.where(), key="delegate:Digest::input_str")
    ob = P.fn_opt("digest::Digest::output_bytes")
    if ob is not None:
        e = pred.short(ob.local_expr(0), ob)
        l, c = pred.lin(ob.local_expr(0), ob) if hasattr(pred, "lin") else ({}, 0)
        ok = e == "(lin{+1*Digest::output_bits(arg1)+7} Div 8)"
        ctx.check(ok, "table", "Digest::output_bytes", "output_bytes = (output_bits + 7) / 8", "Digest::output_bytes is not ceil(output_bits / 8): %s" % e, where=ob.where(), key="table:Digest::output_bytes")


def check_clone(ctx, P):
    for T in sorted(objects.LEGACY) + ["poly1305::Poly1305"]:
        adt = P.adts.get(T)
        imp = [i for i in P.impls if i.get("trait") == "core::clone::Clone" and i["self_ty"] == T]
        bad = [f["t"] for v in (adt or {"variants": []})["variants"] for f in v["fields"] if re.search(r"&|\*const|\*mut|Box<|Rc<|Arc<", f["t"])]
        ctx.check(adt is not None and len(imp) == 1 and imp[0]["derived"] and not bad, "clone", T, "Clone is derived; no shared indirection", "Clone for %s is not a derived deep copy" % T, where=adt["span"] if adt else None)


def run(ctx):
    P = ctx.prog("K0")
    types = objects.digest_impl_types(P)
    ctx.check(sorted(types) == sorted(objects.LEGACY), "floor", "legacy digest impls", "18 `impl Digest` types found, all in the rule table", "the set of `impl Digest` types changed: %s vs table %s — every digest object must be covered" % (sorted(set(types) - set(objects.LEGACY)), sorted(set(objects.LEGACY) - set(types))), key="floor:digest-impls")
    for T in sorted(objects.LEGACY):
        if T in types:
            ctx.guard("legacy", T, lambda: objects.check_legacy_digest(ctx, P, T, "C09"))
    ctx.guard("hmac", "Mac", lambda: objects.check_hmac_mac(ctx, P))
    # "behaves like a freshly constructed one with the same key": the stored i_key / o_key must be the RFC 2104 pads of
    # the key for every key length (a key of exactly one block is used as is, not hashed)
    ctx.guard("hmac-keys", "expand/derive/create", lambda: objects.check_hmac_keys(ctx, P))
    ctx.guard("poly1305", "Mac", lambda: check_poly1305(ctx, P))
    # "never return a value that is not the MAC": the Poly1305 arithmetic underneath the object (clamp, block identity, final
    # addition, limb bounds, buffering shapes) -- rule instances shared with C05
    from . import C05 as _C05
    ctx.guard("poly1305", "arithmetic", lambda: _C05.check_all(ctx, P))
    for mod in ("blake2b", "blake2s"):
        ctx.guard("blake2-mac", mod, lambda: check_blake2_mac(ctx, P, mod))
        ctx.guard("blake2-object", mod, lambda: check_blake2_object(ctx, P, mod))
    ctx.guard("delegate", "Digest defaults", lambda: check_digest_defaults(ctx, P))
    hashctx.check_all_blake2_keyed(ctx, P, which=("new_keyed", "reset_with_key", "reset"))
    macs = sorted({f.self_ty for f in P.fns.values() if f.impl_trait == "mac::Mac"})
    ctx.check(macs == ["blake2b::Blake2b", "blake2s::Blake2s", "hmac::Hmac<D>", "poly1305::Poly1305"], "floor", "Mac impls", "4 `impl Mac` types, all covered", "the set of `impl Mac` types changed: %s" % macs, key="floor:mac-impls")
    ctx.guard("clone", "objects", lambda: check_clone(ctx, P))
    # the digests underneath: padding position and zero fill, length fields, sponge padding (structural rules shared with C01)
    from . import C01 as _C01
    ctx.guard("padding", "standard_padding", lambda: _C01.check_standard_padding(ctx, P))
    ctx.guard("length-field", "md", lambda: _C01.check_length_fields(ctx, P))
    ctx.guard("sponge-pad", "sha3", lambda: _C01.check_sponge_pad(ctx, P))

    ctx.not_decided += ["digest and MAC values", "equality of reset state with constructor state beyond the fields listed (tier 2 field-by-field comparison for the non-BLAKE2 hashing contexts is in C02)"]
