"""C03 — ChaCha and Salsa families produce exactly the specified keystream.

Decided (structural, all inputs; K0 = default build with the SSE2 engine, K6 = portable engine):
  table      sigma/tau constants ("expand 32-byte k" / "expand 16-byte k", little-endian words) in
             both ChaCha engines and in Salsa's init, each tied to its key-length arm
  keydep     every engine's init loads the key into state words 4..11 (ChaCha) for BOTH key
             lengths, the 16-byte key twice; nonce words in the positions of the nonce length
  counter    IETF ChaCha / XChaCha advance a 32-bit counter with wrapping 32-bit arithmetic only
             (no overflow assert, no wider lane add), ChaChaOriginal and Salsa carry into the next
             word exactly when the low word wraps; set_counter writes word 12
  rounds     every constructor returns only for ROUNDS in {8,12,20} (const-generic sweep 0..=64);
             the round loop runs ROUNDS/2 double rounds; rotation amounts are {16,12,8,7} (ChaCha,
             both engines; SSE2 slli/srli pairs sum to 32) and {7,9,13,18} (Salsa)
  xvariant   XChaCha/XSalsa: init(key, nonce[0..16]) -> rounds -> output_ad_bytes with no add_back,
             engine instantiated with the SAME ROUNDS, stream state = init(subkey, nonce[16..24]);
             the subkey words are 0-3,12-15 (ChaCha) / 0,5,10,15,6,7,8,9 (Salsa)
  block-eq   every piece of every engine (portable, SSE2, Salsa) equals the specification AS A FUNCTION, by value
             graphs over symbolic inputs: init for every (key, nonce) length, rounds() for ROUNDS in {8,12,20}
             (quarter-round dataflow, rotation amounts, diagonalisation), add_back, output_bytes, the HChaCha /
             HSalsa word selection, set_counter, increment (32-bit wrap) and the 64-bit carry in both cases
Not decided: how the cipher contexts compose the verified pieces beyond the call-order / wiring rules."""
import re

from .. import mir, pred, rules
from ..mir import fmt, walk, const_val

EXPLANATION = __doc__
TECHNIQUE = "value-graph equality (abstract interpretation of MIR in a hash-consed term domain with AC / parity normal forms) of each engine piece with the specification, evaluated-constant tables vs. specification, const-generic sweep of guards, MIR wiring / call-order rules, rotation-constant census"

SIGMA = [int.from_bytes(b"expand 32-byte k"[4 * i:4 * i + 4], "little") for i in range(4)]
TAU = [int.from_bytes(b"expand 16-byte k"[4 * i:4 * i + 4], "little") for i in range(4)]


def cn(fn, op):
    return pred.canon(fn.expr(op), fn)


def check_tables(ctx, P, eng):
    for nm, want in (("CST16", TAU), ("CST32", SIGMA)):
        path = "chacha::%s::State::<ROUNDS>::%s" % (eng, nm)
        try:
            v = P.const(path)
        except mir.AnchorLost as e:
            ctx.lost("table", path, str(e))
            continue
        ctx.check(list(v) == want, "table", path, "%s = LE words of the RFC constant" % nm, "%s is not the little-endian words of \"expand %s-byte k\": %s" % (path, nm[3:], [hex(x) for x in v]), where=P.consts[path]["span"], key="table:%s" % path)


def key_arm_facts(fn, b):
    """key.len() value known on entry to block b (from the `match key.len()`), else None."""
    for a in pred.facts_at(fn, b):
        if a[0] == "eq" and a[1] == (("len(arg1)", 1),):
            return a[2]
    return None


def check_sse2_layout(ctx, P):
    E = "chacha::sse2::State::<ROUNDS>::"
    c16 = P.fn(E + "constant16")
    c32 = P.fn(E + "constant32")
    for fn, nm, want in ((c16, "CST16", TAU), (c32, "CST32", SIGMA)):
        ld = fn.calls_to(r"_mm_loadu_si128$")
        ok = len(ld) == 1 and any(x[0] == "kconst" and x[3] == tuple(want) for x in walk(fn.expr(ld[0].args[0]))) and ld[0].dest == [0, []]
        ctx.check(ok, "wire", fn.path, "%s() loads the words of %s" % (fn.name, nm), "%s does not load the constant words %s" % (fn.path, [hex(w) for w in want]), where=fn.where(), key="wire:%s" % fn.path)
    k16 = P.fn(E + "key16")
    k32 = P.fn(E + "key32")
    # key16: (constant16(), K, K) with K = loadu(key.as_ptr())
    ret = k16.local_expr(0)
    ok = ret[0] == "agg" and len(ret[2]) == 3
    if ok:
        c, a, b = ret[2]
        isK = lambda e: e[0] == "call" and e[1].endswith("_mm_loadu_si128") and pred.canon(e[2][0], k16) in ("core::slice::<impl [T]>::as_ptr(arg1)",)
        ok = c[0] == "call" and c[1].endswith("::constant16") and isK(a) and isK(b)
    ctx.check(ok, "keydep", "sse2::key16", "128-bit key: (tau, K, K) — the key is loaded into both key rows", "sse2::key16 does not return (constant16, key, key): %s" % fmt(ret), where=k16.where(), key="keydep:chacha::sse2::State::key16")
    ret = k32.local_expr(0)
    ok = ret[0] == "agg" and len(ret[2]) == 3
    if ok:
        c, a, b = ret[2]
        ca = pred.canon(a[2][0], k32) if a[0] == "call" and a[1].endswith("_mm_loadu_si128") else ""
        cb = pred.canon(b[2][0], k32) if b[0] == "call" and b[1].endswith("_mm_loadu_si128") else ""
        ok = c[0] == "call" and c[1].endswith("::constant32") and ca == "core::slice::<impl [T]>::as_ptr(arg1)" and re.search(r"::add\(core::slice::<impl \[T\]>::as_ptr\(arg1\),16\)$", cb) is not None
    ctx.check(ok, "keydep", "sse2::key32", "256-bit key: (sigma, key[0..16], key[16..32])", "sse2::key32 does not return (constant32, key[0..16], key[16..32]): %s" % fmt(ret), where=k32.where(), key="keydep:chacha::sse2::State::key32")
    init = P.fn(E + "init")
    arms = {}
    for c in init.calls():
        if c.name().endswith("::key16") or c.name().endswith("::key32"):
            arms[key_arm_facts(init, c.bb)] = (c.name().split("::")[-1], cn(init, c.args[0]))
    ctx.check(arms == {16: ("key16", "arg1"), 32: ("key32", "arg1")}, "wire", "sse2::init:arms", "key.len() 16 -> key16(key), 32 -> key32(key)", "sse2::init dispatches key lengths wrongly: %s" % arms, where=init.where(), key="wire:sse2::init:arms")
    agg = [s for b in sorted(init.reachable()) for s in init.stmts(b) if s[0] == "=" and s[2][0] == "agg" and s[2][1][0] == "adt"]
    ok = False
    if len(agg) == 1:
        names = agg[0][2][1][4]
        ops = [init.expr(o) for o in agg[0][2][2]]
        d = dict(zip(names, ops))
        def fld(e, i):
            return e[0] == "field" and e[2] == i and e[1][0] == "var"
        ok = fld(d["a"], 0) and fld(d["b"], 1) and fld(d["c"], 2) and d["d"][0] == "call" and d["d"][1].endswith("::nonce") and pred.canon(d["d"][2][0], init) == "arg2"
    ctx.check(ok, "wire", "sse2::init:rows", "rows a,b,c = the key tuple in order, d = nonce(nonce)", "sse2::init does not place (constants, key row 1, key row 2, nonce) in rows a..d", where=init.where(), key="wire:sse2::init:rows")
    # nonce(): lanes per nonce length
    nf = P.fn(E + "nonce")
    lanes = {}
    nlocal = None
    for c in nf.calls_to(r"Align128::zero$"):
        nlocal = c.dest[0]
    for b, idx, val in rules.array_stores(nf, nlocal) if nlocal is not None else []:
        nl = None
        for a in pred.facts_at(nf, b):
            if a[0] == "eq" and a[1] == (("len(arg1)", 1),):
                nl = a[2]
        w = None
        for x in walk(val):
            if x[0] == "call" and rules.INDEX_FN.search(x[1]):
                w = rules.window(nf, x)
        isle = any(x[0] == "call" and x[1].endswith("u32>::from_le_bytes") for x in walk(val))
        lanes.setdefault(nl, {})[idx] = (w[1][1], w[2][1]) if (w and w[0] == "arg1" and isle and w[2]) else None
    want = {12: {1: (0, 4), 2: (4, 8), 3: (8, 12)}, 8: {2: (0, 4), 3: (4, 8)}}
    ctx.check(lanes == want, "nonce-layout", "sse2::nonce", "IETF: words 13..15 = nonce LE, word 12 = 0; original: words 14,15 = nonce LE, 12,13 = 0", "sse2::nonce places nonce words wrongly: %s" % lanes, where=nf.where(), key="nonce-layout:sse2")
    full = [c for c in nf.calls_to(r"_mm_loadu_si128$")]
    ok = len(full) == 1 and pred.A("eq", 16, **{"len(arg1)": 1}) in pred.facts_at(nf, full[0].bb) and pred.canon(nf.expr(full[0].args[0]), nf) == "core::slice::<impl [T]>::as_ptr(arg1)"
    ctx.check(ok, "nonce-layout", "sse2::nonce:16", "16-byte nonce (HChaCha) fills all four words", "sse2::nonce does not load the full 16-byte nonce under len == 16", where=nf.where())


def check_reference_layout(ctx, P6):
    init = P6.fn("chacha::reference::State::<ROUNDS>::init")
    st = None
    for b in sorted(init.reachable()):
        for s in init.stmts(b):
            if s[0] == "=" and s[2][0] == "rep" and s[2][2] == 16 and not s[1][1]:
                st = s[1][0]
    if st is None:
        ctx.lost("keydep", "reference::init", "state array not found")
        return
    got = {}
    for b, idx, val in rules.array_stores(init, st):
        kl = nl = None
        for a in pred.facts_at(init, b):
            if a[0] == "eq" and a[1] == (("len(arg1)", 1),):
                kl = a[2]
            if a[0] == "eq" and a[1] == (("len(arg2)", 1),):
                nl = a[2]
            if a[0] == "ne" and a[1] == (("len(arg2)", 1),):
                nl = nl if nl is not None else ("not", a[2])
        src = None
        for x in walk(val):
            if x[0] == "call" and x[1] == "cryptoutil::read_u32_le":
                w = rules.window(init, x[2][0])
                if w and w[2]:
                    src = (w[0], w[1][1], w[2][1])
        if src is None:
            # constant word: CSTxx[i]
            for x in walk(val):
                if x[0] == "index" and x[1][0] == "kconst":
                    j = x[2][1] if x[2][0] == "const" else None
                    src = ((x[1][1] or "").split("::")[-1], j)
        got.setdefault(("k", kl) if idx is not None and idx < 12 else ("n", nl), {})[idx] = src
    want_k = {
        16: dict([(i, ("CST16", i)) for i in range(4)] + [(4 + i, ("arg1", 4 * (i % 4), 4 * (i % 4) + 4)) for i in range(8)]),
        32: dict([(i, ("CST32", i)) for i in range(4)] + [(4 + i, ("arg1", 4 * i, 4 * i + 4)) for i in range(8)]),
    }
    for kl in (16, 32):
        g = got.get(("k", kl), {})
        ctx.check(g == want_k[kl], "keydep", "chacha::reference::State::init:key%d" % (kl * 8), "words 0..3 constants, 4..11 key bytes LE (%d-byte key%s)" % (kl, " repeated" if kl == 16 else ""),
                  "portable engine: state words for a %d-byte key are wrong (missing / misplaced key words): %s" % (kl, {k: v for k, v in g.items() if want_k[kl].get(k) != v} or "missing %s" % sorted(set(want_k[kl]) - set(g))), where=init.where(), key="keydep:chacha::reference::State::init:%d" % kl)
    n16 = got.get(("n", 16), {})
    ctx.check(n16 == {12 + i: ("arg2", 4 * i, 4 * i + 4) for i in range(4)}, "nonce-layout", "reference:16", "16-byte nonce in words 12..15", "portable engine: 16-byte nonce layout wrong: %s" % n16, where=init.where(), key="nonce-layout:reference:16")
    n12 = got.get(("n", 12), {})
    ctx.check(n12 == {13 + i: ("arg2", 4 * i, 4 * i + 4) for i in range(3)}, "nonce-layout", "reference:12", "12-byte nonce in words 13..15 (word 12 = counter = 0)", "portable engine: 12-byte nonce layout wrong: %s" % n12, where=init.where(), key="nonce-layout:reference:12")
    rest = [v for k, v in got.items() if k[0] == "n" and k[1] not in (16, 12)]
    ok = len(rest) == 1 and rest[0] == {14: ("arg2", 0, 4), 15: ("arg2", 4, 8)}
    ctx.check(ok, "nonce-layout", "reference:8", "8-byte nonce in words 14,15 (words 12,13 = 64-bit counter = 0)", "portable engine: 8-byte nonce layout wrong: %s" % rest, where=init.where(), key="nonce-layout:reference:8")


def check_salsa_layout(ctx, P):
    init = P.fn("salsa20::State::<ROUNDS>::init")
    agg = [s for b in sorted(init.reachable()) for s in init.stmts(b) if s[0] == "=" and s[2][0] == "agg" and s[2][1][0] == "array" and len(s[2][2]) == 16]
    if len(agg) != 1:
        ctx.lost("keydep", "salsa::init", "16-word state aggregate not found")
        return
    words = [init.expr(o) for o in agg[0][2][2]]
    def src(e):
        for x in walk(e):
            if x[0] == "call" and x[1] == "cryptoutil::read_u32_le":
                w = rules.window(init, x[2][0])
                if w and w[2]:
                    return (w[0], w[1][1], w[2][1])
        return pred.canon(e, init)
    got = [src(w) for w in words]
    # locate the phi variables: constant (by key length), key_tail, x8/x9
    cvar = got[0][0]
    tvar = got[11][0]
    want = {0: (cvar, 0, 4), 5: (cvar, 4, 8), 10: (cvar, 8, 12), 15: (cvar, 12, 16), 1: ("arg1", 0, 4), 2: ("arg1", 4, 8), 3: ("arg1", 8, 12), 4: ("arg1", 12, 16),
            11: (tvar, 0, 4), 12: (tvar, 4, 8), 13: (tvar, 8, 12), 14: (tvar, 12, 16), 6: ("arg2", 0, 4), 7: ("arg2", 4, 8)}
    bad = {i: got[i] for i in want if got[i] != want[i]}
    ctx.check(not bad and cvar not in ("arg1", "arg2") and tvar != "arg2", "keydep", "salsa20::State::init", "Salsa20 matrix: constants on the diagonal, key words 1-4 and 11-14, nonce 6-7", "Salsa init matrix positions wrong: %s" % bad, where=init.where(), key="keydep:salsa20::State::init")
    # the diagonal constant is selected by key length; the key tail is key (16) or key[16..32] (32)
    def defs_by_keylen(varname):
        out = {}
        loc = None
        for l, nm in init.dbg.items():
            if "v:" + nm == varname:
                loc = l
        if loc is None and varname.startswith("_"):
            loc = int(varname[1:])
        if loc is None:
            return out
        for b, e in rules.var_defs(init, loc):
            kl = None
            for a in pred.facts_at(init, b):
                if a[0] == "eq" and a[1] == (("len(arg1)", 1),):
                    kl = a[2]
                if a[0] == "ne" and a[1] == (("len(arg1)", 1),) and a[2] == 16:
                    kl = 32
            out[kl] = e
        return out
    cd = defs_by_keylen(cvar)
    def bytes_of(e):
        for x in walk(e):
            if x[0] == "kconst" and isinstance(x[3], tuple) and len(x[3]) == 16:
                return bytes(x[3])
        return None
    okc = bytes_of(cd.get(16, ())) == b"expand 16-byte k" and bytes_of(cd.get(32, ())) == b"expand 32-byte k"
    ctx.check(okc, "table", "salsa20::State::init:constants", "16-byte key -> \"expand 16-byte k\", 32-byte key -> \"expand 32-byte k\"", "Salsa constants are not tied to the right key length: %s" % {k: bytes_of(v) for k, v in cd.items()}, where=init.where(), key="table:salsa20::State::init")
    td = defs_by_keylen(tvar)
    okt = False
    if set(td) == {16, 32}:
        w32 = rules.window(init, td[32])
        okt = pred.canon(td[16], init) == "arg1" and w32 is not None and w32[0] == "arg1" and w32[1] == ((), 16) and w32[2] == ((), 32)
    ctx.check(okt, "keydep", "salsa20::State::init:key_tail", "key tail = key (128-bit, repeated) or key[16..32]", "Salsa key tail selection wrong: %s" % {k: fmt(v) for k, v in td.items()}, where=init.where(), key="keydep:salsa20::State::init:tail")
    x8 = words[8]
    x9 = words[9]
    def phi_windows(e):
        out = {}
        if e[0] != "var":
            return out
        for b, d in rules.var_defs(init, e[1]):
            nl = None
            for a in pred.facts_at(init, b):
                if a[0] == "eq" and a[1] == (("len(arg2)", 1),):
                    nl = a[2]
                if a[0] == "ne" and a[1] == (("len(arg2)", 1),):
                    nl = "other"
            out[nl] = d
        return out
    tup = None
    for e in (x8,):
        # x8, x9 come from a tuple variable (x8, x9) = if nonce.len()==16 {...} else {(0,0)}
        base = e[1] if e[0] == "field" else e
        tup = phi_windows(base) if base[0] == "var" else {}
    ok89 = False
    if tup and set(tup) == {16, "other"}:
        a = tup[16]
        z = tup["other"]
        if a[0] == "agg" and z[0] == "agg":
            ok89 = [src(t) for t in a[2]] == [("arg2", 8, 12), ("arg2", 12, 16)] and [t[:2] for t in z[2]] == [("const", 0), ("const", 0)]
    ctx.check(ok89 and x8[0] == "field" and x8[2] == 0 and x9[0] == "field" and x9[2] == 1, "nonce-layout", "salsa:8/9", "words 8,9 = nonce[8..16] for HSalsa, else the zero counter", "Salsa words 8/9 (counter / HSalsa nonce tail) are wrong", where=init.where(), key="nonce-layout:salsa:8-9")


ARITH_OK_32 = re.compile(r"core::num::<impl u32>::(wrapping_add|overflowing_add)$|_mm_add_epi32$")
ARITH_ANY = re.compile(r"core::num::<impl u\d+>::\w*(add|sub|mul)\w*$|_mm\d*_(add|sub|adds|subs)_ep[iu]\d+$")


def _asserts(fn, kind_prefix):
    return [b for b in sorted(fn.reachable()) if fn.term(b)[0] == "assert" and fn.term(b)[3].startswith(kind_prefix)]


def check_counter_engine(ctx, P, eng_path, cfgname, is_salsa=False):
    E = eng_path + "::State::<ROUNDS>::"
    lo = 8 if is_salsa else 12
    incs = [("increment", 64 if is_salsa else 32)] + ([] if is_salsa else [("increment64", 64)])
    for nm, width in incs:
        fn = P.fn(E + nm)
        inst = "%s%s" % (E, nm)
        ov = _asserts(fn, "overflow")
        ctx.check(not ov, "counter-wrap", inst, "no overflow-checked arithmetic on the block counter", "%s uses overflow-checked arithmetic on the block counter: panics (or differs between profiles) when the counter word is 0xffffffff" % inst, where=fn.where(), key="counter-wrap:%s" % inst)
        ar = [c.name() for c in fn.calls() if ARITH_ANY.search(c.name())]
        bad = [a for a in ar if not ARITH_OK_32.search(a) and not (width == 64 and a.endswith("_mm_add_epi64"))]
        ctx.check(ar and not bad, "counter-width", inst, "counter arithmetic is 32-bit modular word arithmetic", "%s advances the counter with %s (not 32-bit wrapping word arithmetic): a carry leaves the 32-bit counter word" % (inst, bad or "no recognised add"), where=fn.where(), key="counter-width:%s" % inst)
        # which words are written
        if "sse2" in eng_path:
            al = None
            for c in fn.calls_to(r"Align128::zero$"):
                al = c.dest[0]
            stores = rules.array_stores(fn, al) if al is not None else []
            base = 0
        else:
            stores = []
            for b in sorted(fn.reachable()):
                for s in fn.stmts(b):
                    if s[0] == "=" and rules.self_field_of_place(s[1]) == ["state", "[]"]:
                        stores.append((b, rules.const_index(fn, s[1][1][-1]), fn.rvalue_expr(s[2])))
            base = lo
        idxs = sorted({i for b, i, v in stores})
        if width == 32:
            ok = idxs == [base]
            for b, i, v in stores:
                ok = ok and v[0] == "call" and v[1].endswith("u32>::wrapping_add") and v[2][1][:2] == ("const", 1) and b not in fn.loop_blocks()
            ctx.check(ok, "counter-step", inst, "word %d := word %d + 1 (mod 2^32), nothing else" % (lo, lo), "%s does not advance exactly counter word %d by one modulo 2^32 (writes words %s)" % (inst, lo, [lo - base + i if i is not None else None for i in idxs]), where=fn.where(), key="counter-step:%s" % inst)
        else:
            ok = idxs == [base, base + 1]
            hi = [(b, v) for b, i, v in stores if i == base + 1]
            lows = [(b, v) for b, i, v in stores if i == base]
            # high word incremented only under "low wrapped"
            okhi = len(hi) == 1 and hi[0][1][0] == "call" and hi[0][1][1].endswith("u32>::wrapping_add") and hi[0][1][2][1][:2] == ("const", 1)
            guard = False
            if okhi:
                for e, v, o in fn.edge_facts(hi[0][0]):
                    s = fmt(e)
                    if v is True and e[0] == "field" and e[2] == 1 and any(x[0] == "call" and x[1].endswith("u32>::overflowing_add") for x in walk(e)):
                        guard = True
                    at = pred.atoms_of(e, v, fn)
                    if at and at[0][0] == "eq" and at[0][2] == 0 and len(at[0][1]) == 1:
                        guard = True  # `if low == 0` after the wrapping increment
            ctx.check(ok and okhi and guard and len(lows) >= 1, "counter-step", inst, "64-bit counter: low word +1 mod 2^32, high word +1 exactly when the low word wrapped", "%s does not carry into word %d exactly when word %d wraps" % (inst, lo + 1, lo), where=fn.where(), key="counter-step:%s" % inst)
    if not is_salsa:
        fn = P.fn(E + "set_counter")
        if "sse2" in eng_path:
            al = None
            for c in fn.calls_to(r"Align128::zero$"):
                al = c.dest[0]
            stores = rules.array_stores(fn, al) if al is not None else []
            ok = [(i, pred.canon(v, fn)) for b, i, v in stores] == [(0, "arg2")]
        else:
            stores = [(rules.const_index(fn, s[1][1][-1]), pred.canon(fn.rvalue_expr(s[2]), fn)) for b in sorted(fn.reachable()) for s in fn.stmts(b) if s[0] == "=" and rules.self_field_of_place(s[1]) == ["state", "[]"]]
            ok = stores == [(12, "arg2")]
        ctx.check(ok, "counter-step", E + "set_counter", "set_counter writes word 12 only", "%sset_counter does not write exactly counter word 12" % E, where=fn.where(), key="counter-step:%sset_counter" % E)


def check_cipher_counter_wiring(ctx, P):
    want = {"chacha20::ChaCha": "increment", "chacha20::XChaCha": "increment", "chacha20::ChaChaOriginal": "increment64", "salsa20::Salsa": "increment", "salsa20::XSalsa": "increment"}
    for T, inc in want.items():
        fn = P.fn(T + "::<ROUNDS>::update")
        got = [c.name().split("::")[-1] for c in fn.calls() if re.search(r"State::<ROUNDS>::increment(64)?$", c.name())]
        ctx.check(got == [inc], "counter-wire", T, "%s advances its counter with %s" % (T, inc), "%s::update uses %s instead of %s (wrong counter width for this variant)" % (T, got, inc), where=fn.where(), key="counter-wire:%s" % T)


def check_rounds_guards(ctx, P):
    ctors = ["chacha20::ChaCha", "chacha20::XChaCha", "chacha20::ChaChaOriginal", "salsa20::Salsa", "salsa20::XSalsa"]
    for T in ctors:
        fn = P.fn(T + "::<ROUNDS>::new")
        acc = rules.accepted_param_values(fn, "ROUNDS", range(0, 65))
        ctx.check(acc == [8, 12, 20], "rounds-guard", T + "::new", "constructor returns only for ROUNDS in {8,12,20} (sweep 0..=64)", "%s::new accepts ROUNDS in %s" % (T, acc), where=fn.where(), key="rounds-guard:%s" % T)
    for path in ["chacha20poly1305::Context::<ROUNDS>::new", "drg::chacha::Drg::<ROUNDS>::new"]:
        fn = P.fn(path)
        cs = fn.calls_to(r"chacha20::ChaCha::<ROUNDS>::new$")
        ctx.check(len(cs) == 1 and cs[0].res_ga == ["ROUNDS"] and rules.every_ret_path_passes(fn, [cs[0].bb]), "rounds-guard", path, "goes through ChaCha::<ROUNDS>::new", "%s does not construct its cipher through ChaCha::<ROUNDS>::new" % path, where=fn.where())


def check_round_loops(ctx, P, eng_path, want_rots):
    fn = P.fn(eng_path + "::State::<ROUNDS>::rounds")
    loops = rules.iter_loops(fn)
    ok = len(loops) == 1 and ("range", ("0", "(P:ROUNDS Div 2)")) in loops[0]["sources"] and not loops[0]["early_exits"]
    ctx.check(ok, "round-count", eng_path, "one loop over 0..ROUNDS/2 (double rounds)", "%s::rounds does not run exactly ROUNDS/2 double rounds: %s" % (eng_path, [l["sources"] for l in loops]), where=fn.where(), key="round-count:%s" % eng_path)
    if "sse2" in eng_path:
        sl = []
        sr = []
        for c in fn.calls():
            if c.name().endswith("_mm_slli_epi32"):
                sl.append(int(c.ga[0]))
            elif c.name().endswith("_mm_srli_epi32"):
                sr.append(int(c.ga[0]))
        pairs_ok = len(sl) == len(sr) and all(a + b == 32 for a, b in zip(sl, sr))
        rots = sorted(sl)
        ctx.check(pairs_ok and rots == sorted(want_rots * 2), "rotations", eng_path, "left-rotations {16,12,8,7} per round, slli/srli pairs sum to 32", "SSE2 ChaCha rotation amounts wrong: slli %s srli %s" % (sl, sr), where=fn.where(), key="rotations:%s" % eng_path)
        sh = sorted(int(c.ga[0]) for c in fn.calls() if c.name().endswith("_mm_shuffle_epi32"))
        ctx.check(sh == sorted([0b00111001, 0b01001110, 0b10010011] * 2), "rotations", eng_path + ":diagonalise", "lane rotations by 1,2,3 and back", "SSE2 ChaCha diagonalisation shuffles wrong: %s" % sh, where=fn.where(), key="rotations:%s:shuffle" % eng_path)
    else:
        rc = rules.rotation_census(fn)
        rl = sorted((32 - r) % 32 for r in rc if isinstance(r, int))
        ctx.check(len(rl) == len(rc) and rl == sorted(want_rots * 8), "rotations", eng_path, "8 quarter rounds per double round with left-rotations %s" % want_rots, "%s quarter-round rotation amounts wrong: %s" % (eng_path, rl), where=fn.where(), key="rotations:%s" % eng_path)


def check_xvariant(ctx, P, T, eng, nonce_ty_len=24):
    fn = P.fn(T + "::<ROUNDS>::new")
    E = re.escape(eng) + r"::State::<ROUNDS>::"
    seq = [E + "init$", E + "rounds$", E + "output_ad_bytes$", E + "init$"]
    mn, _ = rules.call_sequence_min_progress(fn, seq)
    ctx.check(mn == 4, "hcore-order", T, "init(key, nonce[0..16]) -> rounds -> output_ad_bytes -> init(subkey, nonce[16..24])", "%s::new does not derive the subkey as init, rounds, output_ad_bytes, init (progress %d/4)" % (T, mn), where=fn.where(), key="hcore-order:%s" % T)
    ab = fn.calls_to(E + "add_back$")
    ctx.check(not ab, "hcore-order", T + ":no-add_back", "no feed-forward in the H-core", "%s::new applies add_back in the subkey derivation (HChaCha/HSalsa have no feed-forward)" % T, where=fn.where(), key="hcore-order:%s:add_back" % T)
    calls = [c for c in fn.calls() if re.search(E, c.name())]
    bad = [(c.name().split("::")[-1], c.res_ga) for c in calls if c.res_ga != ["ROUNDS"]]
    ctx.check(not bad, "hcore-rounds", T, "the H-core uses the engine instantiated with the cipher's own ROUNDS", "%s::new instantiates the engine with %s instead of its own ROUNDS parameter" % (T, bad), where=fn.where(), key="hcore-rounds:%s" % T)
    inits = fn.calls_to(E + "init$")
    if len(inits) == 2:
        w0 = rules.window(fn, fn.expr(inits[0].args[1]))
        w1 = rules.window(fn, fn.expr(inits[1].args[1]))
        k0 = rules.window(fn, fn.expr(inits[0].args[0]))
        ctx.check(k0 and k0[0] == "arg1" and w0 == ("arg2", ((), 0), ((), 16)) and w1 == ("arg2", ((), 16), ((), 24)), "hcore-wire", T + ":nonce-split", "H-core nonce = nonce[0..16], stream nonce = nonce[16..24]", "%s::new splits the 24-byte nonce wrongly: %s / %s" % (T, w0, w1), where=fn.where(), key="hcore-wire:%s:nonce" % T)
        oad = fn.calls_to(E + "output_ad_bytes$")
        rds = fn.calls_to(E + "rounds$")
        ok = len(oad) == 1 and len(rds) == 1
        if ok:
            sub = aead_local(fn, oad[0].args[1])
            k1 = aead_local(fn, inits[1].args[0])
            h0 = aead_local(fn, oad[0].args[0])
            r0 = aead_local(fn, rds[0].args[0])
            ok = sub is not None and sub == k1 and h0 == r0 == inits[0].dest[0]
        ctx.check(ok, "hcore-wire", T + ":subkey", "the stream engine is keyed with the H-core output of the rounds-processed state", "%s::new does not key the stream engine with the H-core output" % T, where=fn.where(), key="hcore-wire:%s:subkey" % T)
    else:
        ctx.lost("hcore-wire", T, "expected two engine init calls")


def aead_local(fn, op):
    e = fn.expr(op)
    while isinstance(e, tuple) and e[0] in ("ref", "cast", "deref"):
        e = e[2] if e[0] in ("ref", "cast") else e[1]
    return e[1] if e[0] == "var" else None


def check_output_ad(ctx, P, P6):
    fn = P.fn("chacha::sse2::State::<ROUNDS>::output_ad_bytes")
    st = fn.calls_to(r"_mm_storeu_si128$")
    got = []
    for c in st:
        dst = pred.canon(fn.expr(c.args[0]), fn)
        off = 0
        m = re.search(r"::add\((.*),(\d+)\)$", dst)
        if m:
            off = int(m.group(2))
        got.append((off, pred.canon(fn.expr(c.args[1]), fn)))
    ctx.check(sorted(got) == [(0, "arg1.a"), (1, "arg1.d")], "hcore-words", "sse2::output_ad_bytes", "HChaCha output = rows a (words 0-3) and d (words 12-15)", "sse2 output_ad_bytes does not emit rows a and d in this order: %s" % got, where=fn.where(), key="hcore-words:sse2")
    if P6 is not None:
        fn = P6.fn("chacha::reference::State::<ROUNDS>::output_ad_bytes")
        got = []
        for c in fn.calls_to(r"cryptoutil::write_u32v_le$"):
            wd = rules.window(fn, fn.expr(c.args[0]))
            ws = rules.window(fn, fn.expr(c.args[1]))
            got.append((wd, ws))
        want = [(("arg2", ((), 0), ((), 16)), ("arg1.state", ((), 0), ((), 4))), (("arg2", ((), 16), ((), 32)), ("arg1.state", ((), 12), ((), 16)))]
        ctx.check(sorted(got) == sorted(want), "hcore-words", "reference::output_ad_bytes", "HChaCha output = words 0-3 then 12-15", "portable output_ad_bytes emits the wrong words: %s" % got, where=fn.where(), key="hcore-words:reference")
    fn = P.fn("salsa20::State::<ROUNDS>::output_ad_bytes")
    got = {}
    for c in fn.calls_to(r"cryptoutil::write_u32_le$"):
        wd = rules.window(fn, fn.expr(c.args[0]))
        v = fn.expr(c.args[1])
        idx = None
        for x in walk(v):
            if x[0] == "index" and x[2][0] == "const":
                idx = x[2][1]
        if wd and wd[2]:
            got[wd[1][1] // 4] = idx
    ctx.check(got == dict(enumerate([0, 5, 10, 15, 6, 7, 8, 9])), "hcore-words", "salsa::output_ad_bytes", "HSalsa output = words 0,5,10,15,6,7,8,9", "Salsa output_ad_bytes emits the wrong words: %s" % got, where=fn.where(), key="hcore-words:salsa")


def run(ctx):
    P = ctx.prog("K0")
    P6 = None
    try:
        P6 = ctx.prog("K6")
    except Exception as e:  # portable configuration must type-check (C16 decides that); here: fail closed
        ctx.fail("R-BUILD", "K6", "portable ChaCha engine configuration does not type-check: %s" % str(e)[:300], key="build:K6")
    check_tables(ctx, P, "sse2")
    ctx.guard("keydep", "sse2", lambda: check_sse2_layout(ctx, P))
    ctx.guard("keydep", "salsa", lambda: check_salsa_layout(ctx, P))
    ctx.guard("counter", "sse2", lambda: check_counter_engine(ctx, P, "chacha::sse2", "K0"))
    ctx.guard("counter", "salsa", lambda: check_counter_engine(ctx, P, "salsa20", "K0", is_salsa=True))
    ctx.guard("counter-wire", "ciphers", lambda: check_cipher_counter_wiring(ctx, P))
    ctx.guard("rounds-guard", "ctors", lambda: check_rounds_guards(ctx, P))
    ctx.guard("round-count", "sse2", lambda: check_round_loops(ctx, P, "chacha::sse2", [16, 12, 8, 7]))
    ctx.guard("round-count", "salsa", lambda: check_round_loops(ctx, P, "salsa20", [7, 9, 13, 18]))
    ctx.guard("hcore", "XChaCha", lambda: check_xvariant(ctx, P, "chacha20::XChaCha", "chacha::sse2"))
    ctx.guard("hcore", "XSalsa", lambda: check_xvariant(ctx, P, "salsa20::XSalsa", "salsa20"))
    if P6 is not None:
        check_tables(ctx, P6, "reference")
        ctx.guard("keydep", "reference", lambda: check_reference_layout(ctx, P6))
        ctx.guard("counter", "reference", lambda: check_counter_engine(ctx, P6, "chacha::reference", "K6"))
        ctx.guard("round-count", "reference", lambda: check_round_loops(ctx, P6, "chacha::reference", [16, 12, 8, 7]))
        ctx.guard("hcore", "XChaCha/K6", lambda: check_xvariant(ctx, P6, "chacha20::XChaCha", "chacha::reference"))
    ctx.guard("hcore-words", "all", lambda: check_output_ad(ctx, P, P6))
    # the counter a seek sets is only effective if the cached keystream block is invalidated with it (rule shared with C04)
    from . import C04 as _C04
    for T, incpat, has_seek in _C04.CIPHERS:
        if has_seek:
            ctx.guard("mustset", T + "::seek", lambda T=T: _C04.check_seek(ctx, P, T))
    # every piece of every engine's block function against the specification, as value graphs (cxsa/props/arx.py)
    from . import arx
    got = []
    progs_ = {"K0": P}
    if P6 is not None:
        progs_["K6"] = P6
    for k_ in ("K3", "K5"):
        try:
            progs_[k_] = ctx.prog(k_)
        except Exception:
            pass
    ctx.guard("block-eq", "engines", lambda: got.append(arx.check_engines(ctx, progs_)))
    want = (44 if P6 is not None else 28) + 16 * len([k_ for k_ in ("K3", "K5") if k_ in progs_])
    ctx.check(got == [want], "floor", "block-eq", "%d engine pieces (portable, SSE2 default / +sse4.1 / +avx2 builds, Salsa: init / rounds / add_back / output / counter cases) compared with the specification" % want, "only %s engine pieces were compared with the specification (expected %d)" % (got, want), key="floor:block-eq")
    ctx.not_decided += ["composition of the verified pieces into the keystream by the cipher contexts beyond the call-order / wiring rules (update: clone, rounds, add_back, output_bytes, increment)"]
