"""Rule `bounds` for Poly1305 (shared by C05, C06, C20): the limb representation invariant, as an interval abstract
interpretation of the MIR terms (cxsa/bounds.py).

  r-bounds    Poly1305::new clamps r: each 26-bit limb is bounded by its clamp mask (read off the term, not assumed)
  inductive   I = (bounds of h[0..5]) is the least fixpoint of   I := I  join  block(I, r, any 16 message bytes, hibit)
              starting from h = 0 (new / reset): the invariant every reachable context satisfies, for every history
  no-overflow under I and the r bounds no overflow assert inside block or finish can fire (debug and release builds
              compute the same value), the u64 carries fit the u32 they are narrowed to
  digits      in finish, after the full carry (trace-partitioned on the single-bit carries), every limb is a true
              radix-2^26 digit at the point where the limbs are repacked with `a | (b << k)`: the OR is an addition
              only if a < 2^k
"""
import re

from .. import ssa, bounds

R_MASKS = None


def _leaf_factory(ih, rb):
    def leaf(t):
        if t[0] == "load":
            m = re.match(r"^arg1\.h\[(\d)\]$", t[1])
            if m:
                return ih[int(m.group(1))]
            m = re.match(r"^arg1\.r\[(\d)\]$", t[1])
            if m:
                return rb[int(m.group(1))]
            m = re.match(r"^arg1\.pad\[(\d)\]$", t[1])
            if m:
                return (0, (1 << 32) - 1)
            if t[1] == "arg1.finalized":
                return (0, 1)
            if t[1] == "arg1.leftover":
                return (0, 16)
        if t[0] == "elem":
            return (0, 255)
        return None
    return leaf


def _masked_casts(roots):
    """narrowing casts that are immediately masked (`d as u32 & 0x3ffffff`): intended truncations"""
    ex = set()
    seen, order = set(), []
    for r in roots:
        bounds.subterms(r, seen, order)
    for t in order:
        if t[0] == "bin" and t[1] == "BitAnd":
            for x, m in ((t[2], t[3]), (t[3], t[2])):
                if ssa.is_c(m) and isinstance(x, tuple) and x and x[0] == "cast":
                    ex.add(x)
    return ex


def check(ctx, P, rule="bounds"):
    T = "poly1305::Poly1305"
    new = P.fn(T + "::new")
    blk = P.fn(T + "::block")
    fin = P.fn(T + "::finish")
    inl = lambda n: n.endswith("::mul64") or n.endswith("read_u32_le")
    # ---- r bounds from the constructor
    rn = ssa.Eval(P, new, inline=inl).run()
    ret = rn.ret
    rb = None
    if isinstance(ret, ssa.Agg) and isinstance(ret.get("r"), ssa.Agg):
        ev = bounds.Iv(lambda t: (0, 255) if t[0] == "elem" else None)
        rb = [ev.iv(ret["r"].get_elem(i)) for i in range(5)]
        h0 = [ev.iv(ret["h"].get_elem(i)) for i in range(5)] if isinstance(ret.get("h"), ssa.Agg) else None
    ok = rb is not None and all(b[0] == 0 and b[1] < (1 << 26) for b in rb) and h0 == [(0, 0)] * 5
    ctx.check(ok, rule, "new:r-bounds", "r limbs bounded by %s, h = 0" % ([hex(b[1]) for b in rb] if rb else None), "Poly1305::new does not produce clamped 26-bit limbs of r and a zero accumulator: r in %s, h in %s" % (rb, h0 if rb else None), where=new.where(), key="%s:new:r-bounds" % rule)
    if not ok:
        return
    # ---- inductive invariant of block
    rb_ = ssa.Eval(P, blk, inline=inl).run()
    outs = [rb_.mem_at_ret.get("arg1.h[%d]" % i) for i in range(5)]
    if any(o is None for o in outs):
        ctx.fail(rule, "block:inductive", "block does not write all five limbs of h", where=blk.where(), key="%s:block:inductive" % rule)
        return
    ex = _masked_casts(outs)
    ih = [(0, 0)] * 5
    stable = False
    for it in range(12):
        ev = bounds.Iv(_leaf_factory(ih, rb), ops_exempt=lambda t: t in ex)
        nb = [ev.iv(o) for o in outs]
        j = [(min(a[0], b[0]), max(a[1], b[1])) for a, b in zip(ih, nb)]
        if j == ih:
            stable = True
            break
        ih = j
    fails = bounds.assert_failures(rb_, ev) if stable else []
    wr = [w for w in ev.wraps]
    okb = stable and not fails and not wr
    ctx.check(okb, rule, "block:inductive", "h limbs stay within %s for every history (fixpoint after %d rounds); %d overflow asserts discharged, the u64 carries fit u32" % ([bounds.fmt_iv(b) for b in ih], it + 1, len([a for a in rb_.asserts if a[1].startswith("overflow:")])),
              "Poly1305::block does not keep the accumulator limbs bounded / free of overflow: invariant %s%s; undischarged: %s; wrapping operations: %s" % ([bounds.fmt_iv(b) for b in ih], "" if stable else " (not stable)", [(f[1], bounds.fmt_iv(f[2]) if f[2] else None, f[3]) for f in fails[:3]], [(w[0], bounds.fmt_iv(w[2]), w[3]) for w in wr[:3]]),
              where=blk.where(), key="%s:block:inductive" % rule)
    if not okb:
        return
    # ---- finish: no overflow, and true digits at the repack
    rf = ssa.Eval(P, fin, inline=inl).run()
    fouts = [rf.mem_at_ret.get("arg1.h[%d]" % i) for i in range(4)]
    if any(o is None for o in fouts):
        ctx.fail(rule, "finish:digits", "finish does not write h[0..4]", where=fin.where(), key="%s:finish:digits" % rule)
        return
    packs = []
    seen, order = set(), []
    for o in fouts:
        bounds.subterms(o, seen, order)
    for t in order:
        if t[0] == "bin" and t[1] == "BitOr":
            for x, y in ((t[2], t[3]), (t[3], t[2])):
                if isinstance(y, tuple) and y[0] == "bin" and y[1] == "Shl" and ssa.is_c(y[3]) and not (isinstance(x, tuple) and x[0] == "bin" and x[1] == "Shl"):
                    packs.append((t, x, y[3][1]))
    leaf = _leaf_factory(ih, rb)
    nparts = 0
    worst = {}
    bad = []
    afail = []
    for ev in bounds.partitions(fouts, leaf, maxsplits=10):
        nparts += 1
        for (t, x, k) in packs:
            v = ev.iv(x)
            if v[1] >= (1 << k):
                bad.append((k, v))
            worst[k] = max(worst.get(k, 0), v[1])
        afail += bounds.assert_failures(rf, ev)
    okf = len(packs) == 4 and nparts >= 1 and not bad and not afail
    ctx.check(okf, rule, "finish:digits", "%d repack sites `a | (b << k)` have a < 2^k in all %d carry cases (max %s); no overflow assert can fire" % (len(packs), nparts, {k: bounds.fmt_iv((0, v)) for k, v in sorted(worst.items())}),
              "Poly1305::finish repacks limbs that are not reduced radix-2^26 digits (a carry is lost or left unpropagated): %d repack sites, offending (shift, interval of the low part): %s; undischarged overflow asserts: %s" % (len(packs), [(k, bounds.fmt_iv(v)) for k, v in bad[:4]], [(f[1], bounds.fmt_iv(f[2]) if f[2] else None) for f in afail[:3]]),
              where=fin.where(), key="%s:finish:digits" % rule)


def check_identity(ctx, P, rule="poly-identity"):
    """The accumulator arithmetic as polynomial identities (limb-polynomial normal form, carries as cancelling symbols):

      block    sum(h'_i 2^(26 i)) == (sum((h_i + m_i) 2^(26 i))) * (sum(r_i 2^(26 i)))   modulo 2^130 - 5
               over the limb symbols h_i, r_i and the message-limb terms m_i: every product lands on the right limb, the
               wrap-around products carry the factor 5, every carry is added one limb up and removed below
      finish   the 128-bit result  sum(out_i 2^(32 i)) == sum(L_j 2^(26 j)) + sum(pad_i 2^(32 i))   modulo 2^128
               over the selected limbs L_j that are repacked and the pad words: every inter-word carry of the final
               addition is propagated (narrowing casts are modelled exactly)"""
    from .. import limbpoly, intern
    from ..poly import Poly
    T = "poly1305::Poly1305"
    blk = P.fn(T + "::block")
    fin = P.fn(T + "::finish")
    inl = lambda n: n.endswith("::mul64") or n.endswith("read_u32_le")
    # ---------------- block
    rb_ = ssa.Eval(P, blk, inline=inl).run()
    intern.Interner().canon_result(rb_)
    outs = [rb_.mem_at_ret.get("arg1.h[%d]" % i) for i in range(5)]
    if any(o is None for o in outs):
        ctx.fail(rule, "block", "block does not write all five limbs of h", where=blk.where(), key="%s:block" % rule)
    else:
        # message limbs: the maximal sub-terms built from the 16 message bytes (and the hibit) only
        memo = {}

        def pure_msg(t):
            """True if t depends on message bytes / constants / the finalized flag only, and on at least one message byte"""
            r = memo.get(t)
            if r is None:
                if not isinstance(t, tuple) or not t:
                    r = (True, False)
                elif t[0] in ("ld", "pack"):
                    r = (True, True)
                elif t[0] == "load":
                    r = (t[1] == "arg1.finalized", False)
                elif t[0] == "c":
                    r = (True, False)
                elif t[0] == "elem":
                    r = (True, True)
                else:
                    ok, has = True, False
                    for x in t[1:]:
                        if isinstance(x, tuple):
                            a, b = pure_msg(x)
                            ok = ok and a
                            has = has or b
                    r = (ok, has)
                memo[t] = r
            return r
        msyms = {}

        def opaque(t):
            a, b = pure_msg(t)
            if a and b:
                if t not in msyms:
                    msyms[t] = "m_%d" % len(msyms)
                return msyms[t]
            return None

        def leaf(t):
            if t[0] == "load":
                m = re.match(r"^arg1\.(h|r)\[(\d)\]$", t[1])
                if m:
                    return "%s_%s" % (m.group(1), m.group(2))
            return None
        LP = limbpoly.LimbPoly(leaf, opaque=opaque)
        tot = Poly()
        for i, o in enumerate(outs):
            tot = tot + LP.val(o) * (1 << (26 * i))
        # which message symbol is added to which limb: read off the five sums h_i + m_j in the products
        # (the bit positions of the m_j are decided by the msg-limbs rule of C05; here they are symbols)
        PM = (1 << 130) - 5
        R = Poly()
        for i in range(5):
            R = R + Poly.var("r_%d" % i) * (1 << (26 * i))
        # pair message symbols with limbs by solving: the identity must hold for SOME assignment m_(sigma(i)) -> limb i
        names = sorted(msyms.values(), key=lambda s_: int(s_[2:]))
        ok = False
        why = "found %d message-limb terms (expected 5)" % len(names)
        if len(names) == 5 and not LP.unknown:
            import itertools
            for perm in itertools.permutations(range(5)):
                Hm = Poly()
                for i in range(5):
                    Hm = Hm + (Poly.var("h_%d" % i) + Poly.var(names[perm[i]])) * (1 << (26 * i))
                if not (tot - Hm * R).mod(PM):
                    ok = True
                    break
            if not ok:
                Hm = Poly()
                for i in range(5):
                    Hm = Hm + (Poly.var("h_%d" % i) + Poly.var(names[i])) * (1 << (26 * i))
                why = "residue %s" % (tot - Hm * R).mod(PM).show()[:200]
        elif LP.unknown:
            why = "unrecognised operation %s" % str(LP.unknown[0])[:100]
        ctx.check(ok, rule, "block", "h' == (h + m) * r (mod 2^130 - 5) as a polynomial identity over limb symbols; %d carry symbols cancel" % len(LP.qnames),
                  "Poly1305::block does not compute (h + m) * r modulo 2^130 - 5: %s (a carry is dropped, masked away or added to the wrong limb, or a wrap-around product lacks the factor 5)" % why, where=blk.where(), key="%s:block" % rule)
    # ---------------- finish: the final addition modulo 2^128
    rf = ssa.Eval(P, fin, inline=inl).run()
    intern.Interner().canon_result(rf)
    fouts = [rf.mem_at_ret.get("arg1.h[%d]" % i) for i in range(4)]
    if any(o is None for o in fouts):
        ctx.fail(rule, "finish", "finish does not write h[0..4]", where=fin.where(), key="%s:finish" % rule)
        return
    # the repacked limbs: operands of  a | (b << k)  (a possibly shifted right)
    seen, order = set(), []
    for o in fouts:
        bounds.subterms(o, seen, order)
    limbs = []

    def strip(t):
        while isinstance(t, tuple) and t and t[0] == "cast":
            t = t[1]
        return t
    for t in order:
        if t[0] == "bin" and t[1] == "BitOr":
            for x, y in ((t[2], t[3]), (t[3], t[2])):
                if isinstance(y, tuple) and y[0] == "bin" and y[1] == "Shl" and ssa.is_c(y[3]) and not (isinstance(x, tuple) and x[0] == "bin" and x[1] == "Shl"):
                    lo = strip(x)
                    if lo[0] == "bin" and lo[1] == "Shr" and ssa.is_c(lo[3]):
                        lo = strip(lo[2])
                    hi = strip(y[2])
                    for l in (lo, hi):
                        if l not in limbs:
                            limbs.append(l)
    lsym = {l: "L_%d" % i for i, l in enumerate(limbs)}

    def leaf2(t):
        if t[0] == "load":
            m = re.match(r"^arg1\.pad\[(\d)\]$", t[1])
            if m:
                return "p_%s" % m.group(1)
        return None
    LP = limbpoly.LimbPoly(leaf2, opaque=lambda t: lsym.get(t), narrow=True)
    tot = Poly()
    for i, o in enumerate(fouts):
        tot = tot + LP.val(o) * (1 << (32 * i))
    want = Poly()
    for i in range(len(limbs)):
        want = want + Poly.var("L_%d" % i) * (1 << (26 * i))
    for i in range(4):
        want = want + Poly.var("p_%d" % i) * (1 << (32 * i))
    diff = (tot - want).mod(1 << 128)
    ctx.check(len(limbs) == 5 and not diff and not LP.unknown, rule, "finish", "out == sum(L_j 2^(26 j)) + pad (mod 2^128) as a polynomial identity; %d carry / truncation symbols cancel" % len(LP.qnames),
              "Poly1305::finish does not add the pad to the repacked accumulator modulo 2^128 (an inter-word carry is lost): %d repacked limbs, residue %s%s" % (len(limbs), diff.show()[:200], ("; unrecognised operation %s" % str(LP.unknown[0])[:100]) if LP.unknown else ""), where=fin.where(), key="%s:finish" % rule)


def check_input_shapes(ctx, P, rule="shape-eval", maxlen=49):
    """Poly1305::input for EVERY pending count 0..15 and EVERY input length 0..%d, contents symbolic (bounded shape evaluation
    with the value-graph evaluator, `block` kept as a recorded opaque call): the blocks handed to `block` are exactly the
    consecutive 16-byte blocks of (pending bytes ++ input), in order, and what remains (< 16 bytes) is buffered with
    `leftover` equal to its length.  By the period 16 of the buffering, lengths up to three blocks cover every residue with
    zero, one and several direct blocks."""
    import re as _re
    from .. import simd
    from .arx import Box
    T = "poly1305::Poly1305"
    fn = P.fn("<%s as mac::Mac>::input" % T)
    adt = P.adts[T]
    fields = [f["name"] for f in adt["variants"][0]["fields"]]
    fi = {n: i for i, n in enumerate(fields)}
    need = ("h", "r", "pad", "leftover", "buffer", "finalized")
    if any(n not in fi for n in need):
        ctx.lost(rule, "Poly1305::input", "fields of Poly1305 changed: %s" % fields)
        return
    bad = []
    n = 0
    from .. import shapeconst
    consts = [c for c in shapeconst.usize_consts(P, fn) if c > 16]
    big = [c for c in consts if c + 18 > 400]
    if consts and not big:
        maxlen = max(maxlen, max(consts) + 18)
    for L in range(16):
        for ln in range(maxlen):
            B = simd.TermBank()
            buf = [B.inp("buf[%d]" % i, 8) for i in range(16)]
            data = [B.inp("d[%d]" % i, 8) for i in range(ln)]
            st = {fi["h"]: {i: B.inp("h%d" % i, 32) for i in range(5)}, fi["r"]: {i: B.inp("r%d" % i, 32) for i in range(5)}, fi["pad"]: {i: B.inp("p%d" % i, 32) for i in range(4)},
                  fi["leftover"]: L, fi["buffer"]: {i: buf[i] for i in range(16)}, fi["finalized"]: False}
            box = Box(st)
            M = simd.Machine(P, B, 32, {}, maxsteps=200000)
            blocks = []

            def on_block(m_, f_, c_, a_, blocks=blocks):
                cont, base, k = m_.seq(a_[1])
                blocks.append(tuple(m_.scalar_bits(cont[base + i], 8) for i in range(k)))
                return None
            M.hooks = [(_re.compile(r"poly1305::Poly1305::block$"), on_block)]
            dcont = {i: data[i] for i in range(ln)}
            try:
                M.call_fn(fn, [box.ref(), ("aslice", dcont, 0, ln)])
            except (simd.Unsupported, KeyError, IndexError, TypeError, AttributeError, ValueError) as e:
                bad.append((L, ln, "not evaluable: %s: %s" % (type(e).__name__, str(e)[:80])))
                break
            n += 1
            stream = buf[:L] + data
            want_blocks = [tuple(stream[16 * j: 16 * j + 16]) for j in range(len(stream) // 16)]
            rest = stream[16 * (len(stream) // 16):]
            got_left = box.v[fi["leftover"]]
            gb = box.v[fi["buffer"]]
            ok = blocks == want_blocks and got_left == len(rest) and all(M.scalar_bits(gb[i], 8) == rest[i] for i in range(len(rest))) and any(dcont[i] is not data[i] for i in range(ln)) is False
            if not ok:
                bad.append((L, ln, "blocks %d (want %d), leftover %s (want %d)" % (len(blocks), len(want_blocks), got_left, len(rest))))
                if len(bad) > 3:
                    break
        if len(bad) > 3:
            break
    okall = not bad and n == 16 * maxlen
    ctx.check(okall, rule, "Poly1305::input", "%d (pending, length) shapes: the blocks processed are the consecutive 16-byte blocks of pending ++ input and the rest is buffered" % n,
              "Poly1305::input does not process exactly the consecutive 16-byte blocks of (pending ++ input) and buffer the rest: (pending, length, what) %s" % bad[:3], where=fn.where(), key="%s:Poly1305::input" % rule)
    if okall and not big:
        ctx.subsume("stream:input", "Poly1305::input is decided for every pending count and every length below %d by bounded shape evaluation (shape-eval)" % maxlen)
