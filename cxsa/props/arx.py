"""Shared rule `block-eq`: value-graph equality of the ChaCha / Salsa engines' pieces with the specification
(Bernstein's ChaCha / Salsa20 papers, RFC 8439), for every input at once.

For each engine (portable `chacha::reference` under K6, `chacha::sse2` under the default build, `salsa20::State`)
and each piece of the block function the evaluator of cxsa/simd.py turns the MIR into a bit-level value graph over
symbolic inputs and the graph is compared with the one built here from the definition:

  init(key, nonce)     = the specification's initial matrix for every (key length, nonce length) the API admits
  rounds()             = ROUNDS/2 double rounds of the specification's quarter-round pattern, ROUNDS in {8, 12, 20}
  add_back(initial)    = word-wise sum
  output_bytes         = the 16 words little-endian
  output_ad_bytes      = HChaCha words 0..3,12..15 / HSalsa words 0,5,10,15,6,7,8,9
  set_counter/increment = word 12 (ChaCha) replaced / incremented, all other words untouched

Nothing is executed: equality is equality of hash-consed graphs in normal form (AC sums, canonical parities)."""
from .. import simd
from .. import mir

SIGMA = [0x61707865, 0x3320646e, 0x79622d32, 0x6b206574]   # "expand 32-byte k"
TAU = [0x61707865, 0x3120646e, 0x79622d36, 0x6b206574]     # "expand 16-byte k"


# ------------------------------------------------------------------ specification graphs
def chacha_rounds(B, x, rounds):
    v = list(x)

    def qr(a, b, c, d):
        v[a] = B.add(v[a], v[b]); v[d] = B.rotl(B.xor(v[d], v[a]), 16)
        v[c] = B.add(v[c], v[d]); v[b] = B.rotl(B.xor(v[b], v[c]), 12)
        v[a] = B.add(v[a], v[b]); v[d] = B.rotl(B.xor(v[d], v[a]), 8)
        v[c] = B.add(v[c], v[d]); v[b] = B.rotl(B.xor(v[b], v[c]), 7)
    for _ in range(rounds // 2):
        qr(0, 4, 8, 12); qr(1, 5, 9, 13); qr(2, 6, 10, 14); qr(3, 7, 11, 15)
        qr(0, 5, 10, 15); qr(1, 6, 11, 12); qr(2, 7, 8, 13); qr(3, 4, 9, 14)
    return v


def salsa_rounds(B, x, rounds):
    v = list(x)

    def qr(a, b, c, d):
        v[b] = B.xor(v[b], B.rotl(B.add(v[a], v[d]), 7))
        v[c] = B.xor(v[c], B.rotl(B.add(v[b], v[a]), 9))
        v[d] = B.xor(v[d], B.rotl(B.add(v[c], v[b]), 13))
        v[a] = B.xor(v[a], B.rotl(B.add(v[d], v[c]), 18))
    for _ in range(rounds // 2):
        qr(0, 4, 8, 12); qr(5, 9, 13, 1); qr(10, 14, 2, 6); qr(15, 3, 7, 11)
        qr(0, 1, 2, 3); qr(5, 6, 7, 4); qr(10, 11, 8, 9); qr(15, 12, 13, 14)
    return v


def le_words(B, bytes_, n):
    """n little-endian 32-bit words from a list of 8-bit lanes"""
    return [simd.cat(bytes_[4 * i: 4 * i + 4]) for i in range(n)]


def chacha_init(B, key, nonce):
    kl, nl = len(key), len(nonce)
    c = [B.const(x, 32) for x in (SIGMA if kl == 32 else TAU)]
    kw = le_words(B, key, kl // 4)
    if kl == 16:
        kw = kw + kw
    nw = le_words(B, nonce, nl // 4)
    z = B.const(0, 32)
    return c + kw + [z] * (4 - len(nw)) + nw


def salsa_init(B, key, nonce):
    kl, nl = len(key), len(nonce)
    c = [B.const(x, 32) for x in (SIGMA if kl == 32 else TAU)]
    kw = le_words(B, key, kl // 4)
    k0, k1 = kw[:4], (kw[4:] if kl == 32 else kw[:4])
    nw = le_words(B, nonce, nl // 4)
    z = B.const(0, 32)
    n = nw + [z] * (4 - len(nw))      # words 6,7 = nonce; 8,9 = counter (or the rest of a 16-byte HSalsa input)
    return [c[0]] + k0 + [c[1]] + n + [c[2]] + k1 + [c[3]]


# ------------------------------------------------------------------ helpers to build arguments
class Box:
    """a stack slot the machine can take references to"""
    def __init__(self, v):
        self.env = {"v": v}

    def ref(self):
        return ("lref", self.env, "v")

    @property
    def v(self):
        return self.env["v"]


def byte_slice(B, name, n):
    by = [B.inp("%s[%d]" % (name, i), 8) for i in range(n)]
    cont = {i: by[i] for i in range(n)}
    return by, ("aslice", cont, 0, n)


def words_of_state(M, st, layout):
    """16 lanes of 32 bits from the engine's State value (dict tree) for either representation"""
    if layout == "array":
        arr = st[0]
        return [M.scalar_bits(arr[i], 32) for i in range(16)]
    out = []
    for f in range(4):
        out += simd.lanes(st[f], 32)
    return out


def state_value(x, layout):
    if layout == "array":
        return {0: {i: x[i] for i in range(16)}}
    return {f: simd.cat(x[4 * f: 4 * f + 4]) for f in range(4)}


ENGINES = [
    # (configuration, module path, state layout, family)
    ("K6", "chacha::reference::State::<ROUNDS>", "array", "chacha"),
    ("K0", "chacha::sse2::State::<ROUNDS>", "m128", "chacha"),
    # the same source built with SSSE3 / AVX2 enabled: cfg(target_feature) variants inside the engine are other code
    ("K3", "chacha::sse2::State::<ROUNDS>", "m128", "chacha"),
    ("K5", "chacha::sse2::State::<ROUNDS>", "m128", "chacha"),
    ("K0", "salsa20::State::<ROUNDS>", "array", "salsa"),
]


def _diff(B, got, want):
    bad = [i for i in range(len(want)) if got[i] != want[i]]
    if not bad:
        return None
    i = bad[0]
    return "words %s differ, e.g. word %d = %s but the specification gives %s" % (bad, i, B.show(got[i], 3)[:150], B.show(want[i], 3)[:150])


def check_engines(ctx, progs, rule="block-eq", families=("chacha", "salsa")):
    n = 0
    for cfg, mod, layout, fam in ENGINES:
        if fam not in families:
            continue
        P = progs.get(cfg)
        if P is None:
            continue

        passed = {}

        def fnof(name):
            f = P.fn_opt(mod + "::" + name)
            if f is None:
                ctx.lost(rule, "%s::%s@%s" % (mod, name, cfg), "function not present in configuration %s" % cfg)
            return f

        def run(name, inst, body, okmsg):
            """body(B, M, fn) -> None if equal else message"""
            nonlocal n
            fn = fnof(name)
            if fn is None:
                return
            B = simd.TermBank()
            M = simd.Machine(P, B, 32, {})
            key = "%s:%s::%s:%s" % (rule, mod, name, inst)
            try:
                msg = body(B, M, fn)
            except (simd.Unsupported, KeyError, IndexError, TypeError, AttributeError, ValueError) as e:
                # includes accesses outside the symbolic buffers: on the real machine those are bounds panics
                ctx.fail(rule, "%s::%s@%s:%s" % (mod, name, cfg, inst), "%s::%s could not be evaluated to a value graph for this input shape (%s: %s): it panics, reads outside its buffers or uses a construct the evaluator does not model" % (mod, name, type(e).__name__, str(e)[:200]), where=fn.where(), key=key + ":eval")
                return
            n += 1
            passed.setdefault(name, []).append(msg is None)
            ctx.check(msg is None, rule, "%s::%s@%s:%s" % (mod, name, cfg, inst), okmsg + " (%d graph nodes)" % len(B.defs),
                      "%s::%s (%s, %s) is not the specified function: %s" % (mod, name, cfg, inst, msg), where=fn.where(), key=key)

        spec_rounds = chacha_rounds if fam == "chacha" else salsa_rounds
        # ---- rounds
        for R in (8, 12, 20):
            def body(B, M, fn, R=R):
                M.generics = {"ROUNDS": R}
                x = [B.inp("x[%d]" % i, 32) for i in range(16)]
                s = Box(state_value(x, layout))
                M.call_fn(fn, [s.ref()])
                return _diff(B, words_of_state(M, s.v, layout), spec_rounds(B, x, R))
            run("rounds", "R=%d" % R, body, "rounds() == %d rounds of the %s double-round pattern as value graphs" % (R, fam))

        # ---- add_back
        def body(B, M, fn):
            M.generics = {"ROUNDS": 20}
            x = [B.inp("x[%d]" % i, 32) for i in range(16)]
            y = [B.inp("y[%d]" % i, 32) for i in range(16)]
            s, t = Box(state_value(x, layout)), Box(state_value(y, layout))
            M.call_fn(fn, [s.ref(), t.ref()])
            bad = _diff(B, words_of_state(M, s.v, layout), [B.add(a, b) for a, b in zip(x, y)])
            if bad is None and words_of_state(M, t.v, layout) != y:
                bad = "the initial state is modified"
            return bad
        run("add_back", "sum", body, "add_back(initial) == word-wise modular sum, initial untouched")

        # ---- output_bytes
        def body(B, M, fn):
            M.generics = {"ROUNDS": 20}
            x = [B.inp("x[%d]" % i, 32) for i in range(16)]
            s = Box(state_value(x, layout))
            M.mem["out"] = lambda off, nb: simd.cat(B.inp("out0[%d]" % (off + k), 8) for k in range(nb))
            M.slice_len = {"out": 64}
            M.call_fn(fn, [s.ref(), ("ptr", "out", 0)])
            got = M.load(("ptr", "out", 0), 64)
            return _diff(B, simd.lanes(got, 32), x)
        run("output_bytes", "le", body, "output_bytes writes the 16 state words little-endian")

        # ---- output_ad_bytes
        def body(B, M, fn):
            M.generics = {"ROUNDS": 20}
            x = [B.inp("x[%d]" % i, 32) for i in range(16)]
            s = Box(state_value(x, layout))
            M.mem["out"] = lambda off, nb: simd.cat(B.inp("out0[%d]" % (off + k), 8) for k in range(nb))
            M.slice_len = {"out": 32}
            M.call_fn(fn, [s.ref(), ("ptr", "out", 0)])
            got = M.load(("ptr", "out", 0), 32)
            sel = [0, 1, 2, 3, 12, 13, 14, 15] if fam == "chacha" else [0, 5, 10, 15, 6, 7, 8, 9]
            return _diff(B, simd.lanes(got, 32), [x[i] for i in sel])
        run("output_ad_bytes", "hcore", body, "output_ad_bytes writes words %s little-endian" % ("0..3,12..15" if fam == "chacha" else "0,5,10,15,6,7,8,9"))

        # ---- init for every admitted (key, nonce) length
        nls = (8, 12, 16) if fam == "chacha" else (8, 16)
        for kl in (16, 32):
            for nl in nls:
                def body(B, M, fn, kl=kl, nl=nl):
                    M.generics = {"ROUNDS": 20}
                    kb, kref = byte_slice(B, "key", kl)
                    nb, nref = byte_slice(B, "nonce", nl)
                    st = M.call_fn(fn, [kref, nref])
                    want = (chacha_init if fam == "chacha" else salsa_init)(B, kb, nb)
                    return _diff(B, words_of_state(M, st, layout), want)
                run("init", "key%d-nonce%d" % (kl, nl), body, "init(key[%d], nonce[%d]) == the specification's initial matrix" % (kl, nl))

        # the initial matrix is decided as a value graph for every admitted (key, nonce) length: the MIR-pattern rules on
        # the same function (keydep / nonce-layout recognise one way of writing the loads) are then cross-checks only
        want_inits = 2 * len(nls)
        if len(passed.get("init", [])) == want_inits and all(passed["init"]):
            why = "%s::init equals the specification's initial matrix for all %d (key, nonce) length pairs (block-eq)" % (mod, want_inits)
            short = mod.split("::State")[0]
            for pre in ("keydep:%s::State" % short, "nonce-layout:%s" % ("reference" if "reference" in short else "sse2" if "sse2" in short else "salsa")):
                ctx.subsume(pre, why)
        # ---- counter
        if fam == "chacha":
            def body(B, M, fn):
                M.generics = {"ROUNDS": 20}
                x = [B.inp("x[%d]" % i, 32) for i in range(16)]
                c = B.inp("counter", 32)
                s = Box(state_value(x, layout))
                M.call_fn(fn, [s.ref(), c])
                return _diff(B, words_of_state(M, s.v, layout), x[:12] + [c] + x[13:])
            run("set_counter", "word12", body, "set_counter replaces word 12 only")

            def body(B, M, fn):
                M.generics = {"ROUNDS": 20}
                x = [B.inp("x[%d]" % i, 32) for i in range(16)]
                s = Box(state_value(x, layout))
                M.call_fn(fn, [s.ref()])
                return _diff(B, words_of_state(M, s.v, layout), x[:12] + [B.add(x[12], B.const(1, 32))] + x[13:])
            run("increment", "word12+1", body, "increment adds 1 to word 12 modulo 2^32 and touches nothing else")
            if all(passed.get(k_) and all(passed[k_]) for k_ in ("set_counter", "increment")):
                why_c = "%s::set_counter / increment equal the specification as value graphs (block-eq)" % mod
                for pre in ("counter-step:%s::set_counter" % mod, "counter-step:%s::increment" % mod, "counter-width:%s::increment" % mod):
                    ctx.subsume(pre, why_c)
        # 64-bit counters: both outcomes of the carry test
        cname, lo, hi = ("increment64", 12, 13) if fam == "chacha" else ("increment", 8, 9)
        for carry in (0, 1):
            def body(B, M, fn, carry=carry):
                M.generics = {"ROUNDS": 20}
                x = [B.inp("x[%d]" % i, 32) for i in range(16)]
                s = Box(state_value(x, layout))
                conds = []
                M.branch_oracle = lambda v, conds=conds: (conds.append(v), carry)[1]
                M.call_fn(fn, [s.ref()])
                want = list(x)
                want[lo] = B.add(x[lo], B.const(1, 32))
                if carry:
                    want[hi] = B.add(x[hi], B.const(1, 32))
                bad = _diff(B, words_of_state(M, s.v, layout), want)
                if bad is None:
                    ok = [B.pred("eq", want[lo], B.const(0, 32)), B.pred("carry", x[lo], B.const(1, 32))]
                    if len(conds) != 1 or conds[0] not in ok:
                        bad = "the carry into word %d is not taken exactly when word %d wraps to zero (conditions: %s)" % (hi, lo, [B.show(c) for c in conds])
                return bad
            run(cname, "carry=%d" % carry, body, "%s: low word +1; high word +1 exactly when the low word wraps (case carry=%d)" % (cname, carry))
    return n
