"""Object-level shape evaluation of the keyed constructions built on a Digest (HMAC) — and of what is built on HMAC.

The digest is an UNINTERPRETED hash: a recorded opaque object whose `input` appends byte terms to a transcript, whose
`result` writes H(transcript) — one family of fresh byte symbols per distinct transcript, so equal transcripts give equal
digests and different ones are unrelated — and whose `reset` clears the transcript.  Lengths are concrete (block size 8,
output 4: every relation of RFC 2104 between key length, block size and output size is exercised), contents symbolic.

For every key length in {0, 1, bs-1, bs, bs+1, 2bs+1}, every split of the message into update calls from a fixed list, and
the histories  new·input*·result,  ...·result (again),  ...·reset·input*·result  the value delivered must be the term
        H( (K' ^ opad) || H( (K' ^ ipad) || message ) ),     K' = key || 0..  (len <= bs)   or   H(key) || 0..  (len > bs)
This is independent of how the code is organised (helpers, loops, iterators, temporaries): only the calls that reach the
digest object and the bytes written to the caller's buffer are observed."""
import re
from .. import simd
from .arx import Box

BS, OS = 8, 4


class Bad(Exception):
    pass


class UFDigest:
    """uninterpreted digest object shared by reference between copies of the token that stands for it"""
    def __init__(self, B, fam):
        self.B = B
        self.fam = fam
        self.tr = []
        self.computed = False
        self.log = []

    def H(self, tr):
        key = tuple(tr)
        if key not in self.fam:
            k = len(self.fam)
            self.fam[key] = [self.B.inp("H%d[%d]" % (k, i), 8) for i in range(OS)]
        return self.fam[key]


def digest_hooks(B):
    def obj(m_, ref):
        x = ref
        while isinstance(x, tuple) and x and x[0] == "lref":
            x = x[1][x[2]]
        if isinstance(x, dict) and "_digest" in x:
            return x["_digest"]
        raise Bad("a Digest method is called on something that is not the digest object")

    def h_input(m_, f_, c_, a_):
        d = obj(m_, a_[0])
        if d.computed:
            raise Bad("input into a digest whose result was taken and which was not reset")
        cont, base, n = m_.seq(a_[1])
        d.tr += [m_.scalar_bits(cont[base + i], 8) for i in range(n)]
        d.log.append(("input", n))
        return None

    def h_result(m_, f_, c_, a_):
        d = obj(m_, a_[0])
        cont, base, n = m_.seq(a_[1])
        if n < OS:
            raise Bad("Digest::result into a buffer of %d bytes (output size %d)" % (n, OS))
        hv = d.H(d.tr)
        for i in range(OS):
            cont[base + i] = hv[i]
        d.computed = True
        d.log.append(("result", n))
        return None

    def h_reset(m_, f_, c_, a_):
        d = obj(m_, a_[0])
        d.tr = []
        d.computed = False
        d.log.append(("reset",))
        return None
    return [(re.compile(r"^digest::Digest::input$"), h_input), (re.compile(r"^digest::Digest::result$"), h_result), (re.compile(r"^digest::Digest::reset$"), h_reset),
            (re.compile(r"^digest::Digest::block_size$"), lambda m_, f_, c_, a_: BS), (re.compile(r"^digest::Digest::output_bytes$"), lambda m_, f_, c_, a_: OS),
            (re.compile(r"^digest::Digest::output_bits$"), lambda m_, f_, c_, a_: OS * 8)]


SPLITS = [(), (0,), (1,), (3,), (1, 2), (2, 0, 1), (BS, 1), (BS + 3,)]
KEYLENS = (0, 1, BS - 1, BS, BS + 1, 2 * BS + 1)


def spec_hmac(B, fam, key, msg):
    dummy = UFDigest(B, fam)
    kp = list(key) + [B.const(0, 8)] * (BS - len(key)) if len(key) <= BS else list(dummy.H(list(key))) + [B.const(0, 8)] * (BS - OS)
    ip = [B.xor(x, B.const(0x36, 8)) for x in kp]
    op = [B.xor(x, B.const(0x5c, 8)) for x in kp]
    inner = dummy.H(ip + list(msg))
    return dummy.H(op + list(inner))


def check_hmac(ctx, P, rule="shape-eval"):
    new = P.fn_opt("hmac::Hmac::<D>::new")
    f_in = P.fn_opt("<hmac::Hmac<D> as mac::Mac>::input")
    f_raw = P.fn_opt("<hmac::Hmac<D> as mac::Mac>::raw_result")
    f_reset = P.fn_opt("<hmac::Hmac<D> as mac::Mac>::reset")
    if None in (new, f_in, f_raw, f_reset):
        ctx.lost(rule, "Hmac", "Hmac::new / Mac::input / raw_result / reset not all present")
        return False
    bad = []
    n = 0
    for kl in KEYLENS:
        for split in SPLITS:
            B = simd.TermBank()
            fam = {}
            key = [B.inp("k[%d]" % i, 8) for i in range(kl)]
            d = UFDigest(B, fam)
            M = simd.Machine(P, B, 64, {}, maxsteps=400000)
            M.hooks = digest_hooks(B)
            try:
                hm = M.call_fn(new, [{"_digest": d}, ("aslice", {i: key[i] for i in range(kl)}, 0, kl)])
                box = Box(hm)

                def feed(tag, split):
                    msg = []
                    for j, ln in enumerate(split):
                        part = [B.inp("%s%d[%d]" % (tag, j, i), 8) for i in range(ln)]
                        M.call_fn(f_in, [box.ref(), ("aslice", {i: part[i] for i in range(ln)}, 0, ln)])
                        msg += part
                    return msg

                def result():
                    out = {i: B.inp("out0[%d]" % i, 8) for i in range(OS)}
                    M.call_fn(f_raw, [box.ref(), ("aslice", out, 0, OS)])
                    return [M.scalar_bits(out[i], 8) for i in range(OS)]
                m1 = feed("m", split)
                r1 = result()
                r1b = result()
                M.call_fn(f_reset, [box.ref()])
                m2 = feed("n", tuple(reversed(split)) + (2,))
                r2 = result()
            except Bad as e:
                bad.append((kl, split, str(e)))
                continue
            except (simd.Unsupported, KeyError, IndexError, TypeError, AttributeError, ValueError) as e:
                bad.append((kl, split, "not evaluable: %s: %s" % (type(e).__name__, str(e)[:100])))
                break
            n += 1
            w1 = spec_hmac(B, fam, key, m1)
            w2 = spec_hmac(B, fam, key, m2)
            if r1 != w1:
                bad.append((kl, split, "the MAC is not H((K'^opad) || H((K'^ipad) || message))"))
            elif r1b != w1:
                bad.append((kl, split, "asking for the result a second time changes it"))
            elif r2 != w2:
                bad.append((kl, split, "after reset the MAC of the next message is not HMAC(key, message)"))
            if len(bad) > 3:
                break
        if len(bad) > 3:
            break
    ok = not bad and n == len(KEYLENS) * len(SPLITS)
    ctx.check(ok, rule, "Hmac", "%d (key length, message split) shapes x {result, result again, reset + next message} with an uninterpreted digest (block %d, output %d): the MAC is H((K'^opad) || H((K'^ipad) || m))" % (n, BS, OS),
              "Hmac is not RFC 2104 over its digest: (key length, split, what) %s" % bad[:3], where=new.where(), key="%s:Hmac" % rule)
    if ok:
        why = "Hmac is decided against RFC 2104 with an uninterpreted digest for %d (key length, split) shapes and three histories (shape-eval)" % n
        for pre in ("hmac-keys", "expand-key", "derive-key", "create-keys", "hmac:"):
            ctx.subsume(pre, why)
    return ok
