"""Object-level shape evaluation of the keyed constructions built on a Digest (HMAC) — and of what is built on HMAC.

The digest is an UNINTERPRETED hash: a recorded opaque object whose `input` appends byte terms to a transcript, whose
`result` writes H(transcript) — one family of fresh byte symbols per distinct transcript, so equal transcripts give equal
digests and different ones are unrelated — and whose `reset` clears the transcript.  Lengths are concrete (block size 8,
output 4: every relation of RFC 2104 between key length, block size and output size is exercised), contents symbolic.

For every key length in {0, 1, bs-1, bs, bs+1, 2bs+1}, every split of the message into update calls from a fixed list, and
the histories  new·input*·result,  ...·result (again),  ...·reset·input*·result  the value delivered must be the term
        H( (K' ^ opad) || H( (K' ^ ipad) || message ) ),     K' = key || 0..  (len <= bs)   or   H(key) || 0..  (len > bs)
This is independent of how the code is organised (helpers, loops, iterators, temporaries): only the calls that reach the
digest object and the bytes written to the caller's buffer are observed."""
import re
from .. import simd
from .arx import Box

BS, OS = 8, 4


def size_sets(P, fns, follow):
    """(block size, output size) pairs to evaluate: the default (8, 4) plus, for every length constant c the code names
    (2 <= c <= 16), output sizes c-1, c, c+1 -- a defect confined to sizes that are (not) a multiple of some width has to name
    that width; constants beyond 16 are returned separately (the rule then decides only the sizes it evaluated)"""
    from .. import shapeconst
    cs = set()
    for f in fns:
        if f is not None:
            cs |= shapeconst.usize_consts(P, f, follow=follow, depth=3)
    big = sorted(c for c in cs if c > 16)
    outs = {4}
    for c in cs:
        if 2 <= c <= 16:
            outs |= {x for x in (c - 1, c, c + 1) if x >= 1}
    return [(o + 4, o) for o in sorted(outs)][:8], big


class Bad(Exception):
    pass


class UFDigest:
    """uninterpreted digest object shared by reference between copies of the token that stands for it"""
    def __init__(self, B, fam):
        self.B = B
        self.fam = fam
        self.tr = []
        self.computed = False
        self.log = []

    def H(self, tr):
        key = tuple(tr)
        if key not in self.fam:
            k = len(self.fam)
            self.fam[key] = [self.B.inp("H%d[%d]" % (k, i), 8) for i in range(OS)]
        return self.fam[key]


def digest_hooks(B):
    def obj(m_, ref):
        x = ref
        while isinstance(x, tuple) and x and x[0] == "lref":
            x = x[1][x[2]]
        if isinstance(x, dict) and "_digest" in x:
            return x["_digest"]
        raise Bad("a Digest method is called on something that is not the digest object")

    def h_input(m_, f_, c_, a_):
        d = obj(m_, a_[0])
        if d.computed:
            raise Bad("input into a digest whose result was taken and which was not reset")
        cont, base, n = m_.seq(a_[1])
        d.tr += [m_.scalar_bits(cont[base + i], 8) for i in range(n)]
        d.log.append(("input", n))
        return None

    def h_result(m_, f_, c_, a_):
        d = obj(m_, a_[0])
        cont, base, n = m_.seq(a_[1])
        if n < OS:
            raise Bad("Digest::result into a buffer of %d bytes (output size %d)" % (n, OS))
        hv = d.H(d.tr)
        for i in range(OS):
            cont[base + i] = hv[i]
        d.computed = True
        d.log.append(("result", n))
        return None

    def h_reset(m_, f_, c_, a_):
        d = obj(m_, a_[0])
        d.tr = []
        d.computed = False
        d.log.append(("reset",))
        return None
    return [(re.compile(r"^digest::Digest::input$"), h_input), (re.compile(r"^digest::Digest::result$"), h_result), (re.compile(r"^digest::Digest::reset$"), h_reset),
            (re.compile(r"^digest::Digest::block_size$"), lambda m_, f_, c_, a_: BS), (re.compile(r"^digest::Digest::output_bytes$"), lambda m_, f_, c_, a_: OS),
            (re.compile(r"^digest::Digest::output_bits$"), lambda m_, f_, c_, a_: OS * 8)]


SPLITS = [(), (0,), (1,), (3,), (1, 2), (2, 0, 1), (BS, 1), (BS + 3,)]
KEYLENS = (0, 1, BS - 1, BS, BS + 1, 2 * BS + 1)


def spec_hmac(B, fam, key, msg):
    dummy = UFDigest(B, fam)
    kp = list(key) + [B.const(0, 8)] * (BS - len(key)) if len(key) <= BS else list(dummy.H(list(key))) + [B.const(0, 8)] * (BS - OS)
    ip = [B.xor(x, B.const(0x36, 8)) for x in kp]
    op = [B.xor(x, B.const(0x5c, 8)) for x in kp]
    inner = dummy.H(ip + list(msg))
    return dummy.H(op + list(inner))


def check_hmac(ctx, P, rule="shape-eval"):
    new = P.fn_opt("hmac::Hmac::<D>::new")
    f_in = P.fn_opt("<hmac::Hmac<D> as mac::Mac>::input")
    f_raw = P.fn_opt("<hmac::Hmac<D> as mac::Mac>::raw_result")
    f_reset = P.fn_opt("<hmac::Hmac<D> as mac::Mac>::reset")
    if None in (new, f_in, f_raw, f_reset):
        ctx.lost(rule, "Hmac", "Hmac::new / Mac::input / raw_result / reset not all present")
        return False
    bad = []
    n = 0
    global BS, OS
    sizes, big = size_sets(P, [new, f_in, f_raw, f_reset], r"^hmac::")
    shapes = []
    for bs_, os_ in sizes:
        for kl in sorted({0, 1, bs_ - 1, bs_, bs_ + 1, 2 * bs_ + 1}):
            for split in SPLITS:
                shapes.append((bs_, os_, kl, split))
    for bs_, os_, kl, split in shapes:
        if True:
            BS, OS = bs_, os_
            B = simd.TermBank()
            fam = {}
            key = [B.inp("k[%d]" % i, 8) for i in range(kl)]
            d = UFDigest(B, fam)
            M = simd.Machine(P, B, 64, {}, maxsteps=400000)
            M.hooks = digest_hooks(B)
            try:
                hm = M.call_fn(new, [{"_digest": d}, ("aslice", {i: key[i] for i in range(kl)}, 0, kl)])
                box = Box(hm)

                def feed(tag, split):
                    msg = []
                    for j, ln in enumerate(split):
                        part = [B.inp("%s%d[%d]" % (tag, j, i), 8) for i in range(ln)]
                        M.call_fn(f_in, [box.ref(), ("aslice", {i: part[i] for i in range(ln)}, 0, ln)])
                        msg += part
                    return msg

                def result():
                    out = {i: B.inp("out0[%d]" % i, 8) for i in range(OS)}
                    M.call_fn(f_raw, [box.ref(), ("aslice", out, 0, OS)])
                    return [M.scalar_bits(out[i], 8) for i in range(OS)]
                m1 = feed("m", split)
                r1 = result()
                r1b = result()
                M.call_fn(f_reset, [box.ref()])
                m2 = feed("n", tuple(reversed(split)) + (2,))
                r2 = result()
            except Bad as e:
                bad.append((kl, split, str(e)))
                continue
            except (simd.Unsupported, KeyError, IndexError, TypeError, AttributeError, ValueError) as e:
                bad.append(((bs_, os_), kl, split, "not evaluable: %s: %s" % (type(e).__name__, str(e)[:100])))
                break
            n += 1
            w1 = spec_hmac(B, fam, key, m1)
            w2 = spec_hmac(B, fam, key, m2)
            if r1 != w1:
                bad.append((kl, split, "the MAC is not H((K'^opad) || H((K'^ipad) || message))"))
            elif r1b != w1:
                bad.append((kl, split, "asking for the result a second time changes it"))
            elif r2 != w2:
                bad.append((kl, split, "after reset the MAC of the next message is not HMAC(key, message)"))
        if len(bad) > 3:
            break
    BS, OS = 8, 4
    ok = not bad and n == len(shapes)
    ctx.check(ok, rule, "Hmac", "%d (sizes, key length, message split) shapes x {result, result again, reset + next message} with an uninterpreted digest ((block, output) sizes %s): the MAC is H((K'^opad) || H((K'^ipad) || m))" % (n, sizes),
              "Hmac is not RFC 2104 over its digest: (key length, split, what) %s" % bad[:3], where=new.where(), key="%s:Hmac" % rule)
    if ok and not big:
        why = "Hmac is decided against RFC 2104 with an uninterpreted digest for %d (key length, split) shapes and three histories (shape-eval)" % n
        for pre in ("hmac-keys", "expand-key", "derive-key", "create-keys", "hmac:"):
            ctx.subsume(pre, why)
    return ok


# ------------------------------------------------------------------------------------------------ PBKDF2 over an uninterpreted PRF
class UFMac(UFDigest):
    pass


def mac_hooks(B):
    def obj(m_, ref):
        x = ref
        while isinstance(x, tuple) and x and x[0] == "lref":
            x = x[1][x[2]]
        if isinstance(x, dict) and "_mac" in x:
            return x["_mac"]
        raise Bad("a Mac method is called on something that is not the MAC object")

    def h_input(m_, f_, c_, a_):
        d = obj(m_, a_[0])
        if d.computed:
            raise Bad("input into a MAC whose result was taken and which was not reset (Hmac asserts !finished)")
        cont, base, n = m_.seq(a_[1])
        d.tr += [m_.scalar_bits(cont[base + i], 8) for i in range(n)]
        return None

    def h_raw(m_, f_, c_, a_):
        d = obj(m_, a_[0])
        cont, base, n = m_.seq(a_[1])
        if n < OS:
            raise Bad("Mac::raw_result into a buffer of %d bytes (PRF output %d): the PRF output is truncated before it is fed back" % (n, OS))
        hv = d.H(d.tr)
        for i in range(OS):
            cont[base + i] = hv[i]
        d.computed = True
        return None

    def h_reset(m_, f_, c_, a_):
        d = obj(m_, a_[0])
        d.tr = []
        d.computed = False
        return None
    return [(re.compile(r"^mac::Mac::input$"), h_input), (re.compile(r"^mac::Mac::raw_result$"), h_raw), (re.compile(r"^mac::Mac::reset$"), h_reset),
            (re.compile(r"^mac::Mac::output_bytes$"), lambda m_, f_, c_, a_: OS)]


def spec_pbkdf2(B, fam, salt, c, dklen):
    prf = UFMac(B, fam)
    out = []
    i = 0
    while len(out) < dklen:
        i += 1
        u = prf.H(list(salt) + [B.const((i >> s) & 0xff, 8) for s in (24, 16, 8, 0)])
        t = list(u)
        for _ in range(c - 1):
            u = prf.H(list(u))
            t = [B.xor(x, y) for x, y in zip(t, u)]
        out += t
    return out[:dklen]


def check_pbkdf2(ctx, P, rule="shape-eval"):
    fn = P.fn_opt("pbkdf2::pbkdf2")
    if fn is None:
        ctx.lost(rule, "pbkdf2", "pbkdf2::pbkdf2 not found")
        return False
    bad = []
    n = 0
    global BS, OS
    sizes, big = size_sets(P, [fn], r"^pbkdf2::")
    shapes = [(os_, sl, c, dk) for bs_, os_ in sizes for sl in (0, 1, 5) for c in (1, 2, 3, 5) for dk in range(0, 3 * os_ + 2)]
    for os_, sl, c, dk in shapes:
        OS = os_
        B = simd.TermBank()
        fam = {}
        salt = [B.inp("salt[%d]" % i, 8) for i in range(sl)]
        out0 = [B.inp("out0[%d]" % i, 8) for i in range(dk)]
        out = {i: out0[i] for i in range(dk)}
        mac = Box({"_mac": UFMac(B, fam)})
        M = simd.Machine(P, B, 64, {}, maxsteps=400000)
        M.hooks = mac_hooks(B)
        try:
            M.call_fn(fn, [mac.ref(), ("aslice", {i: salt[i] for i in range(sl)}, 0, sl), c, ("aslice", out, 0, dk)])
        except Bad as e:
            bad.append((OS, sl, c, dk, str(e)))
            continue
        except (simd.Unsupported, KeyError, IndexError, TypeError, AttributeError, ValueError) as e:
            bad.append((sl, c, dk, "not evaluable: %s: %s" % (type(e).__name__, str(e)[:100])))
            break
        n += 1
        want = spec_pbkdf2(B, fam, salt, c, dk)
        got = [M.scalar_bits(out[i], 8) for i in range(dk)]
        if got != want:
            k = [i for i in range(dk) if got[i] != want[i]][0]
            bad.append((OS, sl, c, dk, "derived key byte %d is not byte %d of T_1 || T_2 || ... (T_i = U_1 ^ ... ^ U_c, U_1 = PRF(salt || INT_BE32(i)))" % (k, k)))
        if len(bad) > 3:
            break
    OS = 4
    ok = not bad and n == len(shapes)
    ctx.check(ok, rule, "pbkdf2", "%d (PRF size, salt length, iteration count, output length) shapes with an uninterpreted PRF of %s bytes: DK = T_1 || T_2 || ... truncated, T_i = XOR of the c chained PRF values" % (n, [o for b, o in sizes]),
              "pbkdf2 is not RFC 8018 PBKDF2 over its PRF: (salt length, c, dkLen, what) %s" % bad[:3], where=fn.where(), key="%s:pbkdf2" % rule)
    if ok and not big:
        why = "pbkdf2 is decided against RFC 8018 with an uninterpreted PRF for %d shapes (shape-eval)" % n
        for pre in ("pbkdf2-blocklen", "pbkdf2-u1", "pbkdf2-u2", "pbkdf2-uj", "pbkdf2-xor", "pbkdf2-order"):
            ctx.subsume(pre, why)
    return ok


# ------------------------------------------------------------------------------------------------ HKDF over an uninterpreted digest
def check_hkdf(ctx, P, rule="shape-eval"):
    """hkdf_extract / hkdf_expand (RFC 5869) with an uninterpreted digest that arrives WITH history (a non-empty transcript:
    the functions must reset it): PRK = HMAC(salt, IKM);  OKM = T(1) || T(2) || ... truncated,
    T(i) = HMAC(PRK, T(i-1) || info || i).  Hmac itself is evaluated from its own code (decided separately by check_hmac)."""
    global BS, OS
    fx = P.fn_opt("hkdf::hkdf_extract")
    fe = P.fn_opt("hkdf::hkdf_expand")
    if fx is None or fe is None:
        ctx.lost(rule, "hkdf", "hkdf_extract / hkdf_expand not found")
        return False
    sizes, big = size_sets(P, [fx, fe], r"^(hkdf|hmac)::")
    bad = []
    n = 0
    shapes = []
    for bs_, os_ in sizes[:4]:
        for kl in sorted({0, 1, os_, bs_, bs_ + 2}):
            for il in (0, 1, 3):
                for ol in range(0, 3 * os_ + 2):
                    shapes.append((bs_, os_, kl, il, ol))
    for bs_, os_, kl, il, ol in shapes:
        BS, OS = bs_, os_
        B = simd.TermBank()
        fam = {}
        prk = [B.inp("prk[%d]" % i, 8) for i in range(kl)]
        info = [B.inp("info[%d]" % i, 8) for i in range(il)]
        out = {i: B.inp("okm0[%d]" % i, 8) for i in range(ol)}
        d = UFDigest(B, fam)
        d.tr = [B.inp("history[0]", 8), B.inp("history[1]", 8)]
        M = simd.Machine(P, B, 64, {}, maxsteps=800000)
        M.hooks = digest_hooks(B)
        try:
            M.call_fn(fe, [{"_digest": d}, ("aslice", {i: prk[i] for i in range(kl)}, 0, kl), ("aslice", {i: info[i] for i in range(il)}, 0, il), ("aslice", out, 0, ol)])
        except Bad as e:
            bad.append(("expand", (bs_, os_), kl, il, ol, str(e)))
            if len(bad) > 3:
                break
            continue
        except (simd.Unsupported, KeyError, IndexError, TypeError, AttributeError, ValueError) as e:
            bad.append(("expand", (bs_, os_), kl, il, ol, "not evaluable: %s: %s" % (type(e).__name__, str(e)[:100])))
            break
        n += 1
        want = []
        t = []
        i = 0
        while len(want) < ol:
            i += 1
            t = spec_hmac(B, fam, prk, list(t) + info + [B.const(i & 0xff, 8)])
            want += t
        got = [M.scalar_bits(out[k], 8) for k in range(ol)]
        if got != want[:ol]:
            k = [x for x in range(ol) if got[x] != want[x]][0]
            bad.append(("expand", (bs_, os_), kl, il, ol, "OKM byte %d is not byte %d of T(1) || T(2) || ... with T(i) = HMAC(PRK, T(i-1) || info || i)" % (k, k)))
            if len(bad) > 3:
                break
    n_exp = n
    # extract
    xs = []
    for bs_, os_ in sizes[:4]:
        for sl in sorted({0, 1, bs_, bs_ + 1}):
            for kl in (0, 1, bs_ + 3):
                xs.append((bs_, os_, sl, kl))
    nx = 0
    for bs_, os_, sl, kl in xs:
        BS, OS = bs_, os_
        B = simd.TermBank()
        fam = {}
        salt = [B.inp("salt[%d]" % i, 8) for i in range(sl)]
        ikm = [B.inp("ikm[%d]" % i, 8) for i in range(kl)]
        out = {i: B.inp("prk0[%d]" % i, 8) for i in range(os_)}
        d = UFDigest(B, fam)
        d.tr = [B.inp("history[0]", 8)]
        M = simd.Machine(P, B, 64, {}, maxsteps=800000)
        M.hooks = digest_hooks(B)
        try:
            M.call_fn(fx, [{"_digest": d}, ("aslice", {i: salt[i] for i in range(sl)}, 0, sl), ("aslice", {i: ikm[i] for i in range(kl)}, 0, kl), ("aslice", out, 0, os_)])
        except Bad as e:
            bad.append(("extract", (bs_, os_), sl, kl, str(e)))
            continue
        except (simd.Unsupported, KeyError, IndexError, TypeError, AttributeError, ValueError) as e:
            bad.append(("extract", (bs_, os_), sl, kl, "not evaluable: %s: %s" % (type(e).__name__, str(e)[:100])))
            break
        nx += 1
        if [M.scalar_bits(out[k], 8) for k in range(os_)] != spec_hmac(B, fam, salt, ikm):
            bad.append(("extract", (bs_, os_), sl, kl, "PRK is not HMAC(salt, IKM)"))
    BS, OS = 8, 4
    ok = not bad and n_exp == len(shapes) and nx == len(xs)
    ctx.check(ok, rule, "hkdf", "%d expand shapes (PRK / info / OKM lengths) and %d extract shapes with an uninterpreted digest that arrives with history: RFC 5869's terms" % (n_exp, nx),
              "hkdf_extract / hkdf_expand are not RFC 5869 over their digest: %s" % bad[:3], where=fe.where(), key="%s:hkdf" % rule)
    if ok and not big:
        why = "hkdf_extract / hkdf_expand are decided against RFC 5869 with an uninterpreted digest for %d shapes (shape-eval)" % (n_exp + nx)
        for pre in ("hkdf-order", "hkdf-chunks", "hkdf-fresh", "hkdf-extract", "hkdf:"):
            ctx.subsume(pre, why)
    return ok


# ------------------------------------------------------------------------------------------------ Argon2 H' over uninterpreted BLAKE2b
def _b2_hooks(B, fam):
    """BLAKE2b contexts as an uninterpreted hash family H^n (n = output length): new / update (by value and in place) /
    finalize / finalize_at; a context value is a token carrying (outlen, transcript)"""
    def tok(x):
        while isinstance(x, tuple) and x and x[0] == "lref":
            x = x[1][x[2]]
        if isinstance(x, dict) and "_b2" in x:
            return x
        raise Bad("a BLAKE2b context method is called on something else")

    def Hn(n, tr):
        key = (n, tuple(tr))
        if key not in fam:
            k = len(fam)
            fam[key] = [B.inp("B%d[%d]" % (k, i), 8) for i in range(n)]
        return fam[key]

    def h_new512(m_, f_, c_, a_):
        return {"_b2": (64, ())}

    def h_newdyn(m_, f_, c_, a_):
        if not isinstance(a_[0], int) or not 1 <= a_[0] <= 64:
            raise Bad("BLAKE2b output length %r" % (a_[0],))
        return {"_b2": (a_[0], ())}

    def h_update(m_, f_, c_, a_):
        t = tok(a_[0])
        cont, base, n = m_.seq(a_[1])
        n_, tr = t["_b2"]
        return {"_b2": (n_, tr + tuple(m_.scalar_bits(cont[base + i], 8) for i in range(n)))}

    def h_update_mut(m_, f_, c_, a_):
        t = tok(a_[0])
        cont, base, n = m_.seq(a_[1])
        n_, tr = t["_b2"]
        t["_b2"] = (n_, tr + tuple(m_.scalar_bits(cont[base + i], 8) for i in range(n)))
        return None

    def h_finalize(m_, f_, c_, a_):
        n_, tr = tok(a_[0])["_b2"]
        hv = Hn(n_, tr)
        return {i: hv[i] for i in range(n_)}

    def h_finalize_at(m_, f_, c_, a_):
        n_, tr = tok(a_[0])["_b2"]
        cont, base, n = m_.seq(a_[1])
        if n != n_:
            raise Bad("finalize_at into %d bytes with output length %d" % (n, n_))
        hv = Hn(n_, tr)
        for i in range(n_):
            cont[base + i] = hv[i]
        return None
    rx = lambda s_: re.compile(s_)
    return Hn, [(rx(r"hashing::blake2b::Context::<BITS>::new$"), h_new512), (rx(r"hashing::blake2b::ContextDyn::new$"), h_newdyn),
                (rx(r"hashing::blake2b::(Context::<BITS>|ContextDyn)::update$"), h_update), (rx(r"hashing::blake2b::(Context::<BITS>|ContextDyn)::update_mut$"), h_update_mut),
                (rx(r"hashing::blake2b::(Context::<BITS>|ContextDyn)::finalize$"), h_finalize), (rx(r"hashing::blake2b::(Context::<BITS>|ContextDyn)::finalize_at$"), h_finalize_at)]


def spec_hprime(B, Hn, T, inp):
    le = [B.const((T >> s) & 0xff, 8) for s in (0, 8, 16, 24)]
    if T <= 64:
        return list(Hn(T, le + list(inp)))
    r = (T + 31) // 32 - 2
    v = Hn(64, le + list(inp))
    out = list(v[:32])
    for _ in range(2, r + 1):
        v = Hn(64, list(v))
        out += list(v[:32])
    out += list(Hn(T - 32 * r, list(v)))
    return out


def check_hprime(ctx, P, rule="shape-eval"):
    """Argon2's variable-length hash H' (RFC 9106 3.3) with BLAKE2b as an uninterpreted hash family: hprime for every tag
    length 1..200 and 1024, hprime_block_init (the 1024-byte specialisation over H0 || LE32(col) || LE32(lane))"""
    M_ = "kdf::argon2::"
    hp = P.fn_opt(M_ + "hprime")
    bi = P.fn_opt(M_ + "hprime_block_init")
    if hp is None or bi is None:
        ctx.lost(rule, "hprime", "hprime / hprime_block_init not found")
        return False
    bad = []
    n = 0
    lens = list(range(1, 201)) + [256, 1024]
    for T in lens:
        B = simd.TermBank()
        fam = {}
        Hn, hooks = _b2_hooks(B, fam)
        inp = [B.inp("in[%d]" % i, 8) for i in range(3)]
        out = {i: B.inp("out0[%d]" % i, 8) for i in range(T)}
        M = simd.Machine(P, B, 64, {}, maxsteps=2000000)
        M.generics = {"BITS": 512}
        M.hooks = hooks
        try:
            M.call_fn(hp, [("aslice", out, 0, T), ("aslice", {i: inp[i] for i in range(3)}, 0, 3)])
        except Bad as e:
            bad.append((T, str(e)))
            continue
        except (simd.Unsupported, KeyError, IndexError, TypeError, AttributeError, ValueError) as e:
            bad.append((T, "not evaluable: %s: %s" % (type(e).__name__, str(e)[:100])))
            break
        n += 1
        want = spec_hprime(B, Hn, T, inp)
        got = [M.scalar_bits(out[i], 8) for i in range(T)]
        if got != want:
            k = [i for i in range(T) if got[i] != want[i]][0]
            bad.append((T, "tag byte %d differs from H'(T) of RFC 9106" % k))
            if len(bad) > 3:
                break
    ok1 = not bad and n == len(lens)
    ctx.check(ok1, rule, "argon2::hprime", "tag lengths 1..200, 256, 1024 with BLAKE2b uninterpreted: H'^T(X) = V1[..32] || ... || V_r[..32] || V_(r+1), V1 = H^64(LE32(T) || X), V_i = H^64(V_(i-1)), the last of the remaining length",
              "hprime is not RFC 9106's H': (tag length, what) %s" % bad[:3], where=hp.where(), key="%s:argon2::hprime" % rule)
    # block init
    B = simd.TermBank()
    fam = {}
    Hn, hooks = _b2_hooks(B, fam)
    h0 = [B.inp("h0[%d]" % i, 8) for i in range(64)]
    col, lane = B.inp("col", 32), B.inp("lane", 32)
    out = {i: B.inp("out0[%d]" % i, 8) for i in range(1024)}
    box = Box(out)
    M = simd.Machine(P, B, 64, {}, maxsteps=2000000)
    M.generics = {"BITS": 512}
    M.hooks = hooks
    ok2 = False
    why = ""
    try:
        M.call_fn(bi, [box.ref(), Box({i: h0[i] for i in range(64)}).ref(), col, lane])
        x = h0 + simd.lanes(col, 8) + simd.lanes(lane, 8)
        want = spec_hprime(B, Hn, 1024, x)
        got = [M.scalar_bits(box.v[i], 8) for i in range(1024)]
        ok2 = got == want
        if not ok2:
            why = "block byte %d differs" % [i for i in range(1024) if got[i] != want[i]][0]
    except Bad as e:
        why = str(e)
    except (simd.Unsupported, KeyError, IndexError, TypeError, AttributeError, ValueError) as e:
        why = "not evaluable: %s: %s" % (type(e).__name__, str(e)[:100])
    ctx.check(ok2, rule, "argon2::hprime_block_init", "H'^1024(H0 || LE32(col) || LE32(lane)) with BLAKE2b uninterpreted", "hprime_block_init is not H'^1024 over H0 || LE32(col) || LE32(lane): %s" % why, where=bi.where(), key="%s:argon2::hprime_block_init" % rule)
    if ok1 and ok2:
        ctx.subsume("hprime", "hprime / hprime_block_init are decided against RFC 9106 with BLAKE2b uninterpreted (shape-eval)")
    return ok1 and ok2
