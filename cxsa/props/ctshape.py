"""Rule `shape-eval` for the aggregate constant-time helpers (C18, C07): for small concrete lengths and SYMBOLIC contents the
value graph of each helper equals the composition the documentation promises, built from the word primitive the helper itself
ends in (whose word-level formula is decided by the `word` rules):

    ct_zero / ct_nonzero (&[u8; N], &[u64; N], &[u64])   ==  u64::ct_zero / ct_nonzero ( OR_i zext(x_i) )
    ct_eq / ct_ne (&[u8; N], &[u64; N], &[u8], &[u64])    ==  u64::ct_zero ( OR_i zext(x_i) ^ zext(y_i) )   (ct_ne: negated)
    slices of unequal length                              ->  the call panics (no value is returned)
    MacResult == MacResult                                 ==  lengths equal  AND  is_true(ct_eq(code, code))

Lengths 0..3 keep every accumulator bit within the canonical truth-table normal form; the loop-structure rules (`cmp`,
`cmp-acc`, `cmp-coverage`) decide the same clauses for every length and stay the primary rules: where they cannot recognise a
loop shape but this rule passes, their report is recorded as not decided for other lengths."""
import re

from .. import simd
from .arx import Box

LENS = (0, 1, 2, 3)


def _choice_bits(M, v):
    """u64 payload of a Choice value"""
    if isinstance(v, dict) and 0 in v:
        v = v[0]
    return M.scalar_bits(v, 64)


def _prim(P, B, name, arg):
    M = simd.Machine(P, B, 64, {})
    fn = P.fn(name)
    return _choice_bits(M, M.call_fn(fn, [arg]))


def _zext(B, x, w=64):
    return tuple(x) + (simd.Z,) * (w - len(x))


def check(ctx, P, rule="shape-eval"):
    cases = []
    for w, ty in ((8, "u8"), (64, "u64")):
        for which in ("ct_zero", "ct_nonzero"):
            cases.append(("<&[%s; N] as constant_time::CtZero>::%s" % (ty, which), w, "array", which))
        for which in ("ct_eq", "ct_ne"):
            cases.append(("<&[%s; N] as constant_time::CtEqual>::%s" % (ty, which), w, "array", which))
            cases.append(("<&[%s] as constant_time::CtEqual>::%s" % (ty, which), w, "slice", which))
    for which in ("ct_zero", "ct_nonzero"):
        cases.append(("<&[u64] as constant_time::CtZero>::%s" % which, 64, "slice", which))
    nok = 0
    for path, w, kind, which in cases:
        fn = P.fn_opt(path)
        if fn is None:
            if w == 8 and kind == "slice" and which in ("ct_zero", "ct_nonzero"):
                continue
            ctx.lost(rule, path, "impl not found")
            continue
        bad = []
        from .. import shapeconst
        extra, big = shapeconst.around(shapeconst.usize_consts(P, fn), hi=40)
        for n in sorted(set(LENS) | extra):
            B = simd.TermBank()
            xs = [B.inp("x[%d]" % i, w) for i in range(n)]
            ys = [B.inp("y[%d]" % i, w) for i in range(n)]
            M = simd.Machine(P, B, 64, {})
            M.generics = {"N": n}
            two = which in ("ct_eq", "ct_ne")
            a1 = ("aslice", {i: xs[i] for i in range(n)}, 0, n) if kind == "slice" else Box({i: xs[i] for i in range(n)}).ref()
            a2 = ("aslice", {i: ys[i] for i in range(n)}, 0, n) if kind == "slice" else Box({i: ys[i] for i in range(n)}).ref()
            try:
                got = _choice_bits(M, M.call_fn(fn, [a1, a2] if two else [a1]))
            except (simd.Unsupported, KeyError, IndexError, TypeError, AttributeError, ValueError) as e:
                bad.append((n, "not evaluable (%s: %s)" % (type(e).__name__, str(e)[:80])))
                continue
            acc = B.const(0, 64)
            for i in range(n):
                t = _zext(B, xs[i])
                if two:
                    t = B.xor(t, _zext(B, ys[i]))
                acc = B.or_(acc, t)
            prim = "<u64 as constant_time::CtZero>::%s" % ("ct_nonzero" if which in ("ct_nonzero", "ct_ne") else "ct_zero")
            want = _prim(P, B, prim, acc)
            if got != want:
                bad.append((n, "differs from %s(OR of %s)" % (prim.split("::")[-1], "x ^ y" if two else "x")))
            # unequal lengths must not return a value
            if kind == "slice" and two and n > 0:
                M2 = simd.Machine(P, B, 64, {})
                try:
                    M2.call_fn(fn, [a1, ("aslice", {i: ys[i] for i in range(n - 1)}, 0, n - 1)])
                    bad.append((n, "returns a value for slices of lengths %d and %d" % (n, n - 1)))
                except (simd.Unsupported, KeyError, IndexError, TypeError, AttributeError, ValueError):
                    pass
        ok = not bad
        nok += ok
        ctx.check(ok, rule, path, "for lengths %s and symbolic contents the result is the word primitive of the OR-accumulated %s" % (list(LENS), "differences" if which in ("ct_eq", "ct_ne") else "elements"),
                  "%s is not the documented composition: %s" % (path, bad[:3]), where=fn.where(), key="%s:%s" % (rule, path))
        if ok and not big:
            ctx.subsume("cmp:%s" % path, "%s is decided for lengths %s by shape evaluation" % (path.split("::")[-1], list(LENS)))
            ctx.subsume("cmp-acc:%s" % path, "decided for lengths %s by shape evaluation" % (list(LENS),))
            ctx.subsume("cmp-coverage:%s" % path, "decided for lengths %s by shape evaluation" % (list(LENS),))
    # MacResult equality
    fn = P.fn_opt("<mac::MacResult as core::cmp::PartialEq>::eq")
    if fn is None:
        ctx.lost(rule, "MacResult::eq", "impl not found")
        return nok
    adt = P.adts.get("mac::MacResult")
    bad = []
    cteq = P.fn("<&[u8] as constant_time::CtEqual>::ct_eq")
    for n1, n2 in ((0, 0), (1, 1), (2, 2), (3, 3), (1, 2), (3, 0), (0, 2)):
        B = simd.TermBank()
        xs = [B.inp("x[%d]" % i, 8) for i in range(n1)]
        ys = [B.inp("y[%d]" % i, 8) for i in range(n2)]
        # MacResult { code: Vec<u8> }: the evaluator sees the Vec through as_slice / deref / index / len as a byte sequence
        m1 = Box({0: ("aslice", {i: xs[i] for i in range(n1)}, 0, n1)})
        m2 = Box({0: ("aslice", {i: ys[i] for i in range(n2)}, 0, n2)})
        M = simd.Machine(P, B, 64, {})
        import re as _re
        M.hooks = [(_re.compile(r"mac::MacResult::code$"), lambda m_, f_, c_, a_: (a_[0][1][a_[0][2]][0] if isinstance(a_[0], tuple) and a_[0][0] == "lref" else a_[0][0]))]
        try:
            got = M.call_fn(fn, [m1.ref(), m2.ref()])
        except (simd.Unsupported, KeyError, IndexError, TypeError, AttributeError, ValueError) as e:
            bad.append(((n1, n2), "not evaluable (%s: %s)" % (type(e).__name__, str(e)[:80])))
            continue
        if n1 != n2:
            if got is not False and got != 0:
                bad.append(((n1, n2), "codes of different length do not compare unequal"))
            continue
        M2 = simd.Machine(P, B, 64, {})
        ch = _choice_bits(M2, M2.call_fn(cteq, [("aslice", {i: xs[i] for i in range(n1)}, 0, n1), ("aslice", {i: ys[i] for i in range(n2)}, 0, n2)]))
        want = B.pred("eq", ch, B.const(1, 64))
        g = got
        if isinstance(g, bool):
            g = (simd.O,) if g else (simd.Z,)
        if g != want:
            bad.append(((n1, n2), "is not is_true(ct_eq(code, code))"))
    ok = not bad
    ctx.check(ok, rule, "MacResult::eq", "equal lengths: is_true(ct_eq(code, code)); different lengths: false — for 7 length pairs, contents symbolic", "MacResult equality is not `lengths equal and constant-time equality of both codes`: %s" % bad[:3], where=fn.where(), key="%s:MacResult::eq" % rule)
    if ok:
        ctx.subsume("cmp:MacResult::eq", "decided for 7 length pairs by shape evaluation")
    return nok
