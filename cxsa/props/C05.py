"""C05 — Poly1305 returns the specified tag for every key and message.

Decided (for every key / message / history):
  clamp      Poly1305::new: limb i of r is exactly bits [26i, 26i+26) of key[0..16] with the RFC 8439
             clamp bits (0x0ffffffc0ffffffc0ffffffc0fffffff) forced to zero — derived from the clamp
             constant, not from the code's masks; pad = the four LE words of key[16..32]; h, leftover,
             buffer, finalized start at zero
  msg-limbs  block: the 16 message bytes enter as 26-bit LE slices at bit 26i; limb 4 gets bit 128
             (1 << 24) iff !finalized
  radix      every addition / or / select in block and finish combines values of the same radix
             weight with 2^130 == 5: carries go to the next limb, the top carry is folded back times 5,
             the 32-bit repacking shifts line up, pad words are added at 2^(32 i)
  select     finish: every `(h & !mask) | g` selection has its other arm masked with the same mask
  padding    finish writes the 0x01 marker at buffer[leftover] and zero-fills buffer[leftover+1..16]
  (typestate rules of the object are decided under C09 and re-evaluated here)
  bounds     interval abstract interpretation (cxsa/bounds.py, props/polybounds.py): r limbs bounded by their clamp masks;
             the bounds of h are an inductive invariant of block for every history; no overflow assert in block / finish
             can fire and every u64 carry fits the u32 it is narrowed to; after finish's full carry (partitioned on the
             single-bit carries) every limb is a reduced radix-2^26 digit where the limbs are repacked by OR
Not decided: the tag as a number; decided are the necessary conditions above."""
import re

from .. import mir, pred, rules, bitprov, ssa, radix
from ..mir import fmt, walk, const_val
from . import C09

EXPLANATION = __doc__
TECHNIQUE = "bit-provenance of shift/mask expressions vs. the RFC clamp, term-domain dataflow with radix-weight consistency (2^130 = 5), complementary-mask select rule; bounded shape evaluation (concrete offsets / lengths derived from the code's own length constants, symbolic contents, opaque recorded leaf calls) of the buffering loops; limb-polynomial identities"

CLAMP = 0x0ffffffc0ffffffc0ffffffc0fffffff


def check_new(ctx, P):
    fn = P.fn("poly1305::Poly1305::new")
    aggs = [s for b in sorted(fn.reachable()) for s in fn.stmts(b) if s[0] == "=" and s[2][0] == "agg" and s[2][1][0] == "adt" and s[2][1][1] == "poly1305::Poly1305"]
    if len(aggs) != 1:
        ctx.lost("clamp", "Poly1305::new", "state aggregate not found")
        return
    d = dict(zip(aggs[0][2][1][4], [fn.expr(o) for o in aggs[0][2][2]]))
    r = d["r"]
    ok = r[0] == "agg" and len(r[2]) == 5
    if not ok:
        ctx.fail("clamp", "r", "r is not built as five limb expressions", where=fn.where(), key="clamp:r")
    else:
        # through the term evaluator first (loads moved into a private helper, shifts computed from an index): the MIR
        # expression tree is the fallback
        from .. import termbits
        tb_r = tb_p = None
        try:
            rr = ssa.Eval(P, fn, inline=lambda n: n.endswith("read_u32_le")).run()
            if isinstance(rr.ret, ssa.Agg) and isinstance(rr.ret.get("r"), ssa.Agg):
                TB = termbits.Bits(termbits.byte_leaf({"arg1"}))
                tb_r = [TB.bits(rr.ret["r"].get_elem(i), 32) for i in range(5)]
                if isinstance(rr.ret.get("pad"), ssa.Agg):
                    tb_p = [TB.bits(rr.ret["pad"].get_elem(i), 32) for i in range(4)]
        except (KeyError, IndexError, TypeError, AttributeError, ValueError):
            tb_r = tb_p = None
        for i, e in enumerate(r[2]):
            bits = bitprov.eval_bits(fn, e, 32)
            if tb_r is not None and None not in tb_r[i]:
                bits = list(tb_r[i])
            want = []
            for j in range(32):
                k = 26 * i + j
                if j < 26 and k < 128 and (CLAMP >> k) & 1:
                    want.append(("arg1", k))
                else:
                    want.append(0)
            ctx.check(bits == want, "clamp", "r[%d]" % i, "r limb %d = key bits %d.. with the RFC clamp applied" % (i, 26 * i),
                      "Poly1305::new limb r[%d] is not bits [%d,%d) of the key with the RFC clamp: got %s" % (i, 26 * i, 26 * i + 26, bitprov.show(bits)), where=fn.where(), key="clamp:r[%d]" % i)
    p = d["pad"]
    ok = p[0] == "agg" and len(p[2]) == 4
    if ok:
        for i, e in enumerate(p[2]):
            bits = bitprov.eval_bits(fn, e, 32)
            try:
                if tb_p is not None and None not in tb_p[i]:
                    bits = list(tb_p[i])
            except NameError:
                pass
            ok = ok and bits == [("arg1", 128 + 32 * i + j) for j in range(32)]
    ctx.check(ok, "clamp", "pad", "pad = LE words of key[16..32]", "Poly1305::new pad is not the four little-endian words of key[16..32]", where=fn.where(), key="clamp:pad")
    z = d["h"][0] == "rep" and d["h"][1][:2] == ("const", 0) and d["leftover"][:2] == ("const", 0) and d["finalized"][:2] == ("const", 0) and d["buffer"][0] == "rep" and d["buffer"][1][:2] == ("const", 0)
    ctx.check(z, "clamp", "initial-state", "h = 0, leftover = 0, buffer = 0, finalized = false", "Poly1305::new does not start from the zero accumulator state", where=fn.where(), key="clamp:init")
    rl = P.fn("cryptoutil::read_u32_le")
    ok = any(c.name().endswith("u32>::from_le_bytes") for c in rl.calls()) and not any("from_be_bytes" in c.name() for c in rl.calls())
    ctx.check(ok, "clamp", "read_u32_le", "read_u32_le is little-endian", "read_u32_le is not little-endian", where=rl.where())


def load_weight_poly(t):
    if t[0] == "load":
        m = re.match(r"^arg1\.(h|r)\[(\d+)\]$", t[1])
        if m:
            return 26 * int(m.group(2))
        m = re.match(r"^arg1\.pad\[(\d+)\]$", t[1])
        if m:
            return 32 * int(m.group(1))
    if t[0] == "ld" and t[1] == "le" and ssa.is_c(t[4]):
        return 8 * t[4][1]
    return None


def subterms(t, seen=None):
    seen = seen if seen is not None else set()
    st = [t]
    while st:
        x = st.pop()
        if not isinstance(x, tuple) or not x or id(x) in seen:
            continue
        seen.add(id(x))
        if isinstance(x[0], str):
            yield x
        for y in x[1:] if isinstance(x[0], str) else x:
            if isinstance(y, tuple):
                st.append(y)


def check_block(ctx, P):
    fn = P.fn("poly1305::Poly1305::block")
    r = ssa.Eval(P, fn, inline=lambda n: n == "poly1305::mul64").run()
    mem = r.mem_at_ret
    W = radix.Weights(load_weight_poly, 130, 5)
    for i in range(5):
        t = mem.get("arg1.h[%d]" % i)
        if t is None:
            ctx.fail("radix", "block:h[%d]" % i, "block does not write h[%d] on every path" % i, where=fn.where(), key="radix:block:h[%d]" % i)
            continue
        w = W.w(t)
        ctx.check(w is radix.TOP or (26 * i) in w, "radix", "block:h[%d]" % i, "value stored to h[%d] has radix weight 2^%d" % (i, 26 * i),
                  "Poly1305::block stores a value of radix weight %s into h[%d] (expected 2^%d)" % (sorted(w) if w else w, i, 26 * i), where=fn.where(), key="radix:block:h[%d]" % i)
    ctx.check(not W.problems, "radix", "block:consistency", "every add / or in block combines equal radix weights (2^130 = 5)",
              "Poly1305::block combines limbs of different radix weight (a carry or a *5 fold is misplaced): %s with weights %s vs %s" % ((radix.show(W.problems[0][0])[:160], sorted(W.problems[0][1]), sorted(W.problems[0][2])) if W.problems else ("", "", "")), where=fn.where(), key="radix:block:consistency")
    # message limbs: h_i + ((le32(m[3i..]) >> 2i) & 0x3ffffff) ; limb 4: | hibit
    found = {}
    hib = None
    for i in range(5):
        t = mem.get("arg1.h[%d]" % i)
        for x in subterms(t):
            if x[0] == "bin" and x[1] == "Add" and x[2] == ("load", "arg1.h[%d]" % i, 0):
                m_ = x[3]
                found[i] = m_
    for i in range(5):
        m_ = found.get(i)
        ok = False
        if m_ is not None:
            if i < 4:
                ok = m_[0] == "bin" and m_[1] == "BitAnd" and ssa.is_c(m_[3]) and m_[3][1] == 0x3ffffff
                inner = m_[2] if ok else None
            else:
                ok = m_[0] == "bin" and m_[1] == "BitOr"
                inner = m_[2] if ok else None
                hib = m_[3] if ok else None
            if ok:
                sh = 0
                if inner[0] == "bin" and inner[1] == "Shr" and ssa.is_c(inner[3]):
                    sh = inner[3][1]
                    inner = inner[2]
                ok = inner[0] == "ld" and inner[1] == "le" and inner[2] == 4 and inner[3] == "arg2" and ssa.is_c(inner[4]) and 8 * inner[4][1] + sh == 26 * i
        ctx.check(ok, "msg-limbs", "block:m[%d]" % i, "message limb %d = bits %d.. of the 16-byte block" % (i, 26 * i), "Poly1305::block adds the wrong message bits into limb %d: %s" % (i, radix.show(m_) if m_ is not None else "not found"), where=fn.where(), key="msg-limbs:block:m[%d]" % i)
    okh = hib is not None and hib[0] == "ite" and hib[1] == ("load", "arg1.finalized", 0) and hib[2] == ("c", 0, "u32") and hib[3] == ("c", 1 << 24, "u32")
    ctx.check(okh, "msg-limbs", "block:hibit", "bit 128 (1 << 24 in limb 4) is set iff !finalized", "Poly1305::block's high marker bit is not `if finalized {0} else {1 << 24}`: %s" % (radix.show(hib) if hib is not None else None), where=fn.where(), key="msg-limbs:block:hibit")


def check_finish(ctx, P):
    fn = P.fn("poly1305::Poly1305::finish")
    r = ssa.Eval(P, fn).run()
    mem = r.mem_at_ret
    W = radix.Weights(load_weight_poly, 130, 5)
    for i in range(4):
        t = mem.get("arg1.h[%d]" % i)
        if t is None:
            ctx.fail("radix", "finish:h[%d]" % i, "finish does not write h[%d] on every path" % i, where=fn.where(), key="radix:finish:h[%d]" % i)
            continue
        w = W.w(t)
        ctx.check(w is radix.TOP or (32 * i) in w, "radix", "finish:h[%d]" % i, "tag word %d has weight 2^%d" % (i, 32 * i), "Poly1305::finish stores a value of radix weight %s as tag word %d (expected 2^%d)" % (sorted(w) if w else w, i, 32 * i), where=fn.where(), key="radix:finish:h[%d]" % i)
    ctx.check(not W.problems, "radix", "finish:consistency", "full carry, h + -p, 32-bit repacking and pad addition are radix-consistent (top carry folded back * 5)",
              "Poly1305::finish combines values of different radix weight (a carry is folded back without the factor 5, or a limb is packed at the wrong shift): %s with weights %s vs %s" % ((radix.show(W.problems[0][0])[:200], sorted(W.problems[0][1]), sorted(W.problems[0][2])) if W.problems else ("", "", "")), where=fn.where(), key="radix:finish:consistency")
    # select rule
    nsel = 0
    bad = None
    seen = set()
    for i in range(4):
        for x in subterms(mem.get("arg1.h[%d]" % i), seen):
            if x[0] == "bin" and x[1] == "BitOr":
                for a, b in ((x[2], x[3]), (x[3], x[2])):
                    if a[0] == "bin" and a[1] == "BitAnd" and isinstance(a[3], tuple) and a[3][0] == "un" and a[3][1] == "Not":
                        m_ = a[3][2]
                        nsel += 1
                        if not (b[0] == "bin" and b[1] == "BitAnd" and (b[3] == m_ or b[2] == m_)):
                            bad = x
    ctx.check(nsel >= 5 and bad is None, "select", "finish:h-or-g", "each of the 5 limb selections is (h & !mask) | (g & mask) with one mask",
              "Poly1305::finish selects between h and h-p with arms that are not masked complementarily (%d selections found): %s" % (nsel, radix.show(bad)[:200] if bad else ""), where=fn.where(), key="select:finish")
    # padding marker and zero fill
    ok1 = False
    for b in sorted(fn.reachable()):
        for s in fn.stmts(b):
            if s[0] == "=" and rules.self_field_of_place(s[1]) == ["buffer", "[]"] and s[2][0] == "use" and const_val(s[2][1]) == 1:
                ie = fn.local_expr(s[1][1][-1][1]) if s[1][1][-1][0] == "i" else None
                if ie is not None and pred.canon(ie, fn) == "arg1.leftover":
                    facts = pred.facts_at(fn, b)
                    ok1 = pred.implies(facts, pred.A("le", -1, **{"arg1.leftover": -1})) or pred.A("ne", 0, **{"arg1.leftover": 1}) in facts
    ctx.check(ok1, "padding", "finish:marker", "buffer[leftover] = 1 when a partial block is pending", "Poly1305::finish does not write the 0x01 marker at buffer[leftover]", where=fn.where(), key="padding:finish:marker")
    lps = [l for l in rules.iter_loops(fn) if any(s[0] == "range" for s in l["sources"])]
    ok2 = len(lps) == 1 and lps[0]["sources"] == [("range", ("lin{+1*arg1.leftover+1}", "16"))]
    if ok2:
        z = False
        for b in lps[0]["body"]:
            for s in fn.stmts(b):
                if s[0] == "=" and rules.self_field_of_place(s[1]) == ["buffer", "[]"] and s[2][0] == "use" and const_val(s[2][1]) == 0:
                    z = True
        ok2 = z and not lps[0]["early_exits"]
    ctx.check(ok2, "padding", "finish:zero-fill", "buffer[leftover+1..16] = 0", "Poly1305::finish does not zero-fill buffer[leftover+1..16]: %s" % [l["sources"] for l in lps], where=fn.where(), key="padding:finish:zero-fill")


def check_input(ctx, P):
    fn = P.fn("<poly1305::Poly1305 as mac::Mac>::input")
    bl = fn.calls_to(r"poly1305::Poly1305::block$")
    # the streaming loop: while m.len() >= 16 { block(&m[0..16]); m = &m[16..] }
    ok = False
    for c in bl:
        if c.bb in fn.loop_blocks():
            w = rules.window(fn, fn.expr(c.args[1]))
            facts = pred.facts_at(fn, c.bb)
            if w and w[1] == ((), 0) and w[2] == ((), 16):
                base = w[0]
                ok = any(f[0] == "le" and f[2] == -16 and len(f[1]) == 1 and f[1][0][1] == -1 and f[1][0][0].startswith("len(") for f in facts)
    ctx.check(ok, "stream", "input:full-blocks", "whole 16-byte blocks are consumed while at least 16 bytes remain", "Poly1305::input's block loop is not `while m.len() >= 16 { block(&m[0..16]) ... }`", where=fn.where(), key="stream:input:full-blocks")
    lw = [(b, fn.rvalue_expr(rv)) for b, i, names, rv in rules.field_writes(fn) if names == ["leftover"]]
    ok = any(pred.canon(e, fn).startswith("len(") for b, e in lw)
    ctx.check(ok, "stream", "input:leftover", "leftover := remaining length", "Poly1305::input does not record the buffered tail length", where=fn.where())
    # partial-buffer completion: returns early iff leftover < 16 after topping up
    rets = []
    for b in sorted(fn.reachable()):
        t = fn.term(b)
        if t[0] == "sw":
            e = fn.expr(t[1])
            at = pred.atoms_of(e, True, fn)
            if at == [pred.A("le", 15, **{"arg1.leftover": 1})]:
                rets.append(b)
    ctx.check(len(rets) == 1, "stream", "input:partial", "after topping up the buffer, input returns iff leftover < 16 (a full buffer is processed)", "Poly1305::input's buffered-block test is not `leftover < 16`", where=fn.where(), key="stream:input:partial")


def check_all(ctx, P):
    """every Poly1305 rule of this module (shared with C06 / C07, whose tags are Poly1305 tags)"""
    ctx.guard("clamp", "new", lambda: check_new(ctx, P))
    ctx.guard("radix", "block", lambda: check_block(ctx, P))
    ctx.guard("radix", "finish", lambda: check_finish(ctx, P))
    ctx.guard("stream", "input", lambda: check_input(ctx, P))
    from . import polybounds
    ctx.guard("bounds", "poly1305", lambda: polybounds.check(ctx, P))
    ctx.guard("poly-identity", "poly1305", lambda: polybounds.check_identity(ctx, P))
    ctx.guard("shape-eval", "poly1305::input", lambda: polybounds.check_input_shapes(ctx, P))


def run(ctx):
    P = ctx.prog("K0")
    ctx.guard("clamp", "new", lambda: check_new(ctx, P))
    ctx.guard("radix", "block", lambda: check_block(ctx, P))
    ctx.guard("radix", "finish", lambda: check_finish(ctx, P))
    ctx.guard("stream", "input", lambda: check_input(ctx, P))
    ctx.guard("poly1305", "typestate", lambda: C09.check_poly1305(ctx, P))
    ctx.trusted.append("ssa term evaluator transfer functions (cxsa/ssa.py) and the radix-weight rules (cxsa/radix.py)")
    from . import polybounds
    ctx.guard("bounds", "poly1305", lambda: polybounds.check(ctx, P))
    ctx.guard("poly-identity", "poly1305", lambda: polybounds.check_identity(ctx, P))
    ctx.guard("shape-eval", "poly1305::input", lambda: polybounds.check_input_shapes(ctx, P))
    ctx.not_decided += ["the tag as a number beyond: radix-weight consistency of every product / carry, limb bounds (inductive), absence of overflow, digit reduction before the repack, clamp and select rules"]
