"""C04 — stream position semantics: chunking, involution, seek, DRG.

Decided (structural necessary conditions, for every history):
  lockstep   in each of the five process_mut: the data window is [i, i+count), the keystream
             window starts at the CURRENT self.offset, count = min(64 - offset, len - i), and both
             i and self.offset advance by exactly count; the block refill happens iff offset == 64
             and before the offset is read; the loop runs while i < len
  update     rounds -> add_back(self.state) -> output into self.output -> counter increment
             exactly once -> offset = 0 on every path
  seek       sets the engine counter from the argument and leaves offset == 64 on every path
  new        offset starts at 64 (no keystream cached)
  process    asserts equal lengths, copies input to output, then process_mut(output)
  sibling    the five copies of process_mut / update / process agree modulo engine type
  drg        every buffer handed to the cipher is all-zero on entry (fresh or cleared on every
             path), all five generators draw from the same ChaCha instance
  clone      the cipher types derive Clone and hold no reference / pointer / heap indirection
  drg-exact  every generator draws its keystream in ONE request over exactly the bytes it delivers (no draw in a loop,
             no partially used block): later requests cannot depend on how earlier ones were sized
  block-eq   set_counter, increment and the 64-bit carry of the engine actually built, as value graphs (shared with C03)
  shape-eval process_mut of all five ciphers for every offset 0..64 and the lengths around zero, one and two refills (all
             lengths < 131 in the thorough tier, plus the lengths around every constant the code names), update opaque:
             data[i] ^= KS[i] for every i and the engine is left positioned at KS[len] (lazy or eager refill alike)
Not decided: the keystream values themselves (C03), offset-interval induction (tier 2)."""
import re

from .. import mir, pred, rules
from ..mir import fmt, walk, const_val

EXPLANATION = __doc__
TECHNIQUE = "value-graph equality (abstract interpretation of MIR in a hash-consed bit-level term domain with linear-combination, parity and truth-table normal forms) against specification graphs; MIR dataflow rules: linear-form lock-step of loop indices, must-set typestate, call-order dominance, sibling canonical-body comparison, definite-zeroing of DRG buffers; bounded shape evaluation (concrete offsets / lengths derived from the code's own length constants, symbolic contents, opaque recorded leaf calls) of the buffering loops (process_mut of all five ciphers)"

CIPHERS = [
    ("chacha20::ChaCha", "increment$", True),
    ("chacha20::XChaCha", "increment$", True),
    ("chacha20::ChaChaOriginal", "increment64$", False),
    ("salsa20::Salsa", "increment$", False),
    ("salsa20::XSalsa", "increment$", False),
]


def _lin(fn, e):
    l, c = pred.lin(e, fn)
    return (tuple(sorted(l.items())), c)


def check_process_mut(ctx, P, T):
    inst = T
    fn = P.fn("%s::<ROUNDS>::process_mut" % T)
    xs = fn.calls_to(r"cryptoutil::xor_keystream_mut$")
    if len(xs) != 1:
        ctx.lost("lockstep", inst, "expected exactly one xor_keystream_mut call in %s, found %d" % (fn.path, len(xs)))
        return
    x = xs[0]
    data_e = fn.expr(x.args[0])
    ks_e = fn.expr(x.args[1])
    # data window: index_mut(data, Range{start,end})
    dw = _find_call(data_e, r"index_mut$|IndexMut")
    kw = _find_call(ks_e, r"::index$|Index<")
    if dw is None or kw is None:
        ctx.fail("lockstep", inst, "cannot recognise the data / keystream windows passed to xor_keystream_mut (%s ; %s)" % (fmt(data_e), fmt(ks_e)), where=fn.where(x.line))
        return
    rng = dw[2][1]
    krng = kw[2][1]
    ok_shape = rng[0] == "agg" and "core::ops::Range" in str(rng[1]) and len(rng[2]) == 2 and krng[0] == "agg" and "RangeFrom" in str(krng[1])
    if not ok_shape:
        ctx.fail("lockstep", inst, "data window is not data[a..b] or keystream window is not output[o..]: %s ; %s" % (fmt(rng), fmt(krng)), where=fn.where(x.line))
        return
    S, E = rng[2]
    O = krng[2][0]
    base_data = pred.canon(dw[2][0], fn)
    base_ks = pred.canon(kw[2][0], fn)
    ctx.check(base_data == "arg2", "lockstep", inst + ":data-base", "data window indexes the caller's buffer (arg2)", "data window does not index the caller's buffer: %s" % base_data, where=fn.where(x.line))
    ctx.check(base_ks == "arg1.output", "lockstep", inst + ":ks-base", "keystream window indexes self.output", "keystream window does not index self.output: %s" % base_ks, where=fn.where(x.line))
    # count = E - S must be a single min(...) leaf
    lE, cE = pred.lin(E, fn)
    lS, cS = pred.lin(S, fn)
    diff = dict(lE)
    for k, v in lS.items():
        diff[k] = diff.get(k, 0) - v
    diff = {k: v for k, v in diff.items() if v}
    cnt_leaf = None
    if len(diff) == 1 and cE - cS == 0:
        (k, v), = diff.items()
        if v == 1:
            cnt_leaf = k
    if not ctx.check(cnt_leaf is not None and "min" in cnt_leaf, "lockstep", inst + ":window-length",
                     "data window length is the min(...) count", "data window length is not a single min(...) count: end-start = %s%+d" % (diff, cE - cS), where=fn.where(x.line)):
        return
    # the count expression itself
    cnt_e = None
    for sub in walk(E):
        if sub[0] == "call" and sub[1].endswith("cmp::min"):
            cnt_e = sub
    if cnt_e is None:
        ctx.fail("lockstep", inst + ":count", "no core::cmp::min in the window end", where=fn.where(x.line))
        return
    a, b = cnt_e[2]
    forms = {_lin(fn, a), _lin(fn, b)}
    # loop variable = the leaf of S
    ivar = pred.canon(S, fn)
    want = {((("arg1.offset", -1),), 64), (tuple(sorted([("len(arg2)", 1), (ivar, -1)])), 0)}
    ctx.check(forms == want, "lockstep", inst + ":count", "count = min(64 - self.offset, data.len() - %s)" % ivar,
              "count is not min(64 - self.offset, len - i): got %s" % sorted(forms), where=fn.where(x.line))
    ctx.check(_lin(fn, O) == ((("arg1.offset", 1),), 0), "lockstep", inst + ":ks-start", "keystream window starts at self.offset",
              "keystream window does not start at the current self.offset: starts at %s" % fmt(O), where=fn.where(x.line), key="lockstep:%s:ks-start" % inst)
    # advances: after the call, i := i + count and self.offset := self.offset + count, on every path back to the loop head
    adv_off = []
    adv_i = []
    succ, pr, reach = fn.cfg()
    after = {b for b in reach if fn.reaches(x.target, b)} if x.target is not None else set()
    ilocal = S[1] if S[0] == "var" else None
    for b in sorted(after):
        for i, s in enumerate(fn.stmts(b)):
            if s[0] != "=":
                continue
            names = rules.self_field_of_place(s[1])
            if names == ["offset"]:
                adv_off.append((b, _lin(fn, fn.rvalue_expr(s[2]))))
            elif ilocal is not None and s[1] == [ilocal, []]:
                adv_i.append((b, _lin(fn, fn.rvalue_expr(s[2]))))
    want_off = (tuple(sorted([("arg1.offset", 1), (cnt_leaf, 1)])), 0)
    want_i = (tuple(sorted([(ivar, 1), (cnt_leaf, 1)])), 0)
    offs = [v for b, v in adv_off if not _is_update_path(fn, b)]
    ctx.check(len(offs) >= 1 and all(v == want_off for v in offs), "lockstep", inst + ":offset-advance", "self.offset := self.offset + count after the xor",
              "self.offset is not advanced by exactly count after the xor: writes = %s" % offs, where=fn.where(x.line), key="lockstep:%s:offset-advance" % inst)
    ctx.check(len(adv_i) >= 1 and all(v == want_i for _, v in adv_i), "lockstep", inst + ":index-advance", "%s := %s + count after the xor" % (ivar, ivar),
              "the data index is not advanced by exactly count: writes = %s" % [v for _, v in adv_i], where=fn.where(x.line))
    # both advances lie on every path from the xor back to the loop head / exit
    for nm, lst in (("offset", adv_off), ("index", adv_i)):
        blocks = [b for b, _ in lst]
        okp = _all_paths_pass(fn, x.target, blocks)
        ctx.check(okp, "lockstep", inst + ":%s-advance-all-paths" % nm, "advance of %s on every path after the xor" % nm, "some path after the xor skips the advance of %s" % nm, where=fn.where(x.line))
    # refill: update() called iff offset == 64, before offset is read for count
    ups = fn.calls_to(r"::update$")
    if len(ups) != 1:
        ctx.fail("lockstep", inst + ":refill", "expected exactly one refill call, found %d" % len(ups), where=fn.where())
    else:
        u = ups[0]
        facts = pred.facts_at(fn, u.bb)
        need = pred.A("eq", 64, **{"arg1.offset": 1})
        ctx.check(need in facts, "refill-pred", inst, "update() executes only under self.offset == 64", "update() is not guarded by self.offset == 64 (facts: %s)" % [pred.show(f) for f in facts], where=fn.where(u.line), key="refill-pred:%s" % inst)
        # the other side of that branch must not call update and must reach the xor: i.e. refill iff
        sw = [o for e, v, o in fn.edge_facts(u.bb) if pred.atoms_of(e, v, fn) == [need]]
        if sw:
            swb = sw[0]
            ctx.check(fn.dominates(swb, x.bb) and fn.dominates(u.bb, x.bb) is False, "refill-pred", inst + ":iff", "the offset test dominates the xor and the refill is conditional", "the refill is not a conditional step in front of the xor", where=fn.where(u.line))
            # no self.offset read for count before the switch block in the loop body: the load feeding min must be in a block dominated by the switch
            loads = _offset_loads_for_sub(fn)
            ctx.check(all(fn.dominates(swb, b) and b != swb for b in loads) and loads, "refill-order", inst, "self.offset is read for count only after the refill decision",
                      "self.offset is read for the count before the refill decision", where=fn.where(u.line))
    # loop condition: body entered iff i < len
    head_ok = False
    for b in reach:
        t = fn.term(b)
        if t[0] == "sw" and fn.reaches(b, x.bb) and any(s not in {bb for bb in reach if fn.reaches(bb, x.bb)} for s in fn.succs(b)):
            e = fn.expr(t[1])
            at = pred.atoms_of(e, True, fn)
            if at == [pred.A("le", -1, **{ivar: 1, "len(arg2)": -1})]:
                body = t[3] if (t[2] and t[2][0][0] == 0) else None
                if body is not None and fn.reaches(body, x.bb):
                    head_ok = True
    ctx.check(head_ok, "lockstep", inst + ":loop-cond", "loop continues iff %s < data.len()" % ivar, "loop condition is not `i < data.len()`", where=fn.where())


def _is_update_path(fn, b):
    return False


def _offset_loads_for_sub(fn):
    """Blocks where self.offset is loaded into a value that feeds a subtraction (the `64 - offset`)."""
    temps = {}
    out = []
    for b in sorted(fn.reachable()):
        for s in fn.stmts(b):
            if s[0] != "=":
                continue
            rv = s[2]
            if rv[0] == "use" and rv[1][0] in ("cp", "mv") and rules.self_field_of_place(rv[1][1]) == ["offset"] and not s[1][1]:
                temps[s[1][0]] = b
    for b in sorted(fn.reachable()):
        for s in fn.stmts(b):
            if s[0] == "=" and s[2][0] == "bin" and s[2][1].startswith("Sub"):
                for o in (s[2][2], s[2][3]):
                    if o[0] in ("cp", "mv"):
                        if rules.self_field_of_place(o[1]) == ["offset"]:
                            out.append(b)
                        elif not o[1][1] and o[1][0] in temps:
                            out.append(temps[o[1][0]])
    return out


def _all_paths_pass(fn, start, blocks):
    """Every path from `start` to either a return or back to a loop head passes one of blocks."""
    if start is None:
        return False
    succ = fn.cfg()[0]
    bl = set(blocks)
    seen = set()
    st = [start]
    heads = _loop_heads(fn)
    while st:
        b = st.pop()
        if b in bl or b in seen:
            continue
        seen.add(b)
        if fn.term(b)[0] == "ret":
            return False
        for s in succ[b]:
            if s in heads and s not in bl:
                # reaching a loop head without passing an advance
                if fn.dominates(s, b):
                    return False
            st.append(s)
    return True


def _loop_heads(fn):
    succ, pr, reach = fn.cfg()
    heads = set()
    for b in reach:
        for s in succ[b]:
            if fn.dominates(s, b):
                heads.add(s)
    return heads


def _find_call(e, pat):
    rx = re.compile(pat)
    for sub in walk(e):
        if sub[0] == "call" and rx.search(sub[1]):
            return sub
    return None


def check_update(ctx, P, T, incpat):
    fn = P.fn("%s::<ROUNDS>::update" % T)
    seq = [r"Clone>::clone$", r"State::<ROUNDS>::rounds$", r"State::<ROUNDS>::add_back$", r"State::<ROUNDS>::output_bytes$", r"State::<ROUNDS>::" + incpat]
    mn, rets = rules.call_sequence_min_progress(fn, seq)
    ctx.check(mn == len(seq), "update-order", T, "clone -> rounds -> add_back -> output_bytes -> %s on every path" % incpat,
              "update() does not perform clone, rounds, add_back, output_bytes, counter increment in this order on every path (progress %d/%d)" % (mn, len(seq)), where=fn.where(), key="update-order:%s" % T)
    incs = [c for c in fn.calls() if re.search(r"State::<ROUNDS>::increment(64)?$", c.name())]
    ctx.check(len(incs) == 1 and re.search(incpat, incs[0].name()) and incs[0].bb not in fn.loop_blocks(), "update-increment", T, "exactly one counter increment per block (%s)" % incpat,
              "update() must advance the block counter exactly once with %s: found %s" % (incpat, [c.name() for c in incs]), where=fn.where(), key="update-increment:%s" % T)
    # argument wiring: add_back(&mut working, &self.state); output_bytes(&working, &mut self.output); increment(&mut self.state)
    for c in fn.calls():
        nm = c.name()
        if nm.endswith("::add_back"):
            ctx.check(pred.canon(fn.expr(c.args[1]), fn) == "arg1.state", "update-wire", T + ":add_back", "add_back adds the context's own state", "add_back does not add self.state: %s" % fmt(fn.expr(c.args[1])), where=fn.where(c.line))
        if nm.endswith("::output_bytes"):
            ctx.check(pred.canon(fn.expr(c.args[1]), fn) == "arg1.output", "update-wire", T + ":output", "keystream block is written to self.output", "output_bytes does not write self.output", where=fn.where(c.line))
            ctx.check(pred.canon(fn.expr(c.args[0]), fn) != "arg1.state", "update-wire", T + ":output-src", "keystream comes from the working copy", "keystream is taken from self.state instead of the worked copy", where=fn.where(c.line))
        if re.search(r"::increment(64)?$", nm):
            ctx.check(pred.canon(fn.expr(c.args[0]), fn) == "arg1.state", "update-wire", T + ":increment", "the counter of self.state is advanced", "increment is applied to something other than self.state", where=fn.where(c.line))
        if nm.endswith("::rounds"):
            ctx.check(pred.canon(fn.expr(c.args[0]), fn) != "arg1.state", "update-wire", T + ":rounds", "rounds run on the working copy", "rounds are applied to self.state itself", where=fn.where(c.line))
    vals = rules.last_write_values(P, fn, "offset")
    ctx.check(vals == {0}, "mustset", T + "::update:offset=0", "offset == 0 after update on every path", "after update() self.offset is not 0 on every path: %s" % vals, where=fn.where(), key="mustset:%s::update:offset" % T)


def check_seek(ctx, P, T):
    fn = P.fn_opt("%s::<ROUNDS>::seek" % T)
    if fn is None:
        ctx.lost("seek", T, "public seek() not found")
        return
    vals = rules.last_write_values(P, fn, "offset")
    ctx.check(vals == {64}, "mustset", T + "::seek:offset=64", "seek leaves offset == 64 (cached block discarded) on every path",
              "seek() does not leave self.offset == 64 on every path (cached keystream survives): %s" % vals, where=fn.where(), key="mustset:%s::seek:offset" % T)
    sc = fn.calls_to(r"State::<ROUNDS>::set_counter$")
    okc = len(sc) == 1 and pred.canon(fn.expr(sc[0].args[0]), fn) == "arg1.state" and pred.canon(fn.expr(sc[0].args[1]), fn) == "arg2" and rules.every_ret_path_passes(fn, [sc[0].bb])
    ctx.check(okc, "seek-wire", T, "seek passes its argument to set_counter of self.state on every path", "seek() does not set the engine counter from its argument on every path", where=fn.where())


def check_new(ctx, P, T):
    fn = P.fn("%s::<ROUNDS>::new" % T)
    found = []
    for b in sorted(fn.reachable()):
        for s in fn.stmts(b):
            if s[0] == "=" and s[2][0] == "agg" and s[2][1][0] == "adt" and s[2][1][1] == T:
                names = s[2][1][4]
                ops = s[2][2]
                d = dict(zip(names, ops))
                found.append((b, d))
    if len(found) != 1:
        ctx.lost("new-offset", T, "expected one %s aggregate in new(), found %d" % (T, len(found)))
        return
    b, d = found[0]
    ctx.check(const_val(d.get("offset", ["x"])) == 64 if d.get("offset", ["x"])[0] == "k" else False, "new-offset", T, "new() starts with offset = 64 (no cached keystream)",
              "new() does not start with offset == 64", where=fn.where())


def check_process(ctx, P, T):
    fn = P.fn("%s::<ROUNDS>::process" % T)
    seq = [r"copy_from_slice$", r"%s::<ROUNDS>::process_mut$" % re.escape(T)]
    mn, _ = rules.call_sequence_min_progress(fn, seq)
    ctx.check(mn == 2, "process-order", T, "copy input into output, then process_mut(output)", "process() is not copy_from_slice followed by process_mut on every path", where=fn.where())
    for c in fn.calls():
        if c.name().endswith("copy_from_slice"):
            ctx.check(pred.canon(fn.expr(c.args[0]), fn) == "arg3" and pred.canon(fn.expr(c.args[1]), fn) == "arg2", "process-wire", T + ":copy", "output.copy_from_slice(input)", "copy is not output <- input", where=fn.where(c.line))
        if c.name().endswith("::process_mut"):
            ctx.check(pred.canon(fn.expr(c.args[0]), fn) == "arg1" and pred.canon(fn.expr(c.args[1]), fn) == "arg3", "process-wire", T + ":process_mut", "self.process_mut(output)", "process_mut is not applied to the output buffer", where=fn.where(c.line))
    # length equality asserted before the copy
    cp = fn.calls_to(r"copy_from_slice$")
    if cp:
        facts = pred.facts_at(fn, cp[0].bb)
        want = pred.A("eq", 0, **{"len(arg2)": 1, "len(arg3)": -1})
        ctx.check(pred.implies(facts, want), "guard", T + "::process:len-eq", "input.len() == output.len() holds at the copy", "process() does not check input.len() == output.len() before copying (facts %s)" % [pred.show(f) for f in facts], where=fn.where(cp[0].line), key="guard:%s::process:len-eq" % T)


def check_siblings(ctx, P):
    def ab(s):
        s = re.sub(r"chacha20::(ChaChaOriginal|XChaCha|ChaCha)|salsa20::(XSalsa|Salsa)", "CIPHER", s)
        s = re.sub(r"chacha::(sse2|reference)::State|salsa20::State", "ENGINE", s)
        s = s.replace("increment64", "increment")
        return s
    for meth in ("process_mut", "update", "process"):
        bodies = {}
        for T, _, _ in CIPHERS:
            fn = P.fn("%s::<ROUNDS>::%s" % (T, meth))
            bodies[T] = rules.canon_body(fn, ab)
        ref_T = CIPHERS[0][0]
        for T, b in bodies.items():
            if T == ref_T:
                continue
            same = b == bodies[ref_T]
            diffline = None
            if not same:
                for i, (x, y) in enumerate(zip(b, bodies[ref_T])):
                    if x != y:
                        diffline = "%s  !=  %s" % (x[:200], y[:200])
                        break
                if diffline is None:
                    diffline = "different number of blocks (%d vs %d)" % (len(b), len(bodies[ref_T]))
            # majority vote: who deviates?  report the odd one out
            ctx.check(same, "sibling", "%s::%s~%s" % (T, meth, ref_T), "canonical bodies agree modulo engine type",
                      "%s::%s differs from its sibling %s::%s: %s" % (T, meth, ref_T, meth, diffline), where=P.fn("%s::<ROUNDS>::%s" % (T, meth)).where(), key="sibling:%s::%s" % (T, meth))


def check_drg(ctx, P):
    gens = ["bytes", "fill_bytes", "fill_slice", "u32", "u64"]
    for g in gens:
        fn = P.fn("drg::chacha::Drg::<ROUNDS>::%s" % g)
        pcs = fn.calls_to(r"chacha20::ChaCha::<ROUNDS>::process_mut$")
        viab = fn.calls_to(r"drg::chacha::Drg::<ROUNDS>::bytes$")
        if not pcs and not viab:
            ctx.fail("drg-source", g, "generator %s neither draws from the ChaCha instance nor from bytes()" % g, where=fn.where())
            continue
        for c in viab:
            ctx.check(pred.canon(fn.expr(c.args[0]), fn) == "arg1", "drg-source", g, "%s draws through self.bytes()" % g, "%s calls bytes() on something other than self" % g, where=fn.where(c.line))
        for c in pcs:
            ctx.check(pred.canon(fn.expr(c.args[0]), fn) == "arg1.0", "drg-source", g, "%s draws from the single ChaCha instance self.0" % g, "%s does not use self.0" % g, where=fn.where(c.line))
            ok, why = _buffer_zero_at(fn, c)
            ctx.check(ok, "nodep", "drg::chacha::Drg::%s" % g, "buffer handed to the cipher is all-zero on entry (%s)" % why,
                      "Drg::%s XORs the keystream into a buffer that is not cleared first (%s): output depends on the buffer's prior contents" % (g, why), where=fn.where(c.line), key="nodep:drg::chacha::Drg::%s" % g)
        # exactly as many keystream bytes are consumed as are delivered: ONE draw, outside any loop, on every path, over the
        # whole destination (a block-wise refill would throw away the unused tail of its last block, so later requests
        # would depend on how earlier ones were sized)
        draws = pcs + viab
        whole = False
        if len(draws) == 1:
            c = draws[0]
            if c in pcs:
                buf = pred.canon(fn.expr(c.args[1]), fn)
                if g in ("fill_bytes", "fill_slice"):
                    whole = buf == "arg2"
                elif g in ("u32", "u64"):
                    # the draw inlined: a local [u8; N] filled in one request and converted whole
                    want = {"u32": 4, "u64": 8}[g]
                    conv = [k for k in fn.calls() if re.search(r"::from_(be|le|ne)_bytes$", k.name()) and pred.canon(fn.expr(k.args[0]), fn) == buf and fn.dominates(c.bb, k.bb)]
                    e = fn.expr(c.args[1])
                    while isinstance(e, tuple) and e[0] in ("cast", "ref", "deref"):
                        e = e[2] if e[0] in ("cast", "ref") else e[1]
                    ty = fn.locals[e[1]] if e[0] == "var" and isinstance(e[1], int) and e[1] < len(fn.locals) else ""
                    whole = buf.startswith("v:") and len(conv) == 1 and re.sub(r"\s", "", ty) == "[u8;%d]" % want and rules.every_ret_path_passes(fn, [conv[0].bb])
                else:
                    whole = buf.startswith("v:") and pred.canon(fn.local_expr(0), fn) == buf
            else:
                want = {"u32": "4", "u64": "8"}.get(g)
                whole = want is not None and list(c.ga or [])[-1:] == [want]
        okd = len(draws) == 1 and draws[0].bb not in fn.loop_blocks() and rules.every_ret_path_passes(fn, [draws[0].bb]) and whole
        ctx.check(okd, "drg-exact", g, "%s draws its keystream in one request over exactly the bytes it delivers" % g,
                  "Drg::%s does not consume exactly the bytes it delivers (one draw over the whole destination, outside any loop): draws=%s" % (g, [(c.name().split("::")[-1], [pred.canon(fn.expr(a), fn)[:40] for a in c.args], "in-loop" if c.bb in fn.loop_blocks() else "") for c in draws]), where=fn.where(), key="drg-exact:%s" % g)
    nf = P.fn("drg::chacha::Drg::<ROUNDS>::new")
    cs = nf.calls_to(r"chacha20::ChaCha::<ROUNDS>::new$")
    okn = False
    if len(cs) == 1:
        k = pred.canon(nf.expr(cs[0].args[0]), nf)
        n = nf.expr(cs[0].args[1])
        nz = any((s[0] == "rep" and s[1][:2] == ("const", 0)) or (s[0] == "kconst" and s[3] and all(x == 0 for x in s[3]) and len(s[3]) == 12) for s in walk(n))
        okn = k == "arg1" and nz
    ctx.check(okn, "drg-new", "Drg::new", "Drg::new keys ChaCha with the seed and an all-zero nonce", "Drg::new does not construct ChaCha(seed, [0;12])", where=nf.where())


def _buffer_zero_at(fn, call):
    """Is the slice passed as data (arg 1) to `call` all zero on entry, on every path?"""
    e = fn.expr(call.args[1])
    # strip unsize casts / reborrows
    while isinstance(e, tuple) and e[0] in ("cast", "ref", "deref"):
        e = e[2] if e[0] in ("cast", "ref") else e[1]
    if e[0] == "var":
        # local array: all whole-place defs must be [0; N] and no other writes before the call
        loc = e[1]
        ds = fn.defs().get(loc, [])
        whole = [(b, i) for b, i, w in ds if w]
        if whole and all(i != "t" and fn.blocks[b]["s"][i][2][0] == "rep" and const_val(fn.blocks[b]["s"][i][2][1]) == 0 for b, i in whole) and len(ds) == len(whole):
            if all(fn.dominates(b, call.bb) for b, i in whole):
                return True, "fresh [0; N] local"
        return False, "local buffer is not a fresh zero array"
    if e[0] == "arg":
        a = e[1]
        zb = _zeroing_blocks(fn, a)
        if zb and rules.every_ret_path_passes(_Sub(fn, call.bb), zb):
            return True, "caller buffer cleared on every path before the call"
        return False, "caller-provided buffer"
    return False, "unrecognised buffer %s" % fmt(e)


class _Sub:
    """View of fn where `stop` is treated as a return: used to ask 'every path to stop passes X'."""
    def __init__(self, fn, stop):
        self.fn = fn
        self.stop = stop

    def cfg(self):
        return self.fn.cfg()

    def term(self, b):
        if b == self.stop:
            return ["ret"]
        t = self.fn.term(b)
        if t[0] == "ret":
            return ["unr"]
        return t


def _zeroing_blocks(fn, a):
    """Blocks after which the whole buffer *arg a is definitely zero (recognised idioms)."""
    out = []
    for b in sorted(fn.reachable()):
        for s in fn.stmts(b):
            # *out = [0; N]
            if s[0] == "=" and s[1] == [a, ["*"]] and s[2][0] == "rep" and const_val(s[2][1]) == 0:
                out.append(b)
            if s[0] == "=" and s[1] == [a, ["*"]] and s[2][0] == "use":
                e = fn.expr(s[2][1])
                if e[0] == "rep" and e[1][:2] == ("const", 0):
                    out.append(b)
        t = fn.term(b)
        if t[0] == "call":
            c = mir.Call(fn, b, t)
            nm = c.name()
            if (nm.endswith("<impl [T]>::fill") and pred.canon(fn.expr(c.args[0]), fn) == "arg%d" % a and fn.expr(c.args[1])[:2] == ("const", 0)) or \
               (nm == "cryptoutil::zero" and pred.canon(fn.expr(c.args[0]), fn) == "arg%d" % a):
                out.append(t[4])
    # iter_mut loop writing 0 to every element: loop over IterMut<'_, u8> of arg a whose Some-arm stores 0 through the item and whose only exit is the None arm
    for b in sorted(fn.reachable()):
        t = fn.term(b)
        if t[0] == "call":
            c = mir.Call(fn, b, t)
            if c.name().endswith("IterMut<'a, T> as core::iter::Iterator>::next"):
                it = fn.expr(c.args[0])
                src = [s for s in walk(it)]
                # the iterator variable must have been created from iter_mut(arg a)
                itv = [s for s in src if s[0] == "var"]
                okc = False
                for v in itv:
                    for db, di, w in fn.defs().get(v[1], []):
                        if di != "t" and w:
                            ee = fn.rvalue_expr(fn.blocks[db]["s"][di][2])
                            if any(x[0] == "call" and x[1].endswith("iter_mut") and pred.canon(x[2][0], fn) == "arg%d" % a for x in walk(ee)):
                                okc = True
                if not okc:
                    continue
                nb = t[4]
                tt = fn.term(nb)
                if tt[0] != "sw":
                    continue
                some = [bb for v, bb in tt[2] if v == 1]
                none = [bb for v, bb in tt[2] if v == 0]
                if not some or not none:
                    continue
                # Some arm: stores const 0 through the payload and jumps back to the loop
                st0 = False
                for s in fn.stmts(some[0]):
                    if s[0] == "=" and s[1][1] == ["*"] and s[2][0] == "use" and const_val(s[2][1]) == 0:
                        pe = fn.local_expr(s[1][0])
                        if any(x[0] == "downcast" for x in walk(pe)):
                            st0 = True
                back = fn.reaches(some[0], b) and not any(fn.term(x)[0] == "ret" for x in _blocks_between(fn, some[0], b))
                if st0 and back:
                    out.append(none[0])
    return out


def _blocks_between(fn, a, b):
    succ = fn.cfg()[0]
    seen = set()
    st = [a]
    while st:
        x = st.pop()
        if x in seen or x == b:
            continue
        seen.add(x)
        st.extend(succ[x])
    return seen


def check_clone(ctx, P):
    for T, _, _ in CIPHERS:
        adt = P.adts.get(T)
        if adt is None:
            ctx.lost("clone", T, "type not found")
            continue
        imp = [i for i in P.impls if i.get("trait") == "core::clone::Clone" and i["self_ty"].startswith(T + "<")]
        ok = len(imp) == 1 and imp[0]["derived"]
        bad = [f["t"] for v in adt["variants"] for f in v["fields"] if re.search(r"&|\*const|\*mut|Box<|Vec<|Rc<|Arc<", f["t"])]
        ctx.check(ok and not bad, "clone", T, "Clone is compiler-derived and the type holds no indirection", "Clone for %s is hand-written or the type holds indirection %s" % (T, bad), where=adt["span"])


def run(ctx):
    P = ctx.prog("K0")
    for T, incpat, has_seek in CIPHERS:
        ctx.guard("lockstep", T, lambda: check_process_mut(ctx, P, T))
        ctx.guard("update-order", T, lambda: check_update(ctx, P, T, incpat))
        if has_seek:
            ctx.guard("mustset", T + "::seek", lambda: check_seek(ctx, P, T))
        ctx.guard("new-offset", T, lambda: check_new(ctx, P, T))
        ctx.guard("process-order", T, lambda: check_process(ctx, P, T))
    # process_mut itself, by bounded shape evaluation (every offset; boundary lengths, all lengths in the thorough tier)
    from . import streamshape
    nss = []
    ctx.guard("shape-eval", "process_mut", lambda: nss.append(streamshape.check_process_mut(ctx, P, [c[0] for c in CIPHERS], thorough=ctx.tier == "thorough")))
    ctx.check(nss == [5], "floor", "shape-eval", "process_mut of all five ciphers decided by shape evaluation", "only %s of five process_mut functions decided by shape evaluation" % nss, key="floor:shape-eval")
    # the sibling comparison is a cross-check only: where a type's own rules (update-order, process-order) all hold, a
    # textual difference from the reference copy is a refactoring, not a defect
    for T, _, _ in CIPHERS:
        own = [v for v in ctx.violations if v["rule"] in ("update-order", "process-order", "guard", "mustset", "new-offset") and (v["instance"].startswith(T + ":") or v["instance"] == T)]
        if not own:
            ctx.subsume("sibling:%s::update" % T, "update-order holds for %s on its own" % T)
            ctx.subsume("sibling:%s::process" % T, "process-order holds for %s on its own" % T)
    ctx.guard("sibling", "ciphers", lambda: check_siblings(ctx, P))
    # seek / block stepping are only as good as the engine's counter operations: set_counter, increment and the 64-bit
    # carry of the engine actually built (value-graph rule shared with C03)
    from . import arx
    got = []
    ctx.guard("block-eq", "engines", lambda: got.append(arx.check_engines(ctx, {"K0": P})))
    ctx.check(got == [28], "floor", "block-eq", "28 engine pieces of the default build compared with the specification", "only %s engine pieces compared" % got, key="floor:block-eq")
    ctx.guard("nodep", "drg", lambda: check_drg(ctx, P))
    ctx.guard("clone", "ciphers", lambda: check_clone(ctx, P))
    ctx.not_decided += ["keystream values (C03)", "offset in [0,64] as an inductive interval invariant and bounds of every slice expression (tier 2)"]
