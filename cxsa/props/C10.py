"""C10 — HKDF, PBKDF2 and scrypt derive exactly the keys their RFCs define.

Decided:
  HKDF    the per-block counter byte fed to the PRF is a u8 variable advanced only by checked_add(1)
          whose None panics (no wrap, no truncating cast, no up-front rounding check); per block the
          PRF input order is [T(i-1) iff n != 1] || info || n, then raw_result into T, reset, and the
          chunk receives T[..chunk.len()]; chunks are output.chunks_mut(HashLen); extract keys HMAC
          with the salt over the IKM and checks prk.len()
  PBKDF2  c > 0 asserted; the block index is a u32 advanced only by checked_add(1); U1 =
          PRF(salt || INT_BE32(i)); U2 = PRF(U1) from the full block; later Uj = PRF(scratch); the
          block buffer handed to calculate_block always has PRF-output length (a short last chunk
          goes through a full-size temporary and is truncated on copy)
  scrypt  ScryptParams has private fields, its only aggregate is in new() and is dominated by all the
          RFC 7914 parameter checks; salsa20_8 runs 8 rounds with rotations {7,9,13,18}; scrypt()
          runs PBKDF2-HMAC-SHA256 with c = 1 before and after over buffers of p*128r, N*128r, 128r
  hmac    the PRF of all three KDFs: HMAC key preparation (expand / derive / create) and inner / outer order (shared with C08)
  shape-eval Hmac (new / input / raw_result / reset) against RFC 2104 with an UNINTERPRETED digest (transcript -> fresh symbols), every
             key length class x message split x {result, result again, reset + next message}; sizes derived from the code's
             length constants.  Independent of how the code is organised; the structural rules stay as cross-checks
             pbkdf2 against RFC 8018 with an uninterpreted PRF: DK = T_1 || T_2 || ... truncated, T_i = U_1 ^ ... ^ U_c, for
             every output length up to three blocks, c in {1,2,3,5}, several salt lengths and PRF sizes
             hkdf_extract / hkdf_expand against RFC 5869 with an uninterpreted digest that arrives WITH history (a missing
             reset is visible): PRK = HMAC(salt, IKM), OKM = T(1) || T(2) || ..., T(i) = HMAC(PRK, T(i-1) || info || i)
Not decided: ROMix / BlockMix data flow and values."""
import re

from .. import mir, pred, rules, ssa
from ..mir import fmt, walk, const_val

EXPLANATION = __doc__
TECHNIQUE = "MIR def-use rule for counters (checked_add only), loop-body call-order rule, linear-form guard facts dominating the constructor aggregate, rotation census; object-level bounded shape evaluation with an uninterpreted digest / PRF (transcript terms) against the RFC's defining term"


def cn(fn, op):
    return pred.canon(fn.expr(op), fn)


def counter_rule(ctx, fn, local, ty, inst, what):
    """Every definition of `local` is `0` or expect/unwrap(checked_add(local, 1))."""
    ok = fn.locals[local] == ty
    defs = rules.var_defs(fn, local)
    steps = 0
    bad = None
    for b, e in defs:
        if e[0] == "const" and e[1] == 0:
            continue
        if e[0] == "call" and (e[1].endswith("Option::<T>::expect") or e[1].endswith("Option::<T>::unwrap")):
            inner = e[2][0]
            if inner[0] == "call" and inner[1].endswith("<impl %s>::checked_add" % ty) and inner[2][0] == ("var", local) and inner[2][1][:2] == ("const", 1):
                steps += 1
                continue
        ok = False
        bad = e
    ctx.check(ok and steps >= 1, "counter-checked", inst, "%s is a %s advanced only by checked_add(1) with a panicking None" % (what, ty),
              "%s is not a %s advanced only through checked_add(1).expect(..): requests beyond the KDF's limit wrap or truncate instead of being refused (%s)" % (what, ty, fmt(bad) if bad else "type %s, %d steps" % (fn.locals[local], steps)), where=fn.where(), key="counter-checked:%s" % inst)


def check_hkdf(ctx, P):
    # the functions themselves, against RFC 5869 with an uninterpreted digest that arrives with history (independent of
    # how the code is organised); the structural rules below stay as cross-checks
    from . import objshape
    ctx.guard("shape-eval", "hkdf", lambda: objshape.check_hkdf(ctx, P))
    fn = P.fn("hkdf::hkdf_expand")
    loops = [l for l in rules.iter_loops(fn) if any(s[0] == "chunks_mut" for s in l["sources"])]
    if len(loops) != 1:
        ctx.lost("hkdf", "expand", "expected one loop over okm.chunks_mut(os)")
        return
    lp = loops[0]
    os_leaf = "<hmac::Hmac<D> as mac::Mac>::output_bytes"
    cm = [x for x in walk(lp["root"]) if x[0] == "call" and x[1].endswith("chunks_mut")]
    ok = pred.canon(cm[0][2][0], fn) == "arg4" and os_leaf in pred.canon(cm[0][2][1], fn) and not lp["early_exits"]
    ctx.check(ok, "hkdf-chunks", "okm.chunks_mut(HashLen)", "output is produced in HashLen chunks", "hkdf_expand does not walk okm in chunks of the PRF output length", where=fn.where())
    head = lp["call"].bb
    body_calls = rules.calls_between(fn, lp["some"], {head})
    macs = [c for c in body_calls if "mac::Mac>::" in c.name()]
    # the single-byte counter input
    nb = None
    tvec = None
    for c in macs:
        if c.name().endswith("::input"):
            e = fn.expr(c.args[1])
            for x in walk(e):
                if x[0] == "agg" and x[1][0] == "array" and len(x[2]) == 1:
                    nb = (c, x[2][0])
                if x[0] == "var":
                    for b, d in rules.var_defs(fn, x[1]):
                        if d[0] == "agg" and d[1][0] == "array" and len(d[2]) == 1:
                            nb = (c, d[2][0])
    if nb is None:
        ctx.fail("hkdf-order", "counter-byte", "no PRF input of a one-byte counter array found", where=fn.where(), key="hkdf-order:counter-byte")
        return
    ce = nb[1]
    ctx.check(ce[0] == "var", "counter-checked", "hkdf_expand:n-direct", "the counter byte is the counter variable itself", "the HKDF counter byte is computed (%s) instead of being the checked u8 counter: a cast or arithmetic can wrap" % fmt(ce), where=fn.where(nb[0].line), key="counter-checked:hkdf_expand:n-direct")
    if ce[0] == "var":
        counter_rule(ctx, fn, ce[1], "u8", "hkdf_expand:n", "the HKDF block counter")
    # order within an iteration
    def argpred(i, c):
        if i == 0:
            return cn(fn, c.args[1]) == "arg3"            # info
        if i == 1:
            return c.bb == nb[0].bb                      # counter byte
        return True
    seq = [r"mac::Mac>::input$", r"mac::Mac>::input$", r"mac::Mac>::raw_result$", r"mac::Mac>::reset$", r"copy_from_slice$"]
    mn, _ = rules.call_sequence_min_progress(fn, seq, start=lp["some"], stops={head}, argpred=argpred)
    ctx.check(mn == 5, "hkdf-order", "info||n -> T -> reset -> copy", "each block: input(info), input([n]), raw_result(T), reset, copy to the chunk", "hkdf_expand's per-block sequence is not input(info), input([n]), raw_result, reset, copy (progress %d/5)" % mn, where=fn.where(), key="hkdf-order:block")
    # T(i-1) absorbed iff n != 1, before info
    tin = [c for c in macs if c.name().endswith("::input") and c.bb != nb[0].bb and cn(fn, c.args[1]) != "arg3"]
    ok = len(tin) == 1
    if ok:
        facts = pred.facts_at(fn, tin[0].bb)
        ok = pred.atom("ne", 1, {pred.canon(ce, fn): 1}) in facts
        info_c = [c for c in macs if c.name().endswith("::input") and cn(fn, c.args[1]) == "arg3"]
        ok = ok and len(info_c) == 1 and not fn.reaches(info_c[0].bb, tin[0].bb, avoid={head})
        w = rules.window(fn, fn.expr(tin[0].args[1]))
        rr = [c for c in macs if c.name().endswith("::raw_result")]
        wt = rules.window(fn, fn.expr(rr[0].args[1])) if len(rr) == 1 else None
        ok = ok and w is not None and wt is not None and w[0] == wt[0] and w[1] == ((), 0) and w[2] is None
        cp = [c for c in body_calls if c.name().endswith("copy_from_slice")]
        if ok and len(cp) == 1:
            ws = rules.window(fn, fn.expr(cp[0].args[1]))
            wd = rules.window(fn, fn.expr(cp[0].args[0]))
            same_hi = ws is not None and wd is not None and (ws[2] == wd[2] or (wd[2] is None and ws[2] is not None and ws[2][1] == 0 and len(ws[2][0]) == 1 and ws[2][0][0][1] == 1 and ws[2][0][0][0] == "len(%s)" % wd[0]))
            ok = ws is not None and wd is not None and ws[0] == wt[0] and ws[1] == ((), 0) and same_hi and wd[1] == ((), 0) and ws[2] is not None
        else:
            ok = False
    ctx.check(ok, "hkdf-order", "T(i-1) iff n != 1", "previous block absorbed first iff n != 1; the chunk receives T[..chunk.len()]", "hkdf_expand does not chain T(i-1) (iff n != 1, before info) or does not copy T's prefix to the chunk", where=fn.where(), key="hkdf-order:chain")
    # T has HashLen bytes
    ex = P.fn("hkdf::hkdf_extract")
    seq = [r"hmac::Hmac::<D>::new$", r"mac::Mac>::input$", r"mac::Mac>::raw_result$"]
    mn, _ = rules.call_sequence_min_progress(ex, seq)
    hn = ex.calls_to(seq[0])
    hi = ex.calls_to(seq[1])
    hr = ex.calls_to(seq[2])
    ok = mn == 3 and len(hn) == 1 and len(hi) == 1 and len(hr) == 1 and cn(ex, hn[0].args[1]) == "arg2" and cn(ex, hi[0].args[1]) == "arg3" and cn(ex, hr[0].args[1]) == "arg4"
    ctx.check(ok, "hkdf-extract", "HMAC(salt, ikm) -> prk", "PRK = HMAC keyed with the salt over the IKM", "hkdf_extract is not HMAC(salt).input(ikm).raw_result(prk)", where=ex.where(), key="hkdf-extract")
    if hn:
        facts = pred.facts_at(ex, hn[0].bb)
        ok = any(f[0] == "eq" and dict(f[1]).get("len(arg4)") in (1, -1) and len(f[1]) == 2 and f[2] == 0 and any("output_bytes" in k for k, v in f[1]) for f in facts)
        ctx.check(ok, "guard", "hkdf_extract:prk.len()", "prk.len() == HashLen asserted", "hkdf_extract does not check prk.len() == digest.output_bytes()", where=ex.where(), key="guard:hkdf_extract:prk-len")


def check_pbkdf2(ctx, P):
    # the function itself, against RFC 8018 with an uninterpreted PRF (independent of how the code is organised); the
    # structural rules below decide the same clauses for every length and stay as cross-checks
    from . import objshape
    ctx.guard("shape-eval", "pbkdf2", lambda: objshape.check_pbkdf2(ctx, P))
    fn = P.fn("pbkdf2::pbkdf2")
    cbs = fn.calls_to(r"^pbkdf2::calculate_block$")
    if not cbs:
        ctx.lost("pbkdf2", "calculate_block", "no calculate_block call")
        return
    # c > 0
    ok = all(pred.implies(pred.facts_at(fn, c.bb), pred.A("le", -1, **{"arg3": -1})) for c in cbs)
    ctx.check(ok, "guard", "pbkdf2:c>0", "c > 0 asserted before any block is computed", "pbkdf2 does not refuse c == 0", where=fn.where(), key="guard:pbkdf2:c>0")
    # index counter
    idxs = set()
    for c in cbs:
        e = fn.expr(c.args[3])
        idxs.add(e[1] if e[0] == "var" else None)
        ctx.check(cn(fn, c.args[0]) == "arg1" and cn(fn, c.args[1]) == "arg2" and cn(fn, c.args[2]) == "arg3", "wire", "pbkdf2:calculate_block(mac,salt,c,..)", "(mac, salt, c) passed through", "calculate_block is not called with (mac, salt, c)", where=fn.where(c.line))
    if len(idxs) == 1 and None not in idxs:
        counter_rule(ctx, fn, list(idxs)[0], "u32", "pbkdf2:idx", "the PBKDF2 block index")
    else:
        ctx.fail("counter-checked", "pbkdf2:idx", "the block index passed to calculate_block is not the counter variable", where=fn.where(), key="counter-checked:pbkdf2:idx")
    # block buffer has PRF output length
    os_leaf = None
    for c in fn.calls_to(r"mac::Mac::output_bytes$"):
        os_leaf = pred.canon(("call", c.name(), tuple(fn.expr(a) for a in c.args), (c.bb,)), fn)
    okall = True
    why = ""
    for c in cbs:
        be = fn.expr(c.args[5])
        w = rules.window(fn, be)
        full = False
        if w and w[1] == ((), 0) and w[2] is None:
            # whole buffer: either the chunk under chunk.len() == os, or a fresh vec of os zeros
            facts = pred.facts_at(fn, c.bb)
            base = w[0]
            if any(f[0] == "eq" and f[2] == 0 and len(f[1]) == 2 and dict(f[1]).get(os_leaf) is not None and any(k.startswith("len(") for k, v in f[1]) for f in facts):
                # which buffer is the one whose len == os ?
                for f in facts:
                    if f[0] == "eq" and f[2] == 0 and len(f[1]) == 2 and dict(f[1]).get(os_leaf) is not None:
                        lk = [k for k, v in f[1] if k.startswith("len(")]
                        if lk and lk[0] == "len(%s)" % base:
                            full = True
            if not full:
                # fresh Vec: repeat(0).take(os).collect()
                for x in walk(be):
                    if x[0] == "var":
                        for b, d in rules.var_defs(fn, x[1]):
                            tk = [y for y in walk(d) if y[0] == "call" and y[1].endswith("::take")]
                            if tk and pred.canon(tk[0][2][1], fn) == os_leaf:
                                full = True
        if not full:
            okall = False
            why = "block argument %s" % fmt(be)[:120]
    ctx.check(okall, "pbkdf2-blocklen", "block buffer = hLen bytes", "every block is computed into a buffer of exactly PRF-output length (a short last chunk goes through a full-size temporary)", "pbkdf2 hands calculate_block a block buffer that is not of PRF-output length (%s): U1 is truncated before U2 = PRF(U1)" % why, where=fn.where(), key="pbkdf2-blocklen")
    # truncating copy on the partial path
    cps = [c for c in fn.calls() if c.name().endswith("copy_from_slice")]
    ok = len(cps) == 1
    if ok:
        wd = rules.window(fn, fn.expr(cps[0].args[0]))
        ws = rules.window(fn, fn.expr(cps[0].args[1]))
        ok = wd is not None and ws is not None and wd[1] == ((), 0) and ws[1] == ((), 0) and wd[2] is not None and wd[2] == ws[2]
    ctx.check(ok, "pbkdf2-blocklen", "truncate-on-copy", "chunk[0..n] = tmp[..n]", "the partial last block is not the prefix of the full block", where=fn.where(), key="pbkdf2-blocklen:copy")
    # calculate_block
    cb = P.fn("pbkdf2::calculate_block")
    calls = [c for c in cb.calls() if c.callee and c.callee.startswith("mac::Mac::")]
    first = []
    for c in calls:
        if c.bb in cb.loop_blocks():
            break
        first.append((c.callee.split("::")[-1], [cn(cb, a) for a in c.args[1:]]))
    pre = first[:4]
    ok = [p[0] for p in pre] == ["input", "input", "raw_result", "reset"] and pre[0][1] == ["arg2"] and pre[2][1] == ["arg6"]
    be = False
    if ok:
        e = cb.expr(calls[1].args[1])
        be = any(x[0] == "call" and x[1].endswith("u32>::to_be_bytes") and pred.canon(x[2][0], cb) == "arg4" for x in walk(e))
    ctx.check(ok and be, "pbkdf2-u1", "U1 = PRF(salt || INT_BE32(i))", "U1 = PRF(salt || big-endian 32-bit block index) written to the block", "calculate_block does not compute U1 = PRF(salt || INT_BE32(idx)) into the block: %s" % pre, where=cb.where(), key="pbkdf2-u1")
    nxt = first[4:7]
    ok2 = [p[0] for p in nxt] == ["input", "raw_result", "reset"] and nxt[0][1] == ["arg6"] and nxt[1][1] == ["arg5"]
    if ok2:
        f = pred.facts_at(cb, calls[4].bb)
        ok2 = pred.implies(f, pred.A("le", -2, **{"arg3": -1}))
    ctx.check(ok2, "pbkdf2-u2", "U2 = PRF(U1) iff c > 1", "second iteration: PRF over the whole block into scratch, only when c > 1", "calculate_block's second iteration is not `if c > 1 { input(block); raw_result(scratch) }`: %s" % nxt, where=cb.where(), key="pbkdf2-u2")
    lps = [l for l in rules.iter_loops(cb) if any(s[0] == "range" for s in l["sources"])]
    ok3 = len(lps) == 1 and lps[0]["sources"] == [("range", ("2", "arg3"))]
    if ok3:
        body = rules.calls_between(cb, lps[0]["some"], {lps[0]["call"].bb})
        mm = [(c.callee.split("::")[-1], [cn(cb, a) for a in c.args[1:]]) for c in body if c.callee and c.callee.startswith("mac::Mac::")]
        ok3 = mm == [("input", ["arg5"]), ("raw_result", ["arg5"]), ("reset", [])]
    ctx.check(ok3, "pbkdf2-uj", "Uj = PRF(U(j-1)) for j in 3..=c", "remaining c-2 iterations over 2..c chain through scratch", "calculate_block's remaining iterations are not `for _ in 2..c { input(scratch); raw_result(scratch); reset }`", where=cb.where(), key="pbkdf2-uj")
    # xor accumulation loops: block ^= scratch over the full zip
    def xor_loops(f, dst, src):
        ls = [l for l in rules.iter_loops(f) if any(s_[0] == "iter_mut" for s_ in l["sources"])]
        good = [l for l in ls if sorted(l["sources"]) == [("iter", src), ("iter_mut", dst)] and not l["early_exits"] and not [c for c in l["chain"] if c.split("::")[-1] not in ("iter", "iter_mut", "zip", "into_iter")]]
        # the body is  *out ^= in
        n_ = 0
        for l in good:
            x_ = [st for b_ in l["body"] for st in f.stmts(b_) if st[0] == "=" and st[1][1] == ["*"] and st[2][0] == "bin" and st[2][1] == "BitXor"]
            n_ += 1 if len(x_) == 1 else 0
        return len(ls), n_
    nl, ng = xor_loops(cb, "arg6", "arg5")
    ok4 = nl == 2 and ng == 2
    if not ok4 and nl == 0:
        # the accumulation extracted into a private helper called as helper(block, scratch)
        hc = [c for c in cb.calls() if c.local and len(c.args) == 2 and cn(cb, c.args[0]) == "arg6" and cn(cb, c.args[1]) == "arg5" and P.fn_opt(c.name()) is not None and c.name().startswith("pbkdf2::")]
        if len(hc) == 2 and len({c.name() for c in hc}) == 1:
            hf = P.fn(hc[0].name())
            ok4 = xor_loops(hf, "arg1", "arg2") == (1, 1)
    ctx.check(ok4, "pbkdf2-xor", "T ^= Uj over every byte", "the block accumulates every Uj by xor over the whole block", "calculate_block does not xor every Uj into the whole block", where=cb.where(), key="pbkdf2-xor")


def check_scrypt(ctx, P):
    fn = P.fn("scrypt::ScryptParams::new")
    aggs = [(b, s) for b in sorted(fn.reachable()) for s in fn.stmts(b) if s[0] == "=" and s[2][0] == "agg" and s[2][1][0] == "adt" and s[2][1][1] == "scrypt::ScryptParams"]
    others = [f.path for f in P.fns.values() if f.id != fn.id and any(s[0] == "=" and s[2][0] == "agg" and s[2][1][0] == "adt" and s[2][1][1] == "scrypt::ScryptParams" for b in f.reachable() for s in f.stmts(b)) and not (f.impl_trait or "").startswith("core::clone")]
    adt = P.adts["scrypt::ScryptParams"]
    priv = all(not f["vis"].startswith("Public") for v in adt["variants"] for f in v["fields"])
    ctx.check(len(aggs) == 1 and not others and priv, "ctor-only", "ScryptParams", "fields are private and the only constructor aggregate is in new()", "ScryptParams can be built outside new(): %s / private=%s" % (others, priv), where=fn.where(), key="ctor-only:ScryptParams")
    if len(aggs) != 1:
        return
    b = aggs[0][0]
    facts = pred.facts_at(fn, b)
    need = {
        "r > 0": pred.A("le", -1, arg2=-1),
        "p > 0": pred.A("le", -1, arg3=-1),
        "log_n > 0": pred.A("le", -1, arg1=-1),
        "log_n < usize bits": pred.A("le", 63, arg1=1),
        "log_n < 16 r": pred.A("le", -1, arg1=1, arg2=-16),
    }
    for nm, at in need.items():
        ctx.check(pred.implies(facts, at), "param-guard", "ScryptParams::new:" + nm, "`%s` dominates the constructor" % nm, "ScryptParams::new no longer enforces `%s` (RFC 7914 parameter constraint) before constructing the parameters" % nm, where=fn.where(), key="param-guard:ScryptParams::new:%s" % nm.replace(" ", ""))
    # r * p < 2^30
    ok = any(f[0] == "le" and f[2] == 0x40000000 - 1 and len(f[1]) == 1 and "Mul" in f[1][0][0] and "arg2" in f[1][0][0] and "arg3" in f[1][0][0] for f in facts)
    # ... and the product is formed in a type that cannot wrap for any two u32 arguments (in a release build a wrapped
    # u32 product would let r = p = 65536 through)
    narrow = []
    for bb in sorted(fn.reachable()):
        for st in fn.stmts(bb):
            if st[0] == "=" and st[2][0] == "bin" and st[2][1].startswith("Mul"):
                names = "".join(pred.canon(fn.expr(o), fn) for o in st[2][2:4])
                if "arg2" in names and "arg3" in names:
                    ty = fn.locals[st[1][0]] or ""
                    if not re.search(r"\b(usize|u64|u128)\b", ty):
                        narrow.append(ty)
    ok = ok and not narrow
    ctx.check(ok, "param-guard", "ScryptParams::new:r*p<2^30", "`r * p < 2^30` dominates the constructor and is computed in a 64-bit type", "ScryptParams::new no longer enforces r * p < 2^30 for every pair of u32 arguments%s" % ((": the product is formed in %s and wraps" % narrow[0]) if narrow else ""), where=fn.where(), key="param-guard:ScryptParams::new:r*p")
    # checked multiplications 128 r, 128 r N, 128 r p with panicking None
    prods = []
    for e, val, o in fn.edge_facts(b):
        if e[0] == "disc" and val == ("in", (1,)):
            for x in walk(e):
                if x[0] == "call" and x[1].endswith("usize>::checked_mul"):
                    prods.append(tuple(sorted(pred.canon(a, fn) for a in x[2])))
    # ... or calls (dominating the constructor) to a private helper that is exactly `checked_mul(a, b)` with a panicking None
    for c in fn.calls():
        if c.local and len(c.args) == 2 and fn.dominates(c.bb, b):
            hf = P.fn_opt(c.name())
            if hf is None or hf.argc != 2:
                continue
            cm = [k for k in hf.calls() if k.name().endswith("usize>::checked_mul")]
            if len(cm) == 1 and sorted(pred.canon(hf.expr(a), hf) for a in cm[0].args) == ["arg1", "arg2"]:
                ret = pred.short(hf.local_expr(0), hf)
                diverging = any(hf.diverges(bb_) for bb_ in hf.reachable())
                if "checked_mul(" in ret and "Some" in ret and diverging and not [k for k in hf.calls() if k.local]:
                    prods.append(tuple(sorted(pred.canon(fn.expr(a), fn) for a in c.args)))

    def has(sub):
        return any(all(any(s in part for part in p) for s in sub) for p in prods)
    ok = len(prods) >= 3 and has(["arg2", "128"]) and any("Shl" in "".join(p) or "arg1" in "".join(p) for p in prods) and any("arg3" in "".join(p) for p in prods)
    ctx.check(ok, "param-guard", "ScryptParams::new:overflow", "128 r, 128 r N and 128 r p are checked multiplications whose None panics", "ScryptParams::new no longer refuses parameter sets whose buffer sizes overflow: %s" % prods, where=fn.where(), key="param-guard:ScryptParams::new:overflow")
    # stored fields are the checked arguments
    d = dict(zip(aggs[0][1][2][1][4], [fn.expr(o) for o in aggs[0][1][2][2]]))
    ok = pred.canon(d["log_n"], fn) == "arg1" and pred.canon(d["r"], fn) == "arg2" and pred.canon(d["p"], fn) == "arg3"
    ctx.check(ok, "wire", "ScryptParams::new:fields", "fields = (log_n, r, p)", "ScryptParams::new stores different values than it checked", where=fn.where())
    # salsa20/8
    s8 = P.fn("scrypt::salsa20_8")
    lps = [l for l in rules.iter_loops(s8) if any(s[0] == "range" for s in l["sources"])]
    rc = rules.rotation_census(s8)
    rl = sorted((32 - r) % 32 for r in rc if isinstance(r, int))
    rng = [l["sources"] for l in lps]
    ok = len(rc) == 32 and rl == sorted([7, 9, 13, 18] * 8) and any(s == [("range", ("0", "4"))] or s == [("range", ("0", "lin{+4}"))] for s in rng)
    if not ok:
        # range end may be written rounds / 2 with rounds = 8
        for l in lps:
            for s in l["sources"]:
                if s[0] == "range" and s[1][0] == "0":
                    try:
                        v = rules._eval_param_expr([x for x in walk(l["root"]) if x[0] == "agg"][0][2][1], {})
                        if v == 4 and len(rc) == 32 and rl == sorted([7, 9, 13, 18] * 8):
                            ok = True
                    except Exception:
                        pass
    ctx.check(ok, "salsa20/8", "scrypt::salsa20_8", "4 double rounds with rotations {7,9,13,18}", "scrypt's Salsa20/8 core does not run 8 rounds with Salsa's rotation amounts: loops %s rotations %s" % (rng, rl), where=s8.where(), key="salsa20/8")
    # scrypt(): PBKDF2 c=1 before and after
    sf = P.fn("scrypt::scrypt")
    pb = sf.calls_to(r"^pbkdf2::pbkdf2$")
    ok = len(pb) == 2 and all(sf.expr(c.args[2])[:2] == ("const", 1) for c in pb)
    if ok:
        ok = cn(sf, pb[0].args[1]) == "arg2" and cn(sf, pb[1].args[3]) == "arg4" and sf.dominates(pb[0].bb, pb[1].bb)
        rm = sf.calls_to(r"^scrypt::scrypt_ro_mix$")
        ok = ok and len(rm) == 1 and sf.reaches(pb[0].bb, rm[0].bb) and sf.reaches(rm[0].bb, pb[1].bb)
    ctx.check(ok, "scrypt-wire", "PBKDF2(c=1) .. ROMix .. PBKDF2(c=1)", "B = PBKDF2(P, S, 1), ROMix per 128r chunk, DK = PBKDF2(P, B, 1)", "scrypt() is not PBKDF2(c=1), ROMix, PBKDF2(c=1) over (salt -> B -> output)", where=sf.where(), key="scrypt-wire")
    hn = sf.calls_to(r"hmac::Hmac::<D>::new$")
    ok = len(hn) == 1 and hn[0].res_ga == ["sha2::Sha256"] and cn(sf, hn[0].args[1]) == "arg1"
    ctx.check(ok, "scrypt-wire", "PRF = HMAC-SHA256(password)", "the PRF is HMAC-SHA-256 keyed with the password", "scrypt's PRF is not HMAC-SHA-256 keyed with the password", where=sf.where(), key="scrypt-wire:prf")
    # integerify: LE32 at len-64, & (n-1)
    # ... in the private helper, or written out in scrypt_ro_mix where the index into V is computed
    ig = P.fn_opt("scrypt::scrypt_ro_mix::integerify")
    rmx = P.fn("scrypt::scrypt_ro_mix")
    ok = False
    if ig is not None:
        cands = [(ig, "arg1", "arg2", [ig.local_expr(0)])]
        hc = rmx.calls_to(r"scrypt_ro_mix::integerify$")
        wired = len(hc) == 1 and cn(rmx, hc[0].args[0]) == "arg1" and cn(rmx, hc[0].args[1]) == "arg4"
    else:
        # the index expressions of the window of V handed to xor
        roots = []
        for c in rmx.calls_to(r"^scrypt::xor$"):
            roots.append(rmx.expr(c.args[1]))
        cands = [(rmx, "arg1", "arg4", roots)]
        wired = bool(roots)
        ig = rmx
    for f_, B_, N_, roots in cands:
        for e in roots:
            for x in walk(e):
                if x[0] == "bin" and x[1] == "BitAnd":
                    sides = [x[2], x[3]]
                    m_ = [s_ for s_ in sides if pred.lin(s_, f_) == ({N_: 1}, -1)]
                    r_ = [s_ for s_ in sides if any(y[0] == "call" and y[1] == "cryptoutil::read_u32_le" for y in walk(s_))]
                    if m_ and r_:
                        for y in walk(r_[0]):
                            if y[0] == "call" and y[1] == "cryptoutil::read_u32_le":
                                w = rules.window(f_, y[2][0])
                                ok = wired and w is not None and w[0] == B_ and w[1] == ((("len(%s)" % B_, 1),), -64) and w[2] == ((("len(%s)" % B_, 1),), -60)
    e = cands[0][3][0] if cands[0][3] else ("opaque", "no index expression")
    ctx.check(ok, "scrypt-integerify", "LE32(B[len-64..]) & (N-1)", "Integerify reads the first word of the last 64-byte block, masked with N-1", "integerify does not read LE32 at len-64 masked with n-1: %s" % fmt(e), where=ig.where(), key="scrypt-integerify")


def term_eval(t, leaf):
    """evaluate an ssa integer term; `leaf(term)` supplies values for leaves (None = unknown)"""
    v = leaf(t)
    if v is not None:
        return v
    if not isinstance(t, tuple) or not t:
        return None
    k = t[0]
    if k == "c":
        return int(t[1]) if not isinstance(t[1], bool) else int(t[1])
    if k == "cast":
        return term_eval(t[1], leaf)
    if k == "ite":
        c = term_eval(t[1], leaf)
        if c is None:
            return None
        return term_eval(t[2] if c else t[3], leaf)
    if k == "bin":
        a, b = term_eval(t[2], leaf), term_eval(t[3], leaf)
        if a is None or b is None:
            return None
        op = t[1]
        try:
            return {"Add": a + b, "Sub": a - b, "Mul": a * b, "Div": a // b if b else None, "Rem": a % b if b else None, "BitAnd": a & b, "BitOr": a | b, "BitXor": a ^ b,
                    "Shl": a << b, "Shr": a >> b, "Eq": int(a == b), "Ne": int(a != b), "Lt": int(a < b), "Le": int(a <= b), "Gt": int(a > b), "Ge": int(a >= b)}[op]
        except KeyError:
            return None
    return None


def check_block_mix(ctx, P):
    """RFC 7914 BlockMix output order: Y0, Y2, ..., Y(2r-2), Y1, Y3, ..., Y(2r-1)."""
    fn = P.fn("scrypt::scrypt_block_mix")
    r = ssa.Eval(P, fn).run()
    outs = [c for c in r.calls if c[1].endswith("copy_from_slice") and isinstance(c[2][0], tuple) and c[2][0][0] == "ref" and c[2][0][1] == ("ext", "arg2")]
    ok = len(outs) == 1 and outs[0][2][0][3] is not None
    bad = None
    n = 0
    if ok:
        lo, hi = outs[0][2][0][3]

        def is_idx(t):
            return isinstance(t, tuple) and t and t[0] == "elem" and "Enumerate" in repr(t) and t[-1] == "0" and isinstance(t[1], tuple) and t[1][0] == "elem"
        for rr in range(1, 17):
            L = 128 * rr
            for i in range(2 * rr):
                def leaf(t, i=i, L=L):
                    if t == ("len", "arg1"):
                        return L
                    if is_idx(t):
                        return i
                    return None
                a, b = term_eval(lo, leaf), term_eval(hi, leaf)
                want = (i // 2) * 64 + (i % 2) * (L // 2)
                n += 1
                if a != want or b != want + 64:
                    bad = bad or (rr, i, a, b, want)
    ctx.check(ok and bad is None and n == 272, "blockmix-order", "scrypt_block_mix", "sub-block i is written to output[(i/2)*64 + (i%%2)*len/2 ..+64] (constant propagation over r = 1..16, i < 2r: %d cases)" % n,
              "scrypt_block_mix does not place sub-block i at (i/2)*64 + (i%%2)*(len/2): %s" % (("for r=%d, i=%d it writes [%s..%s), RFC 7914 requires offset %d" % bad) if bad else "output window not found"), where=fn.where(), key="blockmix-order")
    # X starts as the last 64-byte sub-block; each step is X = Salsa20/8(X xor B_i)
    xs = [c for c in r.calls if c[1] in ("scrypt::xor", "scrypt::salsa20_8")]
    names = [c[1].split("::")[-1] for c in xs]
    ctx.check(names == ["xor", "salsa20_8"], "blockmix-step", "scrypt_block_mix", "per sub-block: t = X xor B_i; X = Salsa20/8(t)", "scrypt_block_mix's loop body is not xor then salsa20_8: %s" % names, where=fn.where(), key="blockmix-step")


def check_hkdf_fresh(ctx, P):
    for nm in ("hkdf_extract", "hkdf_expand"):
        fn = P.fn("hkdf::" + nm)
        hn = fn.calls_to(r"hmac::Hmac::<D>::new$")
        rs = [c for c in fn.calls() if (c.trait or "").endswith("digest::Digest") and c.name().endswith("::reset") or (c.callee or "").endswith("Digest::reset")]
        rs = [c for c in rs if cn(fn, c.args[0]) == "arg1"]
        others = [c for c in fn.calls() if ((c.callee or "").startswith("digest::Digest::") and not (c.callee or "").endswith(("::reset", "::output_bytes", "::output_bits", "::block_size")) and cn(fn, c.args[0]) == "arg1")]
        ok = len(hn) == 1 and len(rs) >= 1 and any(fn.dominates(c.bb, hn[0].bb) and c.bb != hn[0].bb for c in rs) and cn(fn, hn[0].args[0]) == "arg1" and not others
        ctx.check(ok, "hkdf-fresh", nm, "the caller's digest is reset before it keys the HMAC (Hmac::new does not reset it)", "%s hands the caller's digest to Hmac::new without resetting it first: a digest with history yields a wrong PRK / OKM" % nm, where=fn.where(), key="hkdf-fresh:%s" % nm)


def run(ctx):
    P = ctx.prog("K0")
    ctx.guard("hkdf", "expand/extract", lambda: check_hkdf(ctx, P))
    ctx.guard("hkdf-fresh", "expand/extract", lambda: check_hkdf_fresh(ctx, P))
    ctx.guard("blockmix-order", "scrypt", lambda: check_block_mix(ctx, P))
    ctx.guard("pbkdf2", "pbkdf2", lambda: check_pbkdf2(ctx, P))
    ctx.guard("scrypt", "scrypt", lambda: check_scrypt(ctx, P))
    # the PRF of all three KDFs: HMAC's key preparation and inner / outer order (shared rule instances with C08)
    from . import objects
    ctx.guard("hmac-keys", "expand/derive/create", lambda: objects.check_hmac_keys(ctx, P))
    ctx.guard("hmac", "Mac", lambda: objects.check_hmac_mac(ctx, P))
    # the digests underneath: padding position and zero fill, length fields, sponge padding (structural rules shared with C01)
    from . import C01 as _C01
    ctx.guard("padding", "standard_padding", lambda: _C01.check_standard_padding(ctx, P))
    ctx.guard("length-field", "md", lambda: _C01.check_length_fields(ctx, P))
    ctx.guard("sponge-pad", "sha3", lambda: _C01.check_sponge_pad(ctx, P))
    # the SHA-256 block function of the SIMD builds (a one-shot call batches 4 / 8 blocks, a split call does not): value-graph
    # equality with FIPS 180-4, shared rule instances with C16 / C01
    from . import sha2eq as _sha2eq
    _g3 = []
    _cases = {("K3", "hashing::sha2::impl256::sse41::digest_block"), ("K4", "hashing::sha2::impl256::avx::digest_block")}
    ctx.guard("compress-eq", "sha256-simd", lambda: _g3.append(_sha2eq.check_sha256(ctx, {"K3": 1, "K4": 1}, cases=_cases)))
    ctx.check(_g3 == [4], "floor", "compress-eq", "3 SIMD SHA-256 runs (4 and 4+1 blocks SSE4.1, 8 blocks AVX) equal the FIPS 180-4 compression", "only %s SIMD SHA-256 comparisons ran" % _g3, key="floor:compress-eq")
    ctx.not_decided += ["ROMix / BlockMix data flow and all derived key values", "the digests under HMAC (C01)"]
