"""C12 — X25519 equals the RFC 7748 function for every scalar and every u-coordinate.

Decided:
  clamp      in curve25519 and curve25519_base, at the first use of the scalar copy inside the ladder,
             byte 0 has bits 0-2 cleared, byte 31 has bit 7 cleared and bit 6 set, every other bit is
             the caller's (term-domain dataflow + known bits; any way of writing the clamp passes)
  decode     Fe::from_bytes (64-bit backend): limb i, bit j is exactly input bit 51 i + j for
             51 i + j < 255; bit 255 reaches no limb
  ladder     the loop visits bit positions 254..0 of the clamped scalar (byte pos/8, bit pos&7); the
             conditional swaps use swap ^ bit and then swap = bit; the step's four outputs equal, as
             polynomials, the RFC 7748 formulas (x1 = 9 in the fixed-base variant, a24 = 121665 form);
             both final swaps precede the inversion; result = (z2^-1 * x2).to_bytes()
  exponent   Fe::invert computes self^(p-2), pow25523 self^((p-5)/8), square_repeatdly(n) self^(2^n)
  total      no explicit panic is reachable from the two entry points (X25519 is total: zero and
             small-order inputs must give the all-zero output, not a panic)
  wrappers   x25519::dh / base delegate to curve25519 / curve25519_base
  backends   all of the above on the MIR of BOTH limb backends (default and --features force-32bits)
  limbpoly   add, sub, neg, mul, square, mul_small, square_repeatdly == the polynomial function modulo 2^255-19 (shared with C15)
  fe-bounds  fe64: one bound vector B is closed under every producer of an Fe and excludes every overflow assert / lossy
             narrowing; fe32: tight/loose contracts of the ref10 discipline (interval abstract interpretation)
  decode32   fe32 from_bytes == LE(bytes) - 2^255 * bit255 (mod p) as a polynomial identity over the input bytes
  encode     to_packed / to_bytes: reduction identity modulo p with the folded quotients, reduced output digits, bit packing
  fe-use     32-bit backend: every call site of a field operation anywhere in the crate hands it operands built from at most
             three TIGHT values without a carry (the contract fe-bounds proves); nobody outside fe32 touches Fe limbs
Not decided: that the quotient folded back by the canonical reduction is floor(H / p) for every input."""
import re

from .. import mir, pred, rules, ssa, termbits, fexpr
from ..poly import Poly
from ..mir import fmt, walk, const_val
from ..spec import curve

EXPLANATION = __doc__
TECHNIQUE = "interval abstract interpretation over ssa terms with exact carry/remainder relations and trace partitioning on carries (inductive limb-bound invariants, overflow-assert discharge); limb-polynomial identities; term-domain dataflow with bit provenance (clamp, limb decoding), polynomial normal form of the ladder step vs. RFC 7748, exponent evaluation of addition chains, call-graph panic reachability; level (type-state) dataflow over every fe32 operation call site of the crate against the proved 3xTIGHT operand contract, who-may-access rule for Fe limbs"


def clamp_bits(ctx, P, path, argname="arg1"):
    fn = P.fn(path)
    ev = ssa.Eval(P, fn)
    r = ev.run()
    # state at the first loop head
    loops = [l for l in rules.iter_loops(fn) if any(s[0] == "range" for s in l["sources"])]
    if len(loops) != 1:
        ctx.lost("clamp", path, "ladder loop not found")
        return None
    head = loops[0]["call"].bb
    env, mem = r.block_in.get(head, ({}, {}))
    cand = [l for l, v in env.items() if isinstance(v, ssa.Agg) and isinstance(v.get("_d"), tuple) and v["_d"][:2] == ("load", argname) and fn.locals[l] == "[u8; 32]"]
    if len(cand) != 1:
        ctx.fail("clamp", path, "no clamped copy of the scalar is live at the ladder loop (the scalar is used unclamped or the clamp is not applied to the copy the ladder reads)", where=fn.where(), key="clamp:%s" % path)
        return None
    e = env[cand[0]]
    B = termbits.Bits(termbits.byte_leaf({argname}))
    ok = True
    bad = []
    for i in range(32):
        got = B.bits(e.get_elem(i), 8)
        want = [(argname, 8 * i + j) for j in range(8)]
        if i == 0:
            want[0] = want[1] = want[2] = 0
        if i == 31:
            want[7] = 0
            want[6] = 1
        if got != want:
            ok = False
            bad.append((i, termbits.show(got)))
    ctx.check(ok, "clamp", path, "e[0] &= 248, e[31] = (e[31] & 127) | 64, all other bits untouched — at the ladder loop", "%s: the scalar the ladder reads is not the RFC 7748 clamped scalar: %s" % (path, bad[:3]), where=fn.where(), key="clamp:%s" % path)
    # the ladder reads that copy
    return cand[0], loops[0]


def check_from_bytes64(ctx, P):
    fn = P.fn("curve25519::fe::fe64::Fe::from_bytes")
    r = ssa.Eval(P, fn, inline=lambda n: n.endswith("from_bytes::load")).run()
    ret = r.ret
    limbs = ret.get("0") if isinstance(ret, ssa.Agg) else None
    if not isinstance(limbs, ssa.Agg):
        ctx.fail("decode", "fe64::from_bytes", "cannot see the five limbs of the result", where=fn.where(), key="decode:fe64::from_bytes")
        return
    B = termbits.Bits(termbits.byte_leaf({"arg1"}))
    ok = True
    bad = []
    for i in range(5):
        got = B.bits(limbs.get_elem(i), 64)
        want = [("arg1", 51 * i + j) if (j < 51 and 51 * i + j < 255) else 0 for j in range(64)]
        if got != want:
            ok = False
            bad.append((i, termbits.show(got[48:56])))
    ctx.check(ok, "decode", "fe64::from_bytes", "limb i = input bits [51i, 51i+51); bit 255 is dropped", "fe64 Fe::from_bytes does not decode the 255-bit little-endian value into 51-bit limbs (bit 255 must be ignored): limbs %s" % bad, where=fn.where(), key="decode:fe64::from_bytes")


def ladder(ctx, P, path, fixed_base):
    fn = P.fn(path)
    res = clamp_bits(ctx, P, path)
    if res is None:
        return
    eloc, lp = res
    # loop range and order
    chain = [c.split("::")[-1] for c in lp["chain"]]
    ok = ("range", ("0", "255")) in lp["sources"] and "rev" in chain and not lp["early_exits"]
    ctx.check(ok, "ladder-range", path, "bit positions 254 down to 0", "%s: the ladder does not iterate (0..255).rev(): %s %s" % (path, lp["sources"], chain), where=fn.where(), key="ladder-range:%s" % path)
    # roles from the return expression
    ret = fn.local_expr(0)
    roles = {}
    m_ = None
    for x in walk(ret):
        if x[0] == "call" and fexpr.MUL.search(x[1]):
            m_ = x
    tb = ret[0] == "call" and ret[1].endswith("Fe::to_bytes")
    if m_ is None or not tb:
        ctx.fail("ladder-out", path, "result is not (z2^-1 * x2).to_bytes()", where=fn.where(), key="ladder-out:%s" % path)
        return
    for a in m_[2]:
        a = fexpr.strip(a)
        if a[0] == "call" and fexpr.INVERT.search(a[1]):
            z = fexpr.strip(a[2][0])
            roles["z2"] = z[1] if z[0] == "var" else None
        elif a[0] == "var":
            roles["x2"] = a[1]
    swaps = [c for c in fn.calls() if c.name().endswith("Fe::maybe_swap_with")]
    for c in swaps:
        a = fexpr.strip(fn.expr(c.args[0]))
        b = fexpr.strip(fn.expr(c.args[1]))
        if a[0] == "var" and b[0] == "var":
            if a[1] == roles.get("x2"):
                roles["x3"] = b[1]
            if a[1] == roles.get("z2"):
                roles["z3"] = b[1]
    if len(roles) != 4 or None in roles.values():
        ctx.fail("ladder-out", path, "cannot identify the ladder state (x2, z2, x3, z3) from the output expression and the swaps", where=fn.where(), key="ladder-out:%s" % path)
        return
    ctx.ok("ladder-out", path, "result = (invert(z2) * x2).to_bytes()")
    inv = {v: k for k, v in roles.items()}
    # x1
    x1_e = None
    def leaf(cn, e):
        e = fexpr.strip(e)
        if e[0] == "var" and e[1] in inv:
            return inv[e[1]]
        if e[0] == "call" and e[1].endswith("Fe::from_bytes"):
            return "x1"
        return None
    body = lp["body"]
    got = {}
    for role, loc in roles.items():
        for b, e in rules.var_defs(fn, loc):
            if b in body:
                got[role] = fexpr.to_poly(fn, e, leaf)
    x2, z2, x3, z3 = (Poly.var(n) for n in ("x2", "z2", "x3", "z3"))
    x1 = Poly.const(9) if fixed_base else Poly.var("x1")
    A, Bp, Cc, Dd = x2 + z2, x2 - z2, x3 + z3, x3 - z3
    AA, BB = A * A, Bp * Bp
    E = AA - BB
    DA, CB = Dd * A, Cc * Bp
    want = {"x3": (DA + CB) * (DA + CB), "z3": x1 * ((DA - CB) * (DA - CB)), "x2": AA * BB, "z2": E * (AA + E * 121665)}
    for role in ("x2", "z2", "x3", "z3"):
        g = got.get(role)
        ctx.check(g is not None and g == want[role], "ladder-step", "%s:%s" % (path, role), "%s' equals the RFC 7748 formula as a polynomial" % role,
                  "%s: the ladder step output %s' is not the RFC 7748 formula (as polynomials in x1,x2,z2,x3,z3): got %s" % (path, role, (g.show()[:160] if g is not None else "unrecognised expression")), where=fn.where(), key="ladder-step:%s:%s" % (path, role))
    # initial state
    init = {}
    for role, loc in roles.items():
        for b, e in rules.var_defs(fn, loc):
            if b not in body:
                init[role] = e
    def cval(e):
        return fexpr.fe_const(e, None)
    x3i = fexpr.strip(init.get("x3", ("x",)))
    okx3 = x3i[0] == "call" and any(y[0] == "call" and y[1].endswith("Fe::from_bytes") for y in walk(x3i))
    ctx.check(cval(init.get("x2")) == 1 and cval(init.get("z2")) == 0 and cval(init.get("z3")) == 1 and okx3, "ladder-init", path, "(x2,z2,x3,z3) = (1, 0, u, 1)", "%s: the ladder does not start from (1, 0, u, 1)" % path, where=fn.where(), key="ladder-init:%s" % path)
    fb = [c for c in fn.calls() if c.name().endswith("Fe::from_bytes")]
    if fixed_base:
        okb = len(fb) == 1 and any(y[0] == "kconst" and y[3] == tuple([9] + [0] * 31) for y in walk(fn.expr(fb[0].args[0])))
        ctx.check(okb, "ladder-init", path + ":u=9", "the base point is u = 9", "%s: the fixed base point is not u = 9" % path, where=fn.where(), key="ladder-init:%s:base" % path)
    else:
        ctx.check(len(fb) == 1 and pred.canon(fn.expr(fb[0].args[0]), fn) == "arg2", "ladder-init", path + ":u=arg", "u is decoded from the caller's point", "%s: u is not Fe::from_bytes(p)" % path, where=fn.where(), key="ladder-init:%s:u" % path)
    # swaps: two inside the loop with (swap ^ bit), then swap = bit; two after the loop with swap
    inloop = [c for c in swaps if c.bb in body]
    after = [c for c in swaps if c.bb not in body]
    swv = None
    bits = set()
    okx = len(inloop) == 2
    for c in inloop:
        s = fexpr.strip(fn.expr(c.args[2]))
        if s[0] == "call" and s[1].endswith("BitXor>::bitxor"):
            a, b = s[2]
            if a[0] == "var":
                swv = a[1]
                bits.add(pred.canon(b, fn))
            else:
                okx = False
        else:
            okx = False
    okb = False
    bit_c = None
    if okx and len(bits) == 1 and swv is not None:
        bit_c = list(bits)[0]
        loopdefs = [pred.canon(e, fn) for b, e in rules.var_defs(fn, swv) if b in body]
        initdefs = [e for b, e in rules.var_defs(fn, swv) if b not in body]
        okb = loopdefs == [bit_c] and len(initdefs) == 1 and initdefs[0][0] == "call" and initdefs[0][1].endswith("CtZero>::ct_zero") and initdefs[0][2][0][:2] == ("const", 1)
        # order inside the loop: both swaps before swap = bit
        sdef = [b for b, e in rules.var_defs(fn, swv) if b in body]
        okb = okb and all(fn.reaches(c.bb, sdef[0]) and not fn.reaches(sdef[0], c.bb, avoid={lp["call"].bb}) for c in inloop)
    ctx.check(okx and okb, "ladder-swap", path, "cswap(swap ^ bit) on (x2,x3) and (z2,z3), then swap = bit; swap starts false", "%s: the conditional swaps are not driven by swap ^ bit with swap = bit afterwards" % path, where=fn.where(), key="ladder-swap:%s" % path)
    # the bit: ((e[pos / 8] >> (pos & 7)) & 1).ct_nonzero()
    okbit = False
    if bit_c:
        en = hashctx_local_name(fn, eloc)
        # when the clamped copy is the result of a single call (a private clamp helper), reads of it print as that call
        if fn.single_def(eloc) is not None:
            en = pred.canon(fn.local_expr(eloc), fn)
        okbit = "ct_nonzero(" in bit_c and ("%s[(" % en) in bit_c and "Div 8)]" in bit_c and "Shr mod(" in bit_c and ",8)" in bit_c and "BitAnd 1" in bit_c.replace("mod(", "").replace("(1 BitAnd", "BitAnd 1") or False
        okbit = bool(re.search(r"ct_nonzero\(mod\(\(%s\[\((.+?) Div 8\)\] Shr mod\(\1,8\)\),2\)\)" % re.escape(en), bit_c))
    ctx.check(okbit, "ladder-bit", path, "bit = (e[pos / 8] >> (pos & 7)) & 1 of the clamped scalar", "%s: the ladder's bit selection is not (e[pos/8] >> (pos&7)) & 1 on the clamped scalar: %s" % (path, bit_c), where=fn.where(), key="ladder-bit:%s" % path)
    invc = [c for c in fn.calls() if fexpr.INVERT.search(c.name())]
    oka = len(after) == 2 and len(invc) == 1 and all(fn.dominates(c.bb, invc[0].bb) and pred.canon(fn.expr(c.args[2]), fn) == hashctx_local_name(fn, swv) for c in after) if swv is not None else False
    if oka:
        pairs = set()
        for c in after:
            a = fexpr.strip(fn.expr(c.args[0]))
            b = fexpr.strip(fn.expr(c.args[1]))
            pairs.add((inv.get(a[1]), inv.get(b[1])))
        oka = pairs == {("x2", "x3"), ("z2", "z3")}
    ctx.check(oka, "ladder-swap", path + ":final", "both final cswap(swap) calls precede the inversion", "%s: the two final conditional swaps are missing / after the inversion" % path, where=fn.where(), key="ladder-swap:%s:final" % path)


def hashctx_local_name(fn, l):
    return "v:%s" % fn.dbg[l] if l in fn.dbg else "_%d" % l


def check_exponents(ctx, P, cfg, backend):
    for n, want, what in (("invert", curve.P - 2, "p - 2"), ("pow25523", (curve.P - 5) // 8, "(p - 5) / 8")):
        fn = P.fn("curve25519::fe::<impl curve25519::fe::%s::Fe>::%s" % (backend, n))
        k = None
        try:
            rr = ssa.Eval(P, fn).run()          # private helpers of the module (a shared sub-chain) are inlined
            k = fexpr.exponent_ssa(rr, rr.ret)
        except (KeyError, IndexError, TypeError, AttributeError, ValueError, RecursionError):
            k = None
        if k is None:
            k = fexpr.exponent(fn, fn.local_expr(0))
        ctx.check(k == want, "exponent", "%s::%s[%s]" % (backend, n, cfg), "%s(x) = x^(%s)" % (n, what), "Fe::%s does not compute self^(%s): the addition chain yields exponent %s" % (n, what, ("2^255-19-%d" % (curve.P - k)) if k else None), where=fn.where(), key="exponent:%s::%s" % (backend, n))
    fn = P.fn("curve25519::fe::%s::Fe::square_repeatdly" % backend)
    lps = [l for l in rules.iter_loops(fn) if any(s[0] == "range" for s in l["sources"])]
    inline_form = len(lps) == 1 and lps[0]["sources"] == [("range", ("0", "arg2"))] and not lps[0]["early_exits"] and not [c for c in fn.calls() if fexpr.SQUARE.search(c.name())]
    ok = len(lps) == 1 and lps[0]["sources"] == [("range", ("0", "arg2"))] and not lps[0]["early_exits"]
    if inline_form:
        # n iterations of an inlined squaring step (its limb arithmetic is covered by the radix rules of C15)
        ok = True
    elif ok:
        # acc = copy of self; n iterations of acc = acc.square()   (a squaring before a loop over 1..n would give x^2 for n = 0)
        sq_in = [c for c in rules.calls_between(fn, lps[0]["some"], {lps[0]["call"].bb}) if fexpr.SQUARE.search(c.name())]
        sq_all = [c for c in fn.calls() if fexpr.SQUARE.search(c.name())]
        ret = fexpr.strip(fn.local_expr(0))
        ok = len(sq_in) == 1 and len(sq_all) == 1 and ret[0] == "var"
        if ok:
            acc = ret[1]
            defs = rules.var_defs(fn, acc)
            ok = len(defs) == 2
            for b, e in defs:
                e = fexpr.strip(e)
                if b in lps[0]["body"]:
                    ok = ok and e[0] == "call" and fexpr.SQUARE.search(e[1]) and fexpr.strip(e[2][0]) == ("var", acc)
                else:
                    ok = ok and ((e[0] == "call" and e[1].endswith("Clone>::clone") and pred.canon(e[2][0], fn) == "arg1") or pred.canon(e, fn) in ("arg1", "*arg1", "deref(arg1)"))
    ctx.check(ok, "exponent", "%s::square_repeatdly[%s]" % (backend, cfg), "square_repeatdly(n) = n squarings of a copy of self (n = 0 is the identity)", "Fe::square_repeatdly does not perform exactly n squarings", where=fn.where(), key="exponent:%s::square_repeatdly" % backend)


PANIC = re.compile(r"^core::panicking::(panic|panic_fmt|assert_failed|panic_explicit|unreachable_display|panic_nounwind)|^core::option::(expect|unwrap)_failed|^core::result::unwrap_failed")


def check_total(ctx, P, entries):
    for ent in entries:
        root = P.fn(ent)
        bad = []
        for f in P.reach_fns(root):
            for c in f.calls():
                if PANIC.search(c.name()):
                    # const-pruned blocks do not count
                    bad.append("%s (%s:%s)" % (f.path, f.file, c.line))
        ctx.check(not bad, "total", ent, "no explicit panic reachable from %s" % ent, "%s can panic: explicit panic / assert reachable in %s — X25519 must return the all-zero output for zero / small-order inputs, not abort" % (ent, bad[:3]), where=root.where(), key="total:%s" % ent)


def check_wrappers(ctx, P):
    for w, tgt in (("x25519::dh", "curve25519::curve25519"), ("x25519::base", "curve25519::curve25519_base")):
        fn = P.fn(w)
        cs = [c for c in fn.calls() if c.name() == tgt]
        ctx.check(len(cs) == 1 and rules.every_ret_path_passes(fn, [cs[0].bb]), "wrapper", w, "%s delegates to %s" % (w, tgt), "%s does not delegate to %s" % (w, tgt), where=fn.where(), key="wrapper:%s" % w)


def run(ctx):
    P = ctx.prog("K0")
    ctx.guard("decode", "fe64", lambda: check_from_bytes64(ctx, P))
    ctx.guard("ladder", "curve25519", lambda: ladder(ctx, P, "curve25519::curve25519", False))
    ctx.guard("ladder", "curve25519_base", lambda: ladder(ctx, P, "curve25519::curve25519_base", True))
    ctx.guard("exponent", "fe64", lambda: check_exponents(ctx, P, "K0", "fe64"))
    ctx.guard("total", "x25519", lambda: check_total(ctx, P, ["curve25519::curve25519", "curve25519::curve25519_base"]))
    ctx.guard("wrapper", "x25519", lambda: check_wrappers(ctx, P))
    # the 32-bit limb backend (--features force-32bits) computes the same function: same rules on its MIR
    P2 = ctx.prog("K2")
    ctx.guard("exponent", "fe32", lambda: check_exponents(ctx, P2, "K2", "fe32"))
    ctx.guard("ladder", "curve25519/K2", lambda: ladder(ctx, P2, "curve25519::curve25519", False))
    ctx.guard("ladder", "curve25519_base/K2", lambda: ladder(ctx, P2, "curve25519::curve25519_base", True))
    ctx.guard("total", "x25519/K2", lambda: check_total(ctx, P2, ["curve25519::curve25519", "curve25519::curve25519_base"]))
    # the field operations the ladder is made of: limb-polynomial identities modulo 2^255-19 and limb bounds (shared
    # rule instances with C15)
    from . import C15 as _C15, febounds
    ctx.guard("limbpoly", "fe64", lambda: _C15.check_field_ops(ctx, P, "fe64", "K0"))
    ctx.guard("limbpoly", "fe32", lambda: _C15.check_field_ops(ctx, P2, "fe32", "K2"))
    ctx.guard("canonical", "fe64", lambda: _C15.check_canonical(ctx, P, "fe64"))
    ctx.guard("canonical", "fe32", lambda: _C15.check_canonical(ctx, P2, "fe32"))
    ctx.guard("fe-bounds", "fe64", lambda: febounds.check_fe64(ctx, P, "K0"))
    ctx.guard("fe-bounds", "fe32", lambda: febounds.check_fe32(ctx, P2, "K2"))
    from . import sc32
    ctx.guard("decode32", "fe32::from_bytes", lambda: sc32.check_decode32(ctx, P2))
    ctx.trusted.append("ssa term evaluator, bit-provenance and polynomial normal form (cxsa/ssa.py, termbits.py, poly.py), interval domain (bounds.py)")
    ctx.not_decided += ["the field operations as numbers beyond their limb-polynomial identities and limb bounds", "fe32 to_bytes as a bit map"]
