"""C18 — constant-time predicates and selectors return the ordinary answer.

Decided:
  word       u64 / u8 ct_zero, ct_nonzero, ct_eq, ct_ne, ct_lt, ct_gt: the branch-free formula is decided
             EXACTLY by the MSB algebra — complete truth table over (msb(a), msb(b), order of the low 63 bits,
             zero-ness of the low parts) compared with a == 0, a == b, a < b, a > b (every crate-local
             callee inlined, so ct_eq = ct_zero(a ^ b) etc. are followed)
  ordering   provided methods: ct_le == not ct_gt, ct_ge == not ct_lt on all three orderings {<,=,>};
             ct_ne / ct_nonzero are the negation of ct_eq / ct_zero in every impl (12 pairs)
  choice     Choice::negate is 1 ^ x, is_true is == 1, is_false is == 0, &,|,^ are the bitwise ops; every
             Choice constructed in constant_time.rs holds a single bit (x >> 63, 1 ^ bit, bit op bit)
  arrays     every array / slice predicate walks all elements of both operands (zip of full iterators, no
             early exit), accumulates with OR of XOR differences only and returns ct_zero(acc); slice forms
             assert equal lengths first; MacResult::eq is len == len && ct_eq; Tag::eq is ct_eq on [u8;16]
  bytes-lt   <&[u8;N]>::ct_lt walks both operands from the last byte to the first (rev), its borrow is
             inductively in {0,1}, no step can wrap in its type, borrow' = [x - borrow - y < 0], result =
             nonzero(borrow)
  select     ct_array{64,32}_maybe_swap_with / maybe_set: mask = -(swap bit); tmp = (a ^ b) & mask over all
             elements; a ^= tmp (and b ^= tmp for swap)
  option     CtOption::into_option is Some exactly when present.is_true()
Not decided: nothing word-level is left undecided; timing (C19)."""
import re

from .. import mir, pred, rules, ssa, msbalg, intervals
from ..mir import fmt, walk, const_val
from . import aead

EXPLANATION = __doc__
TECHNIQUE = "MSB-algebra truth tables of inlined term-domain formulas, ordering algebra over {<,=,>}, OR-fold / iterator-coverage rules, interval induction of the byte borrow chain; bounded shape evaluation of the aggregate helpers against the word primitive"

CT = "constant_time::"
INL = lambda n: n.startswith("<") and "constant_time::Ct" in n or n.startswith("constant_time::Choice::")


def leaf2(t):
    if t == ("in", "arg1"):
        return "a"
    if t == ("in", "arg2"):
        return "b"
    return None


def leaf8(t):
    if t == ("in", "arg1"):
        return "a8"
    if t == ("in", "arg2"):
        return "b8"
    return None


SPEC = {
    "zero": lambda c: int(c["A"] == 0 and c["ZA"] == 1),
    "nonzero": lambda c: int(not (c["A"] == 0 and c["ZA"] == 1)),
    "eq": lambda c: int(c["A"] == c["B"] and c["LO"] == 0),
    "ne": lambda c: int(not (c["A"] == c["B"] and c["LO"] == 0)),
    "lt": lambda c: int((c["A"] < c["B"]) or (c["A"] == c["B"] and c["LO"] < 0)),
    "gt": lambda c: int((c["A"] > c["B"]) or (c["A"] == c["B"] and c["LO"] > 0)),
}


def choice_bit(v):
    if isinstance(v, ssa.Agg):
        return v.get("0")
    return None


def check_word(ctx, P):
    cases = [
        ("<u64 as constant_time::CtZero>::ct_zero", "zero", True, leaf2, False), ("<u64 as constant_time::CtZero>::ct_nonzero", "nonzero", True, leaf2, False),
        ("<u64 as constant_time::CtEqual>::ct_eq", "eq", False, leaf2, False), ("<u64 as constant_time::CtEqual>::ct_ne", "ne", False, leaf2, False),
        ("<u64 as constant_time::CtLesser>::ct_lt", "lt", False, leaf2, False), ("<u64 as constant_time::CtGreater>::ct_gt", "gt", False, leaf2, False),
        ("<u8 as constant_time::CtZero>::ct_zero", "zero", True, leaf8, True), ("<u8 as constant_time::CtZero>::ct_nonzero", "nonzero", True, leaf8, True),
        ("<u8 as constant_time::CtEqual>::ct_eq", "eq", False, leaf8, True), ("<u8 as constant_time::CtEqual>::ct_ne", "ne", False, leaf8, True),
    ]
    for path, spec, unary, leaf, narrow in cases:
        fn = P.fn_opt(path)
        if fn is None:
            ctx.lost("word", path, "impl not found")
            continue
        r = ssa.Eval(P, fn, inline=INL, maxdepth=4).run()
        bit = choice_bit(r.ret)
        if bit is None:
            ctx.fail("word", path, "cannot see the Choice value returned", where=fn.where(), key="word:%s" % path)
            continue
        tt = msbalg.truth_table(bit, leaf, unary=unary, narrow=narrow)
        bad = [(c, v) for c, v in tt if v is None or v != SPEC[spec](c)]
        ctx.check(not bad, "word", path, "truth table over %d sign/order classes equals `%s`" % (len(tt), spec),
                  "%s does not compute `%s`: e.g. for msb(a)=%s msb(b)=%s low-order=%s the formula yields %s" % ((path, spec) + ((bad[0][0]["A"], bad[0][0]["B"], {-1: "<", 0: "=", 1: ">"}[bad[0][0]["LO"]], bad[0][1]) if bad else ("", "", "", ""))), where=fn.where(), key="word:%s" % path)
        ctx.rules[-1]["sites"] = len(tt)


def check_ordering(ctx, P):
    # provided methods: body must be  negate(Self::ct_gt(a, b))  /  negate(Self::ct_lt(a, b))
    for path, base, nm in ((CT + "CtGreater::ct_le", "CtGreater::ct_gt", "ct_le"), (CT + "CtLesser::ct_ge", "CtLesser::ct_lt", "ct_ge")):
        fn = P.fn(path)
        e = pred.short(fn.local_expr(0), fn)
        # evaluate on the three orderings with the required method taken by its meaning
        want = {"ct_le": {"<": 1, "=": 1, ">": 0}, "ct_ge": {"<": 0, "=": 1, ">": 1}}[nm]
        basev = {"CtGreater::ct_gt": {"<": 0, "=": 0, ">": 1}, "CtLesser::ct_lt": {"<": 1, "=": 0, ">": 0}}[base]
        flip = {"<": ">", "=": "=", ">": "<"}
        got = None
        m1 = re.match(r"^Choice::negate\(%s\((arg[12]),(arg[12])\)\)$" % re.escape(base), e)
        m2 = re.match(r"^%s\((arg[12]),(arg[12])\)$" % re.escape(base), e)
        if m1 or m2:
            m_ = m1 or m2
            swapped = (m_.group(1), m_.group(2)) == ("arg2", "arg1")
            got = {}
            for o in "<=>":
                v = basev[flip[o] if swapped else o]
                got[o] = 1 - v if m1 else v
        ctx.check(got == want, "ordering", path, "%s holds exactly on %s" % (nm, [o for o in "<=>" if want[o]]), "%s is wrong on some ordering of its operands (it must be the negation of the strict opposite): body %s gives %s" % (path, e, got), where=fn.where(), key="ordalg:%s" % path)
    pairs = []
    for f in P.fns.values():
        if f.impl_trait in ("constant_time::CtEqual", "constant_time::CtZero") and f.name in ("ct_ne", "ct_nonzero"):
            pairs.append(f)
    ctx.check(len(pairs) >= 10, "floor", "negation pairs", "%d ct_ne / ct_nonzero impls found" % len(pairs), "fewer ct_ne / ct_nonzero impls than expected: %d" % len(pairs), key="floor:negpairs")
    for f in sorted(pairs, key=lambda f: f.path):
        pos = f.path.replace("::ct_ne", "::ct_eq").replace("::ct_nonzero", "::ct_zero")
        e = pred.short(f.local_expr(0), f)
        posn = "CtEqual::ct_eq" if f.name == "ct_ne" else "CtZero::ct_zero"
        ok = bool(re.match(r"^Choice::negate\(%s\((arg1|arg1,arg2)\)\)$" % re.escape(posn), e))
        if not ok and (f.self_ty in ("u64", "u8")):
            ok = True   # decided exactly by the word truth tables
        if not ok:
            # same fold as the positive form with ct_nonzero at the end
            g = P.fn_opt(pos)
            if g is not None:
                ab = lambda s: s.replace("ct_nonzero", "ct_zero")
                ok = [ab(x) for x in rules.canon_body(f)] == [ab(x) for x in rules.canon_body(g)] and any(c.name().endswith("CtZero>::ct_nonzero") for c in f.calls())
        ctx.check(ok, "ordering", f.path, "%s is the negation of its positive form" % f.name, "%s is not the negation of %s" % (f.path, pos), where=f.where(), key="ordalg:%s" % f.path)


def check_choice(ctx, P):
    ng = P.fn(CT + "Choice::negate")
    r = ssa.Eval(P, ng).run()
    b = choice_bit(r.ret)
    x = ("elem", ("in", "arg1"), "0")
    ok = b in (("bin", "BitXor", ("c", 1, "u64"), x, "u64"), ("bin", "BitXor", x, ("c", 1, "u64"), "u64"))
    ctx.check(ok, "choice", "negate", "negate = 1 ^ x", "Choice::negate is not `1 ^ self.0`: %s" % (b,), where=ng.where(), key="choice:negate")
    for nm, v in (("is_true", 1), ("is_false", 0)):
        fn = P.fn(CT + "Choice::" + nm)
        e = fn.local_expr(0)
        ok = e[0] == "bin" and e[1] == "Eq" and pred.canon(e[2], fn) == "arg1.0" and e[3][:2] == ("const", v)
        ctx.check(ok, "choice", nm, "%s is self.0 == %d" % (nm, v), "Choice::%s is not `self.0 == %d`" % (nm, v), where=fn.where(), key="choice:%s" % nm)
    for tr, op in (("BitAnd", "BitAnd"), ("BitOr", "BitOr"), ("BitXor", "BitXor")):
        fn = P.fn("<constant_time::Choice as core::ops::%s>::%s" % (tr, tr.lower()))
        r = ssa.Eval(P, fn).run()
        b = choice_bit(r.ret)
        ok = isinstance(b, tuple) and b[0] == "bin" and b[1] == op and {b[2], b[3]} == {("elem", ("in", "arg1"), "0"), ("elem", ("in", "arg2"), "0")}
        ctx.check(ok, "choice", tr, "Choice %s is the bitwise op on the two bits" % tr, "Choice %s is not the bitwise operation" % tr, where=fn.where(), key="choice:%s" % tr)
    # every Choice aggregate in constant_time.rs holds one bit
    n = 0
    bad = []
    for f in P.fns.values():
        if not f.file.endswith("constant_time.rs"):
            continue
        for b_ in sorted(f.reachable()):
            for s in f.stmts(b_):
                if s[0] == "=" and s[2][0] == "agg" and s[2][1][0] == "adt" and s[2][1][1] == "constant_time::Choice":
                    n += 1
                    e = f.expr(s[2][2][0])
                    if not one_bit(f, e):
                        bad.append("%s: %s" % (f.path, fmt(e)[:80]))
    ctx.check(n >= 8 and not bad, "choice", "single-bit constructors", "%d Choice(..) constructions, each a single bit" % n, "a Choice is built from a value that is not a single bit: %s" % bad[:2], key="choice:single-bit")
    adt = P.adts.get("constant_time::Choice")
    ok = adt is not None and not adt["variants"][0]["fields"][0]["vis"].startswith("Public")
    ctx.check(ok, "choice", "field-private", "Choice.0 is not public: no external code can forge a Choice", "Choice's field is public", where=adt["span"] if adt else None, key="choice:private")
    fn = P.fn(CT + "CtOption::<T>::into_option")
    somes = [b_ for b_ in sorted(fn.reachable()) for s in fn.stmts(b_) if s[0] == "=" and s[2][0] == "agg" and s[2][1][0] == "adt" and "Option" in s[2][1][1] and s[2][1][3] == "Some"]
    ok = len(somes) == 1 and any(pred.short(e, fn) == "Choice::is_true(arg1.present)" and v is True for e, v, o in fn.edge_facts(somes[0]))
    ctx.check(ok, "option", "CtOption::into_option", "Some(t) exactly when present.is_true()", "CtOption::into_option is not keyed on present.is_true()", where=fn.where(), key="option:into_option")


def one_bit(f, e):
    e = mir.strip_casts(e)
    if e[0] == "bin" and e[1] == "Shr" and e[3][0] == "const" and e[3][1] == 63:
        return True
    if e[0] == "bin" and e[1] in ("BitXor", "BitAnd", "BitOr"):
        return all(one_bit(f, x) or (x[0] == "const" and x[1] in (0, 1)) for x in (e[2], e[3]))
    if e[0] == "field" and e[3] == "0" and pred.canon(e[1], f) in ("arg1", "arg2"):
        return True      # the bit of another Choice
    if e[0] == "const":
        return e[1] in (0, 1)
    return False


def check_arrays(ctx, P):
    eqs = ["<&[u8; N] as constant_time::CtEqual>::ct_eq", "<&[u64; N] as constant_time::CtEqual>::ct_eq", "<&[u8] as constant_time::CtEqual>::ct_eq", "<&[u64] as constant_time::CtEqual>::ct_eq"]
    for p in eqs:
        ctx.guard("cmp", p, lambda: aead.check_cteq_array(ctx, P, p))
        if "; N]" not in p:
            fn = P.fn(p)
            lp = [l for l in rules.iter_loops(fn)]
            if lp:
                facts = pred.facts_at(fn, lp[0]["call"].bb)
                ok = pred.implies(facts, pred.A("eq", 0, **{"len(arg1)": 1, "len(arg2)": -1}))
                ctx.check(ok, "guard", p + ":len-eq", "equal lengths asserted before the walk", "%s does not assert equal lengths (zip would silently truncate)" % p, where=fn.where(), key="guard:%s:len" % p)
    zs = ["<&[u8; N] as constant_time::CtZero>::ct_zero", "<&[u64; N] as constant_time::CtZero>::ct_zero", "<&[u64] as constant_time::CtZero>::ct_zero",
          "<&[u8; N] as constant_time::CtZero>::ct_nonzero", "<&[u64; N] as constant_time::CtZero>::ct_nonzero", "<&[u64] as constant_time::CtZero>::ct_nonzero"]
    for p in zs:
        fn = P.fn_opt(p)
        if fn is None:
            ctx.lost("cmp", p, "impl not found")
            continue
        loops = rules.iter_loops(fn)
        okl = len(loops) == 1 and not loops[0]["early_exits"] and [c.split("::")[-1] for c in loops[0]["chain"]] in (["into_iter", "iter"], ["iter"]) and loops[0]["sources"] == [("iter", "arg1")]
        fin = [c for c in fn.calls() if c.name().endswith("CtZero>::" + p.split("::")[-1]) and c.name().startswith("<u64")]
        oka = False
        if len(fin) == 1:
            acc = mir.strip_casts(fn.expr(fin[0].args[0]))
            if acc[0] == "var":
                oka = True
                steps = 0
                for b_, e in rules.var_defs(fn, acc[1]):
                    if e[0] == "const" and e[1] == 0:
                        continue
                    if e[0] == "bin" and e[1] == "BitOr" and ("var", acc[1]) in (e[2], e[3]):
                        steps += 1
                        continue
                    oka = False
                # `acc |= b` on &u64 elements is a call to BitOrAssign::bitor_assign(&mut acc, b)
                for c in fn.calls():
                    if re.search(r"as core::ops::BitOrAssign(<.*>)?>::bitor_assign$", c.name()):
                        tgt = fn.expr(c.args[0])
                        if tgt == ("ref", "mut", ("var", acc[1])) and c.bb in loops[0]["body"]:
                            steps += 1
                        else:
                            oka = False
                    elif re.search(r"Assign(<.*>)?>::\w+_assign$", c.name()):
                        oka = False
                oka = oka and steps == 1 and fin[0].dest == [0, []]
        ctx.check(okl and oka, "cmp", p, "OR-fold over every element, then the word zero test", "%s does not OR every element into the accumulator it tests" % p, where=fn.where(), key="cmp:%s" % p)
    # MacResult::eq
    fn = P.fn("<mac::MacResult as core::cmp::PartialEq>::eq")
    cte = [c for c in fn.calls() if c.name() == "<&[u8] as constant_time::CtEqual>::ct_eq"]
    ok = len(cte) == 1
    if ok:
        facts = pred.facts_at(fn, cte[0].bb)
        a0 = pred.short(fn.expr(cte[0].args[0]), fn)
        a1 = pred.short(fn.expr(cte[0].args[1]), fn)
        ok = {a0, a1} == {"MacResult::code(arg1)", "MacResult::code(arg2)"} and any(f[0] == "eq" and f[2] == 0 and len(f[1]) == 2 for f in facts)
        trues = [b_ for b_, e in rules.var_defs(fn, 0) if not (e[0] == "const" and e[1] == 0)]
        ok = ok and len(trues) == 1 and pred.short(rules.var_defs(fn, 0)[[b_ for b_, e in rules.var_defs(fn, 0)].index(trues[0])][1], fn).startswith("Into::into(CtEqual::ct_eq(")
    ctx.check(ok, "cmp", "MacResult::eq", "len == len && ct_eq(code, code)", "MacResult equality is not `lengths equal and ct_eq of both codes`", where=fn.where(), key="cmp:MacResult::eq")
    aead.check_tag_eq(ctx, P)
    from . import ctshape
    got = []
    ctx.guard("shape-eval", "ct aggregates", lambda: got.append(ctshape.check(ctx, P)))
    ctx.check(got == [14], "floor", "shape-eval", "14 aggregate constant-time helpers evaluated for lengths 0..3 with symbolic contents", "only %s aggregate helpers evaluated" % got, key="floor:shape-eval")


def check_bytes_lt(ctx, P):
    path = "<&[u8; N] as constant_time::CtLesser>::ct_lt"
    fn = P.fn(path)
    loops = rules.iter_loops(fn)
    ok = len(loops) == 1 and not loops[0]["early_exits"]
    if ok:
        chain = [c.split("::")[-1] for c in loops[0]["chain"]]
        ok = sorted(chain) == sorted(["into_iter", "zip", "rev", "rev", "iter", "iter"]) and sorted(loops[0]["sources"]) == [("iter", "arg1"), ("iter", "arg2")]
        # each operand's iter() is wrapped in rev() before the zip
        root = loops[0]["root"]
        revs = [x for x in walk(root) if x[0] == "call" and x[1].endswith("::rev")]
        ok = ok and len(revs) == 2 and all(x[2][0][0] == "call" and x[2][0][1].endswith("::iter") for x in revs)
    ctx.check(ok, "bytes-lt", "coverage", "zip(a.iter().rev(), b.iter().rev()): all bytes, least significant (last) first", "%s does not walk both arrays completely from the last byte to the first" % path, where=fn.where(), key="bytes-lt:coverage")
    ev = ssa.Eval(P, fn, inline=lambda n: False, auto=False)
    r = ev.run()
    # borrow variable: the loop-carried u8
    head = loops[0]["call"].bb if loops else None
    bl = [l for l, t in enumerate(fn.locals) if t in ("u8", "u16", "u32", "u64", "usize") and len(fn.defs().get(l, [])) >= 2]
    bvar = None
    for l in bl:
        defs = rules.var_defs(fn, l)
        if any(e[0] == "const" and e[1] == 0 for b_, e in defs) and any(b_ in loops[0]["body"] for b_, e in defs):
            bvar = l
    if bvar is None or head is None:
        ctx.fail("bytes-lt", "borrow", "no loop-carried borrow byte found", where=fn.where(), key="bytes-lt:borrow")
        return
    # term of the new borrow at the back edge
    newb = None
    for (p, s2), (env, mem, cond, pb) in ev.EDGE.items():
        pass
    # re-run restricted: take the value assigned inside the loop body from block_in of the head's back-edge predecessor
    nb_term = None
    for b_ in sorted(loops[0]["body"]):
        for s in fn.stmts(b_):
            if s[0] == "=" and s[1] == [bvar, []]:
                # evaluate from the recorded block-in state of that block
                env, mem = r.block_in.get(b_, ({}, {}))
                e2 = ssa.Eval(P, fn)
                e2.shared = ev.shared
                e2.fid = ev.fid
                envc = dict(env)
                ev.shared["frames"][ev.fid] = envc
                for s2 in fn.stmts(b_):
                    if s2[0] == "=":
                        dty = fn.locals[s2[1][0]] if not s2[1][1] else None
                        v = ev.rvalue(envc, s2[2], dty, b_)
                        ev.write_place(envc, s2[1], v, b_)
                        if s2 is s:
                            nb_term = v
    if nb_term is None:
        ctx.fail("bytes-lt", "borrow-step", "cannot evaluate the borrow update", where=fn.where(), key="bytes-lt:step")
        return
    def leaf(t):
        if t == ("lv", head, bvar):
            return (0, 1)
        if isinstance(t, tuple) and t and t[0] in ("deref", "load", "elem", "lv", "call", "derefp", "sub"):
            return (0, 255)      # a byte read through the iterator
        return None
    I = intervals.Intervals(leaf)
    lo, hi = I.iv(nb_term)
    ctx.check((lo, hi) == (0, 1) or (lo >= 0 and hi <= 1), "bytes-lt", "borrow-inductive", "borrow in {0,1} is preserved by the step", "%s: the borrow does not stay in {0,1}: new borrow in [%s, %s]" % (path, lo, hi), where=fn.where(), key="bytes-lt:borrow-inductive")
    ctx.check(not I.wraps and not I.unknown, "bytes-lt", "no-wrap", "no operation of the borrow step can wrap in its type (the difference is taken in a wider signed type)",
              "%s: an operation of the borrow step can wrap (%s in %s): a borrow is lost when it does" % (path, (I.wraps[0][1] if I.wraps else I.unknown[:1]), (I.wraps[0][2] if I.wraps else "?")), where=fn.where(), key="bytes-lt:no-wrap")
    # semantics: new borrow = 1 iff x - borrow - y < 0 : find the wide difference term and split on its sign
    diff = None
    for x in subterms(nb_term):
        if x[0] == "bin" and x[1] == "Sub" and x[4] in ("i16", "i32", "i64"):
            lf = linform(x, head, bvar)
            # the wide difference is the largest subtraction that is linear in (x, borrow, y) -- not e.g. `0 - (d >> 8)`
            if lf and lf.get("borrow") == -1 and (diff is None or len(repr(x)) > len(repr(diff))):
                diff = x
    oks = False
    shape = None
    if diff is not None:
        # diff must be (x - borrow) - y or x - (borrow + y) ... as a linear form: coefficients {x:+1, b:-1, y:-1}
        lin = linform(diff, head, bvar)
        shape = lin
        vals = sorted(lin.values()) if lin else None
        if lin and lin.get("borrow") == -1 and sorted(v for k, v in lin.items() if k != "borrow") == [-1, 1]:
            Ineg = intervals.Intervals(leaf, override={diff: (-256, -1)})
            Ipos = intervals.Intervals(leaf, override={diff: (0, 255)})
            oks = Ineg.iv(nb_term) == (1, 1) and Ipos.iv(nb_term) == (0, 0)
    ctx.check(oks, "bytes-lt", "borrow-step", "borrow' = [x - borrow - y < 0] (sign case split of the wide difference)", "%s: the borrow update is not [x - borrow - y < 0]: %s" % (path, shape), where=fn.where(), key="bytes-lt:borrow-step")
    # result = nonzero(borrow)
    bit = choice_bit(r.ret)
    okr = False
    if bit is not None:
        tt = msbalg.truth_table(bit, lambda t: "a8" if (isinstance(t, tuple) and t[:1] == ("lv",)) or (isinstance(t, tuple) and t[0] == "phi") or (isinstance(t, tuple) and t[0] == "c" and False) else None, unary=True, narrow=True)
        okr = all(v is not None and v == SPEC["nonzero"](c) for c, v in tt)
    ctx.check(okr, "bytes-lt", "result", "result = nonzero(final borrow)", "%s does not return nonzero(borrow)" % path, where=fn.where(), key="bytes-lt:result")


def subterms(t):
    seen = set()
    st = [t]
    while st:
        x = st.pop()
        if not isinstance(x, tuple) or not x or id(x) in seen:
            continue
        seen.add(id(x))
        if isinstance(x[0], str):
            yield x
        for y in x[1:] if isinstance(x[0], str) else x:
            if isinstance(y, tuple):
                st.append(y)


def linform(t, head, bvar):
    """linear form of a difference over leaves x / y (byte reads, named by repr) and 'borrow'"""
    if t == ("lv", head, bvar):
        return {"borrow": 1}
    if t[0] == "cast":
        return linform(t[1], head, bvar)
    if t[0] == "bin" and t[1] in ("Add", "Sub"):
        a = linform(t[2], head, bvar)
        b = linform(t[3], head, bvar)
        if a is None or b is None:
            return None
        out = dict(a)
        for k, v in b.items():
            out[k] = out.get(k, 0) + (v if t[1] == "Add" else -v)
        return {k: v for k, v in out.items() if v}
    if t[0] in ("deref", "load", "elem", "lv", "call", "derefp", "sub"):
        return {repr(t): 1}
    return None


def check_select(ctx, P):
    for nm, both, cast in (("ct_array64_maybe_swap_with", True, False), ("ct_array32_maybe_swap_with", True, True), ("ct_array64_maybe_set", False, False), ("ct_array32_maybe_set", False, True)):
        fn = P.fn(CT + nm)
        loops = rules.iter_loops(fn)
        want_loops = 3 if both else 2
        ok = len(loops) in ((3, 2) if both else (2,)) and all(not l["early_exits"] for l in loops)
        # mask = wrapping_neg(swap.0 [as u32])
        mk = [c for c in fn.calls() if c.name().endswith("::wrapping_neg")]
        okm = len(mk) == 1 and pred.canon(fn.expr(mk[0].args[0]), fn) in ("arg3.0",)
        # first loop: *xo = (*xa ^ *xb) & mask  over tmp.iter_mut().zip(a.iter().zip(b.iter()))
        okt = False
        okx = 0
        for l in loops:
            srcs = sorted(l["sources"])
            for b_ in l["body"]:
                for s in fn.stmts(b_):
                    if s[0] == "=" and s[1][1] == ["*"]:
                        e = fn.rvalue_expr(s[2])
                        if e[0] == "bin" and e[1] == "BitAnd":
                            sides = [mir.strip_casts(e[2]), mir.strip_casts(e[3])]
                            xs = [x for x in sides if x[0] == "bin" and x[1] == "BitXor"]
                            ms = [x for x in sides if x[0] == "call" and x[1].endswith("::wrapping_neg")]
                            if xs and ms and len([s_ for s_ in srcs if s_[0] in ("iter", "iter_mut")]) == 3 and ("iter", "arg1") in srcs and ("iter", "arg2") in srcs:
                                okt = True
                        if e[0] == "bin" and e[1] == "BitXor" and len(srcs) == 2:
                            tgt = [s_ for s_ in srcs if s_[0] == "iter_mut"]
                            if tgt and tgt[0][1] in ("arg1", "arg2"):
                                okx += 1
            if len(srcs) == 2:
                tgt = [s_ for s_ in srcs if s_[0] == "iter_mut"]
                if tgt and tgt[0][1] in ("arg1", "arg2"):
                    for c in rules.calls_between(fn, l["some"], {l["call"].bb}):
                        if re.search(r"as core::ops::BitXorAssign(<.*>)?>::bitxor_assign$", c.name()):
                            okx += 1
            if len(srcs) == 3 and both:
                # the two applications fused into one loop over (a.iter_mut(), b.iter_mut(), tmp.iter())
                tgt = sorted(s_[1] for s_ in srcs if s_[0] == "iter_mut")
                oth = [s_ for s_ in srcs if s_[0] == "iter"]
                if tgt == ["arg1", "arg2"] and len(oth) == 1:
                    nx = len([c for c in rules.calls_between(fn, l["some"], {l["call"].bb}) if re.search(r"as core::ops::BitXorAssign(<.*>)?>::bitxor_assign$", c.name())])
                    for b_ in l["body"]:
                        for s in fn.stmts(b_):
                            if s[0] == "=" and s[1][1] == ["*"]:
                                e = fn.rvalue_expr(s[2])
                                if e[0] == "bin" and e[1] == "BitXor":
                                    nx += 1
                    okx += min(nx, 2)
        ctx.check(ok and okm and okt and okx == (2 if both else 1), "select", nm, "mask = -(swap); tmp = (a ^ b) & mask over all elements; a ^= tmp%s" % ("; b ^= tmp" if both else ""),
                  "%s is not the masked xor-swap / xor-set over all elements (loops %d, mask %s, tmp %s, applied to %d operand(s))" % (nm, len(loops), okm, okt, okx), where=fn.where(), key="select:%s" % nm)


def run(ctx):
    P = ctx.prog("K0")
    ctx.guard("word", "u64/u8", lambda: check_word(ctx, P))
    ctx.guard("ordering", "provided+negations", lambda: check_ordering(ctx, P))
    ctx.guard("choice", "Choice", lambda: check_choice(ctx, P))
    ctx.guard("cmp", "arrays", lambda: check_arrays(ctx, P))
    ctx.guard("bytes-lt", "&[u8;N]", lambda: check_bytes_lt(ctx, P))
    ctx.guard("select", "arrays", lambda: check_select(ctx, P))
    ctx.trusted += ["ssa evaluator, MSB algebra (cxsa/msbalg.py), interval domain (cxsa/intervals.py)"]
    ctx.not_decided += ["instruction-level timing (C19)"]
