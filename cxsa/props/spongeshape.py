"""Bounded shape evaluation of the Keccak sponge's absorb loop (sha3::Engine::process): concrete offsets and lengths,
symbolic byte contents, `keccak_f` kept as a recorded opaque call that replaces the state by fresh symbols.

For every pending offset 0..rate-1 and a boundary set of input lengths (all lengths in thorough mode) the run must
  * hand keccak_f, in order, exactly the states  S_j = (previous state) XOR (next `rate` bytes of the stream, at offsets
    offset..rate-1 for the first block and 0..rate-1 afterwards), with the capacity bytes untouched;
  * leave the rest XORed into the state at the right offsets and `offset` equal to the bytes pending.
Passing subsumes the "could not derive" reports of the forall-length structural rule (absorb:sha3::Engine::process)."""
import re
from .. import simd
from .arx import Box


def lengths_for(off, r, thorough):
    if thorough:
        return list(range(0, 2 * r + 2))
    room = r - off
    s = {0, 1, 2, room - 1, room, room + 1, room + r - 1, room + r, room + r + 1, 2 * r + 1}
    return sorted(x for x in s if x >= 0)


def check_process(ctx, P, rule="shape-eval", thorough=False, digestlen=64, dslen=2):
    T = "hashing::sha3::Engine"
    fn = P.fn("hashing::sha3::Engine::<DIGESTLEN, DSLEN>::process")
    adt = P.adts.get(T) or P.adts.get(T + "<DIGESTLEN, DSLEN>")
    if adt is None:
        cands = [k for k in P.adts if k.startswith(T)]
        adt = P.adts[cands[0]] if len(cands) == 1 else None
    if adt is None:
        ctx.lost(rule, "sha3::Engine::process", "the sponge engine type is gone")
        return
    fields = [f["name"] for f in adt["variants"][0]["fields"]]
    fi = {n: i for i, n in enumerate(fields)}
    if any(n not in fi for n in ("state", "offset", "can_absorb", "can_squeeze")):
        ctx.lost(rule, "sha3::Engine::process", "fields of sha3::Engine changed: %s" % fields)
        return
    r = 200 - 2 * digestlen
    bad = []
    n = 0
    from .. import shapeconst
    extra, big = shapeconst.around(shapeconst.usize_consts(P, fn), hi=600)
    for off in range(r):
        lens = set(lengths_for(off, r, thorough)) | extra | {(r - off) + x for x in extra if (r - off) + x <= 600}
        for ln in sorted(lens):
            B = simd.TermBank()
            s0 = [B.inp("s[%d]" % i, 8) for i in range(200)]
            data = [B.inp("d[%d]" % i, 8) for i in range(ln)]
            st = {fi["state"]: {i: s0[i] for i in range(200)}, fi["offset"]: off, fi["can_absorb"]: True, fi["can_squeeze"]: True}
            for nme, i in fi.items():
                st.setdefault(i, 0)
            box = Box(st)
            M = simd.Machine(P, B, 64, {}, maxsteps=400000)
            M.generics = {"DIGESTLEN": digestlen, "DSLEN": dslen}
            seen = []

            def on_f(m_, f_, c_, a_, seen=seen, B=B):
                cont, base, k = m_.seq(a_[0])
                seen.append(tuple(m_.scalar_bits(cont[base + i], 8) for i in range(k)))
                j = len(seen)
                for i in range(k):
                    cont[base + i] = B.inp("k%d[%d]" % (j, i), 8)
                return None
            M.hooks = [(re.compile(r"sha3::keccak_f$"), on_f)]
            dcont = {i: data[i] for i in range(ln)}
            try:
                M.call_fn(fn, [box.ref(), ("aslice", dcont, 0, ln)])
            except (simd.Unsupported, KeyError, IndexError, TypeError, AttributeError, ValueError) as e:
                bad.append((off, ln, "not evaluable: %s: %s" % (type(e).__name__, str(e)[:80])))
                break
            n += 1
            # specification
            cur = list(s0)
            pos = off
            want = []
            for i in range(ln):
                cur[pos] = B.xor(cur[pos], data[i])
                pos += 1
                if pos == r:
                    want.append(tuple(cur))
                    cur = [B.inp("k%d[%d]" % (len(want), t), 8) for t in range(200)]
                    pos = 0
            gs = box.v[fi["state"]]
            got_state = [M.scalar_bits(gs[i], 8) for i in range(200)]
            ok = seen == want and box.v[fi["offset"]] == pos and got_state == cur and box.v[fi["can_absorb"]] in (True, 1) and all(dcont[i] is data[i] for i in range(ln))
            if not ok:
                what = "permutations %d (want %d)" % (len(seen), len(want)) if len(seen) != len(want) else ("offset %s (want %d)" % (box.v[fi["offset"]], pos) if box.v[fi["offset"]] != pos else "state bytes differ from state XOR stream")
                bad.append((off, ln, what))
                if len(bad) > 3:
                    break
        if len(bad) > 3:
            break
    okall = not bad and n >= r * 8
    ctx.check(okall, rule, "sha3::Engine::process", "%d (offset, length) shapes at rate %d: each permuted state is the previous state XOR the next rate bytes, the rest is XORed in place and offset counts it" % (n, r),
              "sha3::Engine::process does not absorb the stream by XOR into the rate part block by block: (offset, length, what) %s" % bad[:3], where=fn.where(), key="%s:sha3::Engine::process" % rule)
    if okall and not big:
        ctx.subsume("absorb:sha3::Engine::process", "sha3::Engine::process is decided for every offset and the boundary lengths around one and two blocks by bounded shape evaluation (shape-eval)")
        ctx.subsume("absorb:sha3:xor", "the XOR absorption is decided by shape-eval")
    return okall
