"""C08 — HMAC equals RFC 2104 for every supported digest, key and message.

Decided: block_size() / output_bits() of all 18 legacy digests equal the algorithm's block (rate)
and digest size; expand_key hashes the key iff key.len() > block_size (a key of exactly one block
is copied), into a zero block of block_size bytes, writing H(key) / key at offset 0 and resetting
the digest after hashing; derive_key xors the mask into EVERY byte; create_keys derives
(K' ^ 0x36.., K' ^ 0x5c..); Hmac::new absorbs i_key first; raw_result computes inner result ->
reset -> input(o_key) -> input(inner) -> result, once; output_bytes is the digest's; every legacy
digest delegates to the hashing context of its name.
  shape-eval Hmac (new / input / raw_result / reset) against RFC 2104 with an UNINTERPRETED digest (transcript -> fresh symbols), every
             key length class x message split x {result, result again, reset + next message}; sizes derived from the code's
             length constants.  Independent of how the code is organised; the structural rules stay as cross-checks
  shape-eval BLAKE2 keyed (re)initialisation for every key length (engine from (outlen, key.len()), buffer = key || zeros,
             buflen one block iff keyed) and the legacy wrappers' key retention, constructors kept opaque
Not decided: the digests themselves (C01)."""
from . import objects

EXPLANATION = __doc__
TECHNIQUE = "evaluated size constants vs. specification table, linear-form predicate of the key-expansion branch, iterator-coverage and call-order rules; object-level bounded shape evaluation with an uninterpreted digest / PRF (transcript terms) against the RFC's defining term"


def run(ctx):
    P = ctx.prog("K0")
    types = objects.digest_impl_types(P)
    ctx.check(sorted(types) == sorted(objects.LEGACY), "floor", "legacy digest impls", "18 `impl Digest` types found, all in the size table", "the set of `impl Digest` types changed: %s / %s" % (sorted(set(types) - set(objects.LEGACY)), sorted(set(objects.LEGACY) - set(types))), key="floor:digest-impls")
    for T in sorted(objects.LEGACY):
        if T in types:
            ctx.guard("table", T, lambda: objects.check_sizes(ctx, P, T))
            ctx.guard("legacy", T, lambda: objects.check_legacy_digest(ctx, P, T, "C08"))
    ctx.guard("table", "output_bytes", lambda: objects.check_output_bytes_default(ctx, P))
    ctx.guard("hmac-keys", "expand/derive/create", lambda: objects.check_hmac_keys(ctx, P))
    ctx.guard("hmac", "Mac", lambda: objects.check_hmac_mac(ctx, P))
    # Hmac re-initialises its digest through Digest::reset between the inner and outer hash: for the BLAKE2 objects
    # that is ContextDyn::reset_with_key / reset, which must rebuild the parameter block from the object's own outlen
    from . import hashctx
    ctx.guard("keyed-init", "blake2 reset", lambda: hashctx.check_all_blake2_keyed(ctx, P, which=("reset_with_key", "reset")))
    # the digests underneath: padding position and zero fill, length fields, sponge padding (structural rules shared with C01)
    from . import C01 as _C01
    ctx.guard("padding", "standard_padding", lambda: _C01.check_standard_padding(ctx, P))
    ctx.guard("length-field", "md", lambda: _C01.check_length_fields(ctx, P))
    ctx.guard("sponge-pad", "sha3", lambda: _C01.check_sponge_pad(ctx, P))
    # the SHA-256 block function of the SIMD builds (a one-shot call batches 4 / 8 blocks, a split call does not): value-graph
    # equality with FIPS 180-4, shared rule instances with C16 / C01
    from . import sha2eq as _sha2eq
    _g3 = []
    _cases = {("K3", "hashing::sha2::impl256::sse41::digest_block"), ("K4", "hashing::sha2::impl256::avx::digest_block")}
    ctx.guard("compress-eq", "sha256-simd", lambda: _g3.append(_sha2eq.check_sha256(ctx, {"K3": 1, "K4": 1}, cases=_cases)))
    ctx.check(_g3 == [4], "floor", "compress-eq", "3 SIMD SHA-256 runs (4 and 4+1 blocks SSE4.1, 8 blocks AVX) equal the FIPS 180-4 compression", "only %s SIMD SHA-256 comparisons ran" % _g3, key="floor:compress-eq")
    ctx.not_decided += ["the underlying digest functions as numbers (C01 decides them; here their padding / length / sponge rules and the SIMD SHA-256 block functions are re-evaluated)"]
