"""Shared rule: value-graph equality of the BLAKE2 SIMD compression functions with RFC 7693's F (cxsa/simd.py)."""
from .. import simd
from ..spec import hashes

CASES = [
    # (config, function, word width, rounds, rotations, IV)
    ("K4", "hashing::blake2::avx::compress_s", 32, 10, (16, 12, 8, 7), "BLAKE2S_IV"),
    ("K4", "hashing::blake2::avx::compress_b", 64, 12, (32, 24, 16, 63), "BLAKE2B_IV"),
    ("K5", "hashing::blake2::avx2::compress_b", 64, 12, (32, 24, 16, 63), "BLAKE2B_IV"),
]


def check_blake2_simd(ctx, progs, rule="lane-eq"):
    n = 0
    for cfg, path, w, rounds, R, ivname in CASES:
        P = progs.get(cfg)
        if P is None:
            continue
        fn = P.fn_opt(path)
        if fn is None:
            ctx.lost(rule, "%s@%s" % (path, cfg), "function not present in configuration %s" % cfg)
            continue
        IV = getattr(hashes, ivname)
        B = simd.TermBank()
        h = [B.inp("h[%d]" % i, w) for i in range(8)]
        m = [B.inp("m[%d]" % i, w) for i in range(16)]
        t = [B.inp("t[%d]" % i, w) for i in range(2)]

        def memof(ws):
            flat = simd.cat(ws)
            return lambda off, nb: flat[8 * off: 8 * off + 8 * nb]
        variants = {v["name"]: i for i, v in enumerate(P.adts["hashing::blake2::common::LastBlock"]["variants"])}
        for lname, f in (("Yes", ((1 << w) - 1, 0)), ("No", (0, 0))):
            inst = "%s@%s:last=%s" % (path, cfg, lname)
            M = simd.Machine(P, B, w, {"h": memof(h), "m": memof(m), "t": memof(t)})
            try:
                M.call_fn(fn, [("ptr", "h", 0), ("ptr", "t", 0), ("ptr", "m", 0), variants[lname]])
                out = simd.lanes(M.load(("ptr", "h", 0), w), w)
            except (simd.Unsupported, KeyError, IndexError, TypeError, AttributeError, ValueError) as e:
                ctx.fail(rule, inst, "%s: the vector code could not be evaluated to a value graph (%s)" % (path, e), where=fn.where(), key="%s:%s:eval" % (rule, path))
                continue
            spec = simd.blake2_F(B, w, h, m, t, [B.const(f[0], w), B.const(f[1], w)], IV, hashes.SIGMA, rounds, R)
            bad = [i for i in range(8) if out[i] != spec[i]]
            stray = sorted({k[0] for k in M.stores if k[0] != "h"})
            n += 1
            ctx.check(not bad and not stray, rule, inst, "h' == F(h, m, t, f) of RFC 7693 as value graphs (8 x %d-bit lanes, %d rounds, %d graph nodes); only h is written" % (w, rounds, len(B.defs)),
                      "%s (%s, last=%s) does not compute RFC 7693's compression function: output words %s differ, e.g. h'[%d] = %s  but F gives %s%s" % (path, cfg, lname, bad, bad[0] if bad else -1, B.show(out[bad[0]], 3)[:160] if bad else "", B.show(spec[bad[0]], 3)[:160] if bad else "", ("; also writes " + str(stray)) if stray else ""),
                      where=fn.where(), key="%s:%s" % (rule, path))
    return n
