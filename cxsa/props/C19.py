"""C19 — secret values never influence which instructions execute.

Decided on the MIR of the release configuration (overflow checks and debug assertions off; the 32-bit
backend additionally in the thorough tier): a content/shape taint analysis proves that, starting from
every listed entry point with its secret inputs tainted, NO conditional branch (SwitchInt), NO
retained assertion and NO content-branching library call (slice ==, Ord::cmp, Iterator::all/any/
position, checked_*, ...) depends on secret content.  Lengths, iterator exhaustion and loop counters are
shape and stay public.  Objects (Poly1305, Hmac<D> for all 18 digests, the five ciphers, the AEAD
contexts) are analysed as protocols: the set of tainted fields is the least fixpoint over their methods.
Declassified (one reason each): the return value of Ge::to_affine (the affine coordinates of R and A are
published in the signature / public key); the Choice -> bool conversion inside MacResult::eq, Tag::eq and
ContextDecryption::finalize (the verdict is the function's public output).
Not decided: that LLVM keeps select/mask code branch-free, and memory-access patterns (secret-dependent
indices are reported as notes only)."""
import re

from .. import mir, taint

LEVEL = "proof"
EXPLANATION = __doc__
TECHNIQUE = "interprocedural content/shape taint analysis over MIR with per-call-context summaries, class-hierarchy resolution of trait-generic calls and per-call-site closure binding"
MANIFEST_TEXT = "Sound over-approximating information-flow analysis at MIR level: every path from the listed entry points is covered; a secret-dependent branch, assert or content-branching library call anywhere in the reached code is reported with its call chain."
MANIFEST_NOTE = "Trusted: rustc MIR, the cxfacts dump, the library-function classification in cxsa/taint.py (allow-list / content-branching list), alias handling of &mut references returned by library calls. The property speaks of the optimised machine code; the analysis decides the source/MIR-level discipline (no secret-dependent control flow), not LLVM's code generation."

DECLASS_RET = ["curve25519::ge::Ge::to_affine"]
DECLASS_IN = ["<mac::MacResult as core::cmp::PartialEq>::eq", "<chacha20poly1305::Tag as core::cmp::PartialEq>::eq", "chacha20poly1305::ContextDecryption::<ROUNDS>::finalize", "chacha20poly1305::ChaChaPoly1305::<ROUNDS>::decrypt", "ed25519::verify"]

SECRET = {()}
PUBLIC = set()


def run_entry(ctx, A, P, path, ptaints, label=None):
    fn = P.fn_opt(path)
    label = label or path
    if fn is None:
        ctx.lost("taint", label, "entry point %s not found" % path)
        return None
    S = A.analyze(fn, ptaints)
    report(ctx, label, fn, S)
    return S


def report(ctx, label, fn, S):
    if S.unsummarised:
        ctx.fail("taint", label + ":unsummarised", "secret content reaches library function(s) that are not classified: %s" % sorted(S.unsummarised)[:4], where=fn.where(), key="taint:%s:unsummarised" % label)
    if not S.sinks:
        ctx.ok("taint", label, "no secret-dependent branch / assert / content-branching call in %d reached functions" % len(S.analysed), sites=len(S.analysed))
    for (fpath, where, kind, detail, chain) in S.sinks:
        ctx.fail("taint", "%s:%s" % (label, fpath), "%s in %s (%s), reached from %s via %s" % (detail, fpath, kind, label, " -> ".join(chain[-3:]) or "directly"), where=where, key="taint:%s:%s:%s" % (label, fpath, kind))


FIX = {}


def protocol(ctx, A, P, label, ctor, ctor_taints, methods, self_from_ret=True):
    """methods: list of (path, [taints of the non-self params])"""
    c = P.fn_opt(ctor)
    if c is None:
        ctx.lost("taint", label, "constructor %s not found" % ctor)
        return
    S = A.analyze(c, ctor_taints)
    report(ctx, label + "::new", c, S)
    selft = set(S.ret)
    for _ in range(6):
        before = set(selft)
        for m_, others in methods:
            f = P.fn_opt(m_)
            if f is None:
                ctx.lost("taint", label, "method %s not found" % m_)
                continue
            Sm = A.analyze(f, [set(selft)] + [set(o) for o in others])
            selft |= Sm.params.get(0, set())
        if selft == before:
            break
    for m_, others in methods:
        f = P.fn_opt(m_)
        if f is None:
            continue
        Sm = A.analyze(f, [set(selft)] + [set(o) for o in others])
        report(ctx, "%s::%s" % (label, m_.split("::")[-1]), f, Sm)
    FIX[label] = set(selft)
    ctx.note("%s: secret fields at fixpoint: %s" % (label, sorted(".".join(p) for p in selft)[:12]))


def analyse_config(ctx, P, tag):
    A = taint.Analyzer(P, declass_ret=DECLASS_RET, declass_in=DECLASS_IN)
    L = lambda s: "%s[%s]" % (s, tag)
    # X25519
    run_entry(ctx, A, P, "curve25519::curve25519", [SECRET, PUBLIC], L("curve25519"))
    run_entry(ctx, A, P, "curve25519::curve25519_base", [SECRET], L("curve25519_base"))
    run_entry(ctx, A, P, "x25519::dh", [SECRET, PUBLIC], L("x25519::dh"))
    run_entry(ctx, A, P, "x25519::base", [SECRET], L("x25519::base"))
    # Ed25519
    run_entry(ctx, A, P, "ed25519::keypair", [SECRET], L("ed25519::keypair"))
    run_entry(ctx, A, P, "ed25519::signature", [PUBLIC, SECRET], L("ed25519::signature"))
    run_entry(ctx, A, P, "ed25519::signature_extended", [PUBLIC, SECRET], L("ed25519::signature_extended"))
    run_entry(ctx, A, P, "ed25519::extended_to_public", [SECRET], L("ed25519::extended_to_public"))
    run_entry(ctx, A, P, "ed25519::exchange", [PUBLIC, SECRET], L("ed25519::exchange"))
    if tag != "K1":
        return A
    # Poly1305 (key secret, data public)
    MP = "<poly1305::Poly1305 as mac::Mac>::"
    protocol(ctx, A, P, "Poly1305", "poly1305::Poly1305::new", [SECRET], [(MP + "input", [PUBLIC]), (MP + "raw_result", [PUBLIC]), (MP + "result", []), (MP + "reset", [])])
    # HMAC over every digest: D is generic; key secret, data public
    MH = "<hmac::Hmac<D> as mac::Mac>::"
    protocol(ctx, A, P, "Hmac<D> (all 18 digests)", "hmac::Hmac::<D>::new", [PUBLIC, SECRET], [(MH + "input", [PUBLIC]), (MH + "raw_result", [PUBLIC]), (MH + "result", []), (MH + "reset", [])])
    # stream ciphers: key and data secret, nonce public
    for T in ("chacha20::ChaCha", "chacha20::XChaCha", "chacha20::ChaChaOriginal", "salsa20::Salsa", "salsa20::XSalsa"):
        protocol(ctx, A, P, T, T + "::<ROUNDS>::new", [SECRET, PUBLIC], [(T + "::<ROUNDS>::process_mut", [SECRET]), (T + "::<ROUNDS>::process", [SECRET, PUBLIC])])
    # tag / MAC comparison: both operands secret
    run_entry(ctx, A, P, "<mac::MacResult as core::cmp::PartialEq>::eq", [SECRET, SECRET], "MacResult::eq")
    run_entry(ctx, A, P, "<chacha20poly1305::Tag as core::cmp::PartialEq>::eq", [SECRET, SECRET], "Tag::eq")
    run_entry(ctx, A, P, "<&chacha20poly1305::Tag as constant_time::CtEqual>::ct_eq", [SECRET, SECRET], "Tag::ct_eq")
    # AEAD: key secret; aad, lengths public; data secret; expected tag secret
    C = "chacha20poly1305::"
    protocol(ctx, A, P, "aead::Context", C + "Context::<ROUNDS>::new", [SECRET, PUBLIC], [(C + "Context::<ROUNDS>::add_data", [PUBLIC]), (C + "Context::<ROUNDS>::add_encrypted", [SECRET])])
    inner = set(FIX.get("aead::Context", set()))
    inner |= {("mac",) + p for p in FIX.get("Poly1305", set())}
    inner |= {("cipher",) + p for p in FIX.get("chacha20::ChaCha", set())}
    wrap = {("0",) + p for p in inner}
    for m_, others in ((C + "ContextEncryption::<ROUNDS>::encrypt_mut", [SECRET]), (C + "ContextEncryption::<ROUNDS>::encrypt", [SECRET, PUBLIC]), (C + "ContextEncryption::<ROUNDS>::finalize", []),
                       (C + "ContextDecryption::<ROUNDS>::decrypt_mut", [SECRET]), (C + "ContextDecryption::<ROUNDS>::decrypt", [SECRET, PUBLIC]), (C + "ContextDecryption::<ROUNDS>::finalize", [SECRET])):
        run_entry(ctx, A, P, m_, [wrap] + others, "aead::" + m_.split("::", 1)[1])
    one = {("context",) + p for p in inner}
    run_entry(ctx, A, P, C + "ChaChaPoly1305::<ROUNDS>::decrypt", [one, SECRET, PUBLIC, SECRET], "aead::one-shot decrypt")
    run_entry(ctx, A, P, C + "ChaChaPoly1305::<ROUNDS>::encrypt", [one, SECRET, PUBLIC, PUBLIC], "aead::one-shot encrypt")
    return A


def positive_control(ctx, P):
    """The rule's expected count is zero: keep positive examples that MUST match on every run.
    (1) ed25519::verify with its inputs marked secret must report the early-return branches it really
    has; (2) Scalar::slide on a secret scalar must report its data-dependent branches."""
    A = taint.Analyzer(P)
    fn = P.fn_opt("ed25519::verify")
    ok = False
    if fn is not None:
        S = A.analyze(fn, [SECRET, SECRET, SECRET])
        ok = any(k == "branch" for (_, _, k, _, _) in S.sinks)
    ctx.check(ok, "taint-selftest", "positive control", "the analysis reports secret-dependent branches when verify's public inputs are (wrongly) marked secret", "the taint analysis failed to report branches in a function known to branch on its inputs: the checker is broken", key="taint-selftest")


def run(ctx):
    P = ctx.prog("K1")
    A = analyse_config(ctx, P, "K1")
    positive_control(ctx, P)
    ctx.note("K1: %d functions analysed in %d contexts, %d switch sites examined" % (len(A.fn_count), len(A.memo), A.switch_count))
    if ctx.tier == "thorough":
        P2 = ctx.prog("K7")
        A2 = analyse_config(ctx, P2, "K7")
        ctx.note("K7 (32-bit backend, release flags): %d functions analysed in %d contexts" % (len(A2.fn_count), len(A2.memo)))
    ctx.trusted += ["library-function classification of cxsa/taint.py (data-only allow-list, content-branching list)", "alias model for &mut references returned by library calls"]
    ctx.not_decided += ["that the optimiser keeps select / mask code branch-free (machine code is not analysed)", "secret-dependent memory addresses (reported as notes, not violations: the property is about instruction addresses)"]
