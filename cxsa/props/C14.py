"""C14 — Ed25519 verify accepts exactly the signatures satisfying the equation.

Decided (every path of verify, all inputs):
  accept-path  `true` can only be produced by the final constant-time comparison; the three rejections
               (point decoding None, non-canonical S, all-zero key) return false and dominate it
  decode       A = Ge::from_bytes(public_key); S = Scalar::from_bytes_canonical(signature[32..64]) and the
               scalar handed to the double multiplication IS its Some payload
  zero-key     the all-zero test ORs every one of the 32 key bytes (iterator coverage + OR-fold) and
               rejects iff the fold is 0
  equation     h = reduce_wide(SHA-512(R || A || M)) with R = signature[0..32]; the multiplication receives
               (h, decoded A, S); the verdict is ct_eq(r.to_bytes(), R) on [u8;32] operands
  canonical-S  acceptance of S is exactly S < L with the constant equal to L — in BOTH backends (the
               64-bit borrow chain, the 32-bit byte-wise comparison over all 32 bytes against little-endian L)
  window       double_scalarmult_vartime: odd multiples A,3A,..,15A built as a_(2k+1) = a_2 + a_(2k-1);
               digits index ai[|d|/2] and BI[|d|/2] with add for d > 0 and sub for d < 0; BI[j] = (2j+1)B
  scan-start   the digit scan starts at the LAST slide position (a carry digit can reach position 255)
  bits-all     Scalar::bits() returns every one of the 256 bits in both backends (a canonical S can have bit 252 set)
  s32-order    the 32-bit byte-wise S < L test is the big-endian order on all 2^256 inputs: 65 abstract cases (first
               differing byte x order there, and S == L) each fold to a constant in the interval domain
  signing      key derivation, clamp and signing-equation wiring (shared with C13); scalar32 reduce / muladd (sc32 rules)
  fe-use     32-bit backend: every call site of a field operation anywhere in the crate hands it operands built from at most
             three TIGHT values without a carry (the contract fe-bounds proves); nobody outside fe32 touches Fe limbs
Not decided: that the double-scalar multiplication computes hA + sB; slide() digit arithmetic."""
import re

from .. import mir, pred, rules, ssa, termbits
from ..mir import fmt, walk, const_val
from ..spec import curve
from . import C13, C15

EXPLANATION = __doc__
TECHNIQUE = "interval abstract interpretation over ssa terms with exact carry/remainder relations and trace partitioning on carries (inductive limb-bound invariants, overflow-assert discharge); branch-fact dominance of the accept path, canonical dataflow expressions, OR-fold and iterator-coverage rules, borrow-chain predicate vs. L in both backends; level (type-state) dataflow over every fe32 operation call site of the crate against the proved 3xTIGHT operand contract, who-may-access rule for Fe limbs"


def check_verify(ctx, P):
    fn = P.fn("ed25519::verify")
    cs = C13.calls_short(fn)
    R = "arg3[0..32]"
    Sb = "arg3[32..64]"
    # --- decoders
    d1 = C13.has_call(cs, "Ge::from_bytes(arg2)")
    d2 = C13.has_call(cs, "Scalar::from_bytes_canonical(%s)" % Sb)
    ctx.check(len(d1) == 1, "decode", "A", "A = Ge::from_bytes(public_key)", "verify does not decode the public key with Ge::from_bytes", where=fn.where(), key="decode:verify:A")
    ctx.check(len(d2) == 1, "decode", "S", "S = Scalar::from_bytes_canonical(signature[32..64])", "verify does not decode S with the canonical (range-checking) decoder on signature[32..64]: %s" % [d for c, d in cs if "Scalar::from_bytes" in d][:2], where=fn.where(), key="decode:verify:S")
    # --- hash and equation
    h = "Scalar::reduce_from_wide_bytes(Context512::finalize(Context512::update(Context512::update(Context512::update(Sha512::new(),%s),arg2),arg1)))" % R
    mult = [(c, d) for c, d in cs if d.startswith("GePartial::double_scalarmult_vartime(")]
    ok = len(mult) == 1
    if ok:
        c = mult[0][0]
        a0 = pred.short(fn.expr(c.args[0]), fn)
        a1 = fn.expr(c.args[1])
        a2 = fn.expr(c.args[2])
        ok = a0 == h
        ctx.check(ok, "equation", "h", "h = reduce(SHA-512(R || A || M))", "verify's hash is not reduce_from_wide_bytes(SHA-512(signature[0..32] || public_key || message)): %s" % a0[:200], where=fn.where(c.line), key="equation:verify:h")
        def payload_of(e, call):
            e2 = e
            while isinstance(e2, tuple) and e2[0] in ("ref", "deref"):
                e2 = e2[2] if e2[0] == "ref" else e2[1]
            return e2[0] == "field" and e2[1][0] == "downcast" and e2[1][3] == "Some" and e2[1][1][0] == "call" and e2[1][1][3] == (call.bb,)
        okA = len(d1) == 1 and payload_of(a1, d1[0])
        okS = len(d2) == 1 and payload_of(a2, d2[0])
        ctx.check(okA, "equation", "A-role", "the point operand is the decoded public key", "verify does not pass the decoded public key as the point operand", where=fn.where(c.line), key="equation:verify:A-role")
        ctx.check(okS, "equation", "S-role", "the base-point scalar is the Some payload of from_bytes_canonical", "verify does not pass the canonically decoded S as the base-point scalar (an unchecked scalar reaches the multiplication)", where=fn.where(c.line), key="equation:verify:S-role")
    else:
        ctx.fail("equation", "mult", "no unique double_scalarmult_vartime call", where=fn.where(), key="equation:verify:mult")
    # --- verdict
    ret_defs = rules.var_defs(fn, 0)
    falses = [b for b, e in ret_defs if e[0] == "const" and e[1] == 0]
    others = [(b, e) for b, e in ret_defs if not (e[0] == "const" and e[1] == 0)]
    ok = len(others) == 1 and len(falses) == 3
    if ok:
        b, e = others[0]
        s = pred.short(e, fn)
        want = "Into::into(CtEqual::ct_eq(GePartial::to_bytes(%s),%s))" % (mult[0][1] if mult else "?", R)
        ok = s == want
        ctx.check(ok, "verdict", "ct_eq(r.to_bytes(), R)", "the only non-false verdict is ct_eq(r.to_bytes(), signature[0..32])", "verify's accepting verdict is not the constant-time comparison of the recomputed R with signature[0..32]: %s" % s[:160], where=fn.where(), key="verdict:verify")
        if ok:
            cte = [c for c in fn.calls() if "CtEqual>::ct_eq" in c.name()]
            ok2 = len(cte) == 1 and any("32" in g for g in cte[0].res_ga) and cte[0].name().startswith("<&[u8; N] as")
            ctx.check(ok2, "verdict", "width", "both operands are [u8; 32]", "the final comparison is not on two 32-byte arrays", where=fn.where(), key="verdict:verify:width")
            # rejections dominate the accept block
            facts = fn.edge_facts(b)
            haveA = any(e2[0] == "disc" and v == ("in", (1,)) and pred.short(e2, fn) == "disc(Ge::from_bytes(arg2))" for e2, v, o in facts)
            haveS = any(e2[0] == "disc" and v == ("in", (1,)) and pred.short(e2, fn) == "disc(Scalar::from_bytes_canonical(arg3[32..64]))" for e2, v, o in facts)
            at = []
            for e2, v, o in facts:
                a = pred.atoms_of(e2, v, fn) if isinstance(v, bool) else None
                if a:
                    at += a
            zk = [a for a in at if a[0] == "ne" and a[2] == 0 and len(a[1]) == 1]
            ctx.check(haveA, "accept-path", "point-decoded", "the accept path requires Ge::from_bytes == Some", "verify can accept without a successfully decoded public key", where=fn.where(), key="accept-path:verify:A")
            ctx.check(haveS, "accept-path", "S-canonical", "the accept path requires from_bytes_canonical == Some", "verify can accept a signature whose S was not range-checked", where=fn.where(), key="accept-path:verify:S")
            ctx.check(len(zk) == 1, "accept-path", "key-nonzero", "the accept path requires the key-byte fold != 0", "verify can accept under the all-zero public key", where=fn.where(), key="accept-path:verify:zero-key")
            # the zero-key fold: OR over all 32 bytes of arg2
            if len(zk) == 1:
                leafname = zk[0][1][0][0]
                dv = None
                for l, nm in fn.dbg.items():
                    if "v:" + nm == leafname:
                        dv = l
                okf = dv is not None
                if okf:
                    steps = 0
                    for b2, e2 in rules.var_defs(fn, dv):
                        if e2[0] == "const" and e2[1] == 0:
                            continue
                        if e2[0] == "bin" and e2[1] == "BitOr" and ("var", dv) in (e2[2], e2[3]):
                            steps += 1
                            continue
                        okf = False
                    okf = okf and steps == 1
                lps = [l for l in rules.iter_loops(fn) if ("iter", "arg2") in l["sources"]]
                okl = len(lps) == 1 and not lps[0]["early_exits"] and [c.split("::")[-1] for c in lps[0]["chain"]] in (["into_iter", "iter"], ["iter"])
                if not (okf and okl):
                    cands = [dv] if dv is not None else [c.dest[0] for c in fn.calls() if re.search(r"Iterator(>)?::fold$", c.name()) and not c.dest[1] and leafname.startswith(c.name())]
                    if len(cands) == 1:
                        okf = okl = _zero_key_fold_form(P, fn, cands[0])
                ctx.check(okf and okl, "zero-key", "fold", "d = OR of all 32 public-key bytes (one full iter() loop, OR-fold only)", "verify's all-zero-key test does not OR every key byte (a cancelling or partial fold rejects honest keys / accepts the zero key)", where=fn.where(), key="zero-key:verify:fold")
    else:
        ctx.fail("verdict", "shape", "verify must have exactly three `return false` rejections and one comparison verdict (found %d / %d)" % (len(falses), len(others)), where=fn.where(), key="verdict:verify:shape")


def check_s32(ctx, P2):
    """32-bit backend: from_bytes_canonical compares all 32 bytes with little-endian L"""
    fn = P2.fn("curve25519::scalar::scalar32::Scalar::from_bytes_canonical")
    Lc = None
    for path, c in P2.consts.items():
        if path.endswith("from_bytes_canonical::L"):
            Lc = c.get("v")
    want = list(curve.L.to_bytes(32, "little"))
    ctx.check(Lc == want, "table", "scalar32::L", "L stored little-endian, matching the index order of the comparison", "scalar32 from_bytes_canonical's constant is not the group order in the byte order the comparison walks (S = L / S + L would be accepted)", where=fn.where(), key="table:scalar32::L")
    # the comparison may live in a private helper or be written out in from_bytes_canonical: the term evaluator inlines the
    # private helpers of the module, so the rule sees the same terms either way
    r, cond, where_ = s32_reject_cond(P2)
    chk = P2.fn_opt("curve25519::scalar::scalar32::Scalar::from_bytes_canonical::check_s_lt_l") or fn
    # unrolled? the loop is `loop { body(i); if i == 0 {break} else {i -= 1} }` with i = 31: constant-trip -> ssa unrolls it
    idxs = []
    for bb, kind, cnd, exp, ops in r.asserts:
        if kind == "bounds" and len(ops) == 2 and ssa.is_c(ops[1]):
            idxs.append(ops[1][1])
    seen = sorted(set(idxs))
    ctx.check(seen == list(range(32)), "canonical", "scalar32::check_s_lt_l:coverage", "the comparison visits byte indices 31 down to 0 (all 32 bytes)", "scalar32's S < L comparison does not visit all 32 bytes (indices seen: %s): the least significant byte(s) are never compared" % (seen[:3] + ["..."] + seen[-2:] if len(seen) > 5 else seen), where=chk.where(), key="canonical:scalar32::check_s_lt_l:coverage")
    # acceptance polarity: None exactly under the reject condition, Some(Scalar::from_bytes(bytes)) otherwise; WHICH inputs
    # make the condition true is the order rule below
    ctx.check(cond is not None, "canonical", "scalar32::from_bytes_canonical:polarity", "result = if <reject condition> { None } else { Some(Scalar::from_bytes(bytes)) }", "scalar32 from_bytes_canonical is not `None` under one condition and `Some(from_bytes(bytes))` otherwise (%s)" % where_, where=fn.where(), key="canonical:scalar32::from_bytes_canonical:polarity")


def s32_reject_cond(P2):
    """(evaluation, reject-condition term or None, diagnosis) of scalar32 from_bytes_canonical"""
    fn = P2.fn("curve25519::scalar::scalar32::Scalar::from_bytes_canonical")
    r = ssa.Eval(P2, fn, inline=ssa.auto_inline(P2, fn), maxdepth=3).run()
    from .. import intern
    intern.Interner().canon_result(r)
    ret = r.ret
    if not isinstance(ret, ssa.Agg) or "Option" not in str(ret.get("_adt")):
        return r, None, "the result is not an Option built on both paths"
    pl = ret.get(0) if 0 in ret else ret.get("0")
    if not (isinstance(pl, tuple) and pl and pl[0] == "ite"):
        return r, None, "the payload does not depend on a comparison"
    c_, a_, b_ = pl[1], pl[2], pl[3]

    def is_some(t):
        return isinstance(t, tuple) and t and t[0] == "call" and t[1].endswith("scalar32::Scalar::from_bytes")
    if a_ == ("undef",) and is_some(b_):
        return r, c_, ""
    if b_ == ("undef",) and is_some(a_):
        return r, ("un", "Not", c_, "bool"), ""
    return r, None, "branches %s / %s" % (str(a_)[:40], str(b_)[:40])


def check_s32_order(ctx, P2):
    """scalar32's byte-wise S < L: decided for ALL 2^256 inputs by 65 abstract cases of the interval domain — the position
    k of the most significant byte where S differs from L and the order there (bytes above k equal L's, bytes below k
    arbitrary), plus S == L.  In every case the accumulator folds to a constant."""
    from .. import bounds, intern
    fn0 = P2.fn("curve25519::scalar::scalar32::Scalar::from_bytes_canonical")
    chk = P2.fn_opt("curve25519::scalar::scalar32::Scalar::from_bytes_canonical::check_s_lt_l") or fn0
    r, ret, why_ = s32_reject_cond(P2)
    if ret is None:
        ctx.fail("canonical", "scalar32::check_s_lt_l:order", "cannot see the reject condition of scalar32 from_bytes_canonical (%s)" % why_, where=fn0.where(), key="canonical:scalar32::check_s_lt_l:order")
        return
    Lb = list(curve.L.to_bytes(32, "little"))

    def run_case(k, order):
        def leaf(t):
            i = None
            if t[0] == "elem" and isinstance(t[1], tuple) and t[1] and t[1][0] == "load" and t[1][1] == "arg1" and isinstance(t[2], int):
                i = t[2]
            elif t[0] == "load":
                m = re.match(r"^arg1\[(\d+)\]$", t[1])
                if m:
                    i = int(m.group(1))
            if i is None:
                return None
            if k is None or i > k:
                return (Lb[i], Lb[i])
            if i == k:
                return (0, Lb[i] - 1) if order == "<" else (Lb[i] + 1, 255)
            return (0, 255)
        ev = bounds.Iv(leaf)
        return ev.iv(ret), ev.unknown
    bad = []
    n = 0
    for k in list(range(32)) + [None]:
        for order in (("<", ">") if k is not None else ("=",)):
            if k is not None and ((order == "<" and Lb[k] == 0) or (order == ">" and Lb[k] == 255)):
                continue
            n += 1
            v, unk = run_case(k, order)
            want = 0 if order == "<" else 1          # the reject condition (`c == 0`), i.e. NOT (S < L)
            if v != (want, want) or unk:
                bad.append((k, order, v))
    ctx.check(not bad and n >= 40, "canonical", "scalar32::check_s_lt_l:order", "returns false exactly when S < L: %d cases (first differing byte x order, and S == L) each fold to a constant" % n,
              "scalar32's byte-wise S < L test is not the big-endian order of the 32 bytes: cases (byte, order at that byte, result interval) %s" % bad[:4], where=chk.where(), key="canonical:scalar32::check_s_lt_l:order")


def check_bits_all(ctx, P, backend):
    """Scalar::bits(): r[i] is bit i of the scalar for EVERY i in 0..256 (the sliding-window recoding reads all of them;
    a canonical S can have bit 252 set)."""
    fn = P.fn("curve25519::scalar::%s::Scalar::bits" % backend)
    ev = ssa.Eval(P, fn)
    ev.MAXIT = 300
    ev.MAXWORK = 400000
    r = ev.run()
    ret = r.ret
    inst = "%s::Scalar::bits" % backend
    if not isinstance(ret, ssa.Agg):
        ctx.fail("bits-all", inst, "cannot see the 256 entries of the result (the loop is not a constant-trip loop over 0..256?)", where=fn.where(), key="bits-all:%s" % inst)
        return
    if backend == "scalar64":
        def leaf(t):
            if t[0] == "load":
                m = re.match(r"^arg1\.0\[(\d)\]$", t[1])
                if m:
                    j = int(m.group(1))
                    return [("S", 56 * j + b) for b in range(56)] + [0] * 8
            return None
    else:
        base = termbits.byte_leaf({"arg1.0", "arg1"})

        def leaf(t):
            b = base(t)
            return [("S", x[1]) for x in b] if b is not None else None
    B = termbits.Bits(leaf)
    bad = []
    for i in range(256):
        e = ret.get_elem(i)
        got = B.bits(e, 8)
        if got != [("S", i)] + [0] * 7:
            bad.append((i, termbits.show(got)))
    ctx.check(not bad, "bits-all", inst, "r[i] = bit i of the scalar for all 256 positions", "%s does not return every bit of the scalar: wrong entries %s" % (inst, bad[:4] + (["... %d in total" % len(bad)] if len(bad) > 4 else [])), where=fn.where(), key="bits-all:%s" % inst)


def check_window(ctx, P):
    fn = P.fn("curve25519::ge::GePartial::double_scalarmult_vartime")
    # ai = [a1, a3, ..., a15] with a1 = to_cached(A), a2 = double(A), a_(2k+1) = to_cached(to_full(a2 + a_(2k-1)))
    arr = [s for b in sorted(fn.reachable()) for s in fn.stmts(b) if s[0] == "=" and s[2][0] == "agg" and s[2][1][0] == "array" and len(s[2][2]) == 8]
    ok = len(arr) == 1
    if ok:
        els = [pred.short(fn.expr(o), fn) for o in arr[0][2][2]]
        a1 = "Ge::to_cached(arg2)"
        a2 = "GeP1P1::to_full(Ge::double_p1p1(arg2))"
        want = [a1]
        for k in range(7):
            want.append("Ge::to_cached(GeP1P1::to_full(GeCached::add(%s,%s)))" % (a2, want[-1]))
        ok = els == want
        addc = [c for c in fn.calls() if c.bb not in fn.loop_blocks() and "Add<&curve25519::ge::GeCached>>::add" in c.name()]
        ok = ok and len(addc) == 7
    ctx.check(ok, "window", "odd-multiples", "ai[k] = (2k+1) A built as a2 + previous", "double_scalarmult_vartime's table of odd multiples is not A, 3A, ..., 15A (a_(2k+1) = 2A + a_(2k-1))", where=fn.where(), key="window:odd-multiples")
    # digit use: + for Greater, - for Less, index |d| / 2, tables ai (for a) and BI (for b)
    uses = []
    for c in fn.calls():
        nm = c.name()
        if ("core::ops::Add<&curve25519::ge::GeCached>>::add" in nm or "core::ops::Sub<&curve25519::ge::GeCached>>::sub" in nm or "core::ops::Add<&curve25519::ge::GePrecomp>>::add" in nm or "core::ops::Sub<&curve25519::ge::GePrecomp>>::sub" in nm) and c.bb in fn.loop_blocks():
            ie = fn.expr(c.args[1])
            idx = pred.short(ie, fn)
            bi_val = mir._freeze(P.const_opt("curve25519::fe::fe64::precomp::BI") or P.const_opt("curve25519::fe::fe32::precomp::BI"))
            is_bi = any(x[0] == "kconst" and x[3] == bi_val for x in walk(ie))
            is_ai = idx.startswith("agg:[GeCached; 8](") or idx.startswith("agg:array(") or "v:ai[" in idx or idx.startswith("agg:")
            facts = fn.edge_facts(c.bb)
            ordv = None
            for e, v, o in facts:
                if e[0] == "disc" and isinstance(v, tuple) and v[0] == "in" and "cmp(" in pred.short(e, fn):
                    ordv = (v[1], pred.short(e, fn))
            if ordv is None:
                # comparison form: the call sits under `d > 0` / `d < 0` as linear branch facts on the digit d = slide(..)[i]
                for f_ in pred.facts_at(fn, c.bb):
                    if f_[0] == "le" and len(f_[1]) == 1 and f_[2] == -1:
                        (nm_, co_), = f_[1]
                        if re.search(r"slide\(arg\d\)\[", nm_) and "Div" not in nm_ and "Neg(" not in nm_:
                            sh_ = re.sub(r"curve25519::scalar::<impl curve25519::scalar::scalar\d\d::Scalar>::", "Scalar::", nm_)
                            ordv = ((1,) if co_ == -1 else (-1,) if co_ == 1 else (), "cmp(%s)" % sh_)
            uses.append(("add" if "::add" in nm else "sub", "precomp" if "GePrecomp" in nm else "cached", idx, ordv, is_bi if "GePrecomp" in nm else is_ai))
    ok = len(uses) == 4
    good = 0
    for op, kind, idx, ordv, tb in uses:
        if ordv is None:
            continue
        vals, cmpd = ordv
        sl = "Scalar::slide(arg1)" if kind == "cached" else "Scalar::slide(arg3)"
        tbl_ok = tb
        # Ordering: Less = -1 (255 as u8 / -1 as i8), Equal = 0, Greater = 1
        if op == "add" and vals == (1,) and (sl in cmpd) and tbl_ok and "Div 2" in idx and "Neg(" not in idx:
            good += 1
        if op == "sub" and vals in ((-1,), (255,)) and (sl in cmpd) and tbl_ok and "Div 2" in idx and "Neg(" in idx:
            good += 1
    ctx.check(ok and good == 4, "window", "digit-use", "digit d > 0: + table[d/2]; d < 0: - table[-d/2]; a-digits use ai, b-digits use BI", "double_scalarmult_vartime does not add table[|d|/2] for positive and subtract it for negative digits from the right tables: %s" % [(u_[0], u_[1], u_[2][-60:], u_[3], u_[4]) for u_ in uses], where=fn.where(), key="window:digit-use")


def _zero_key_fold_form(P, fn, dv):
    """the all-zero test written as  public_key.iter().fold(0, |acc, b| acc | *b): one fold over the whole key, start 0, and
    the closure — evaluated to a value graph on a symbolic accumulator and byte — is exactly the OR"""
    from .. import simd
    defs = [d_ for d_ in rules.var_defs(fn, dv) if not (d_[1][0] == "call")]
    if defs:
        return False          # any other assignment to the accumulator
    folds = [c for c in fn.calls() if re.search(r"Iterator(>)?::fold$", c.name()) and c.dest[0] == dv and not c.dest[1]]
    if len(folds) != 1:
        return False
    c = folds[0]
    src = pred.canon(fn.expr(c.args[0]), fn)
    init = fn.expr(c.args[1])
    if not re.match(r"^core::slice::<impl \[T\]>::iter\(arg2\)$", src) or init[:2] != ("const", 0) or c.bb in fn.loop_blocks():
        return False
    clo = None
    for b in sorted(fn.reachable()):
        for st in fn.stmts(b):
            if st[0] == "=" and st[2][0] == "agg" and st[2][1] and st[2][1][0] == "closure" and not st[2][2]:
                if c.args[2][0] in ("cp", "mv") and c.args[2][1][0] == st[1][0]:
                    clo = st[2][1][1]
    cf = P.fn_opt(clo) if clo else None
    if cf is None:
        return False
    B = simd.TermBank()
    acc = B.inp("acc", 8)
    byte = B.inp("b", 8)
    M = simd.Machine(P, B, 8, {})
    holder = {"b": byte, "c": {"_closure": clo}}
    try:
        out = M.call_fn(cf, [("lref", holder, "c"), acc, ("lref", holder, "b")])
        return M.scalar_bits(out, 8) == B.or_(acc, byte)
    except Exception:
        return False


def check_scan(ctx, P):
    """The digit scan of double_scalarmult_vartime must start at the LAST slide position: Scalar::slide() can carry a
    signed-window digit into position 255 even for scalars below 2^255, so a scan from 254 drops it."""
    import re as _re
    fn = P.fn("curve25519::ge::GePartial::double_scalarmult_vartime")
    slides = {l: int(_re.match(r"^\[i8; (\d+)\]$", t).group(1)) for l, t in enumerate(fn.locals) if _re.match(r"^\[i8; (\d+)\]$", t or "")}
    idx_locals = set()
    for b in fn.reachable():
        for st in fn.stmts(b):
            if st[0] != "=":
                continue
            for e in walk(st[2]):
                pass
    # index locals: every `slide[_i]` projection
    def places(x):
        if isinstance(x, (list, tuple)):
            if len(x) == 2 and isinstance(x[0], int) and isinstance(x[1], list):
                yield x
            for y in x:
                for z in places(y):
                    yield z
    for b in fn.reachable():
        for st in fn.stmts(b):
            for pl in places(st):
                if pl[0] in slides:
                    for pj in pl[1]:
                        if isinstance(pj, (list, tuple)) and pj and pj[0] == "i":
                            # the index temp is a copy of the loop variable: follow single-definition copies
                            e = fn.expr(("cp", [pj[1], []]))
                            for v in walk(e):
                                if v[0] == "var":
                                    idx_locals.add(v[1])
    inits = []
    loops = fn.loop_blocks()
    for b in fn.reachable():
        if b in loops:
            continue
        for st in fn.stmts(b):
            if st[0] == "=" and not st[1][1] and st[1][0] in idx_locals and st[2][0] == "use" and st[2][1][0] == "k" and isinstance(st[2][1][1].get("v"), int):
                inits.append((st[1][0], st[2][1][1]["v"]))
    n = set(slides.values())
    ok = len(n) == 1 and len(slides) == 2 and len(inits) == 1 and inits[0][1] == list(n)[0] - 1
    ctx.check(ok, "window", "scan-start", "the digit scan starts at position %s = len(slide) - 1" % (inits[0][1] if inits else "?"), "double_scalarmult_vartime does not start its digit scan at the last slide position (slide arrays %s, scan start %s): a carry digit at the top position would be dropped" % (sorted(n), inits), where=fn.where(), key="window:scan-start")


def check_convention(ctx, P):
    """verify computes h*A' + s*B and compares with R, which is correct iff A' = -A: exactly one of
    {the decoder returns the negated point, verify negates the decoded point} must hold."""
    fb = P.fn("curve25519::ge::GeAffine::from_bytes")
    neg = [c for c in fb.calls() if c.name().endswith("Fe::negate_mut")]
    dec_neg = None
    if len(neg) == 1:
        for e, v, o in fb.edge_facts(neg[0].bb):
            if e[0] == "bin" and e[1] in ("Eq", "Ne") and "is_negative(" in pred.short(e, fb):
                # negate when parity == sign  -> returns -P ; negate when parity != sign -> returns P
                dec_neg = (e[1], v) in (("Eq", True), ("Ne", False))
    vf = P.fn("ed25519::verify")
    ver_neg = any(c.name().endswith("Neg>::neg") or c.name().endswith("::negate") or c.name().endswith("negate_mut") for c in vf.calls())
    ctx.check(dec_neg is not None and dec_neg != ver_neg, "sign-convention", "verify", "the point multiplied by h is -A (decoder convention and verify agree): R = sB - hA", "verify and Ge::from_bytes disagree on the sign of the decoded key: the equation checked is no longer sB - hA = R", where=vf.where(), key="sign-convention:verify")


def run(ctx):
    P = ctx.prog("K0")
    ctx.guard("verify", "ed25519::verify", lambda: check_verify(ctx, P))
    ctx.guard("canonical", "scalar64", lambda: C15.check_scalar64(ctx, P))
    ctx.guard("table", "scalar64", lambda: C13.check_tables(ctx, P))
    ctx.guard("window", "double_scalarmult_vartime", lambda: check_window(ctx, P))
    ctx.guard("window", "scan-start", lambda: check_scan(ctx, P))
    ctx.guard("table", "BI/fe64", lambda: C15.check_tables(ctx, P, "fe64"))
    P2 = ctx.prog("K2")
    ctx.guard("canonical", "scalar32", lambda: check_s32(ctx, P2))
    ctx.guard("canonical", "scalar32-order", lambda: check_s32_order(ctx, P2))
    ctx.guard("bits-all", "scalar64", lambda: check_bits_all(ctx, P, "scalar64"))
    ctx.guard("bits-all", "scalar32", lambda: check_bits_all(ctx, P2, "scalar32"))
    ctx.guard("table", "BI/fe32", lambda: C15.check_tables(ctx, P2, "fe32"))
    ctx.guard("verify", "ed25519::verify/K2", lambda: check_verify(ctx, P2))
    # verification decompresses A and runs the double-base multiplication on lazily carried fe32 limbs: operand contracts of
    # the field operations and their use at every call site of the group code (shared with C13 / C15 / C17 / C20)
    from . import febounds
    ctx.guard("fe-bounds", "fe32", lambda: febounds.check_fe32(ctx, P2, "K2"))
    ctx.guard("sign-convention", "verify x decode", lambda: check_convention(ctx, P))
    # "every signature produced by signing verifies under the matching public key": the key derivations and the
    # signing equation (rule instances shared with C13), and the 32-bit backend's scalar arithmetic used by both sides
    ctx.guard("wire", "keys", lambda: C13.check_keys(ctx, P))
    ctx.guard("clamp", "ed25519", lambda: C13.check_clamp(ctx, P))
    ctx.guard("sign", "signature", lambda: C13.check_signature(ctx, P, "ed25519::signature", "extended_secret(keypair_private(arg2))", "keypair_public(arg2)"))
    ctx.guard("sign", "signature_extended", lambda: C13.check_signature(ctx, P, "ed25519::signature_extended", "arg2", "extended_to_public(arg2)"))
    # the digests underneath: padding position and zero fill, length fields, sponge padding (structural rules shared with C01)
    from . import C01 as _C01
    ctx.guard("padding", "standard_padding", lambda: _C01.check_standard_padding(ctx, P))
    ctx.guard("length-field", "md", lambda: _C01.check_length_fields(ctx, P))
    ctx.guard("sponge-pad", "sha3", lambda: _C01.check_sponge_pad(ctx, P))
    from . import sc32
    ctx.guard("sc", "scalar32::reduce", lambda: sc32.check_scalar32(ctx, P2, "reduce"))
    ctx.guard("sc", "scalar32::muladd", lambda: sc32.check_scalar32(ctx, P2, "muladd"))
    ctx.not_decided += ["that double_scalarmult_vartime computes hA + sB (sliding-window digit arithmetic)", "SHA-512 and the group / field arithmetic values (C01, C15)"]
