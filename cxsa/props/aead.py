"""Shared rule instances for the ChaCha20-Poly1305 construction (C06, C07)."""
import re

from .. import mir, pred, rules
from ..mir import fmt, walk, const_val

M = "chacha20poly1305::"
CTX = M + "Context::<ROUNDS>::"
MAC_INPUT = r"<poly1305::Poly1305 as mac::Mac>::input$"
MAC_RAW = r"<poly1305::Poly1305 as mac::Mac>::raw_result$"


def cn(fn, op):
    return pred.canon(fn.expr(op), fn)


def L(fn, e):
    l, c = pred.lin(e, fn)
    return (tuple(sorted(l.items())), c)


def is_fresh_zero_array(fn, e, n):
    """e is (a reference to) a local whose only definition is [0u8; n] (possibly mutated later by callee)."""
    while isinstance(e, tuple) and e[0] in ("ref", "cast", "deref"):
        e = e[2] if e[0] in ("ref", "cast") else e[1]
    if e[0] == "rep":
        return e[1][:2] == ("const", 0) and e[2] == n
    if e[0] == "var":
        ds = fn.defs().get(e[1], [])
        whole = [(b, i) for b, i, w in ds if w]
        if len(whole) == 1 and len(ds) == 1 and whole[0][1] != "t":
            rv = fn.blocks[whole[0][0]]["s"][whole[0][1]][2]
            return rv[0] == "rep" and const_val(rv[1]) == 0 and rv[2] == n
    return False


def local_of(e):
    while isinstance(e, tuple) and e[0] in ("ref", "cast", "deref"):
        e = e[2] if e[0] in ("ref", "cast") else e[1]
    return e[1] if e[0] == "var" else None


def is_result_of(fn, e, call):
    """expression e denotes the value produced by `call` (its destination local or the call node itself)."""
    while isinstance(e, tuple) and e[0] in ("ref", "cast", "deref"):
        e = e[2] if e[0] in ("ref", "cast") else e[1]
    if e[0] == "var":
        return e[1] == call.dest[0] and not call.dest[1]
    if e[0] == "call":
        return e[3] == (call.bb,)
    return False


def check_context_new(ctx, P):
    fn = P.fn(CTX + "new")
    seq = [r"chacha20::ChaCha::<ROUNDS>::new$", r"chacha20::ChaCha::<ROUNDS>::process$", r"poly1305::Poly1305::new$"]
    mn, _ = rules.call_sequence_min_progress(fn, seq)
    ctx.check(mn == 3, "otk-order", "Context::new", "ChaCha::new -> process(zero block) -> Poly1305::new on every path", "Context::new does not derive the one-time key as ChaCha::new, process, Poly1305::new (progress %d/3)" % mn, where=fn.where())
    cnew = fn.calls_to(seq[0])
    cproc = fn.calls_to(seq[1])
    pnew = fn.calls_to(seq[2])
    if not (len(cnew) == 1 and len(cproc) == 1 and len(pnew) == 1):
        ctx.lost("otk", "Context::new", "expected one call each of ChaCha::new / process / Poly1305::new")
        return
    ctx.check(cn(fn, cnew[0].args[0]) == "arg1" and cn(fn, cnew[0].args[1]) == "arg2", "otk-wire", "cipher(key,nonce)", "cipher is ChaCha::new(key, nonce)", "cipher is not built from (key, nonce)", where=fn.where(cnew[0].line))
    ctx.check(is_result_of(fn, fn.expr(cproc[0].args[0]), cnew[0]), "otk-wire", "same-cipher", "the keystream block is drawn from the cipher that is stored in the context", "process() is not applied to the freshly built cipher", where=fn.where(cproc[0].line))
    zin = fn.expr(cproc[0].args[1])
    zout = fn.expr(cproc[0].args[2])
    ctx.check(is_fresh_zero_array(fn, zin, 64), "otk-block", "input=[0;64]", "a whole 64-byte zero block is encrypted (so data starts at block 1)", "the one-time-key keystream request is not a 64-byte all-zero input: %s" % fmt(zin), where=fn.where(cproc[0].line), key="otk-block:input64")
    ctx.check(is_fresh_zero_array(fn, zout, 64), "otk-block", "output=[0;64]", "64-byte output block", "the one-time-key output buffer is not a fresh 64-byte array", where=fn.where(cproc[0].line), key="otk-block:output64")
    w = rules.window(fn, fn.expr(pnew[0].args[0]))
    outl = local_of(zout)
    ok = w is not None and outl is not None and w[0] == "_%d" % outl or (w is not None and outl is not None and w[0] == "v:" + fn.dbg.get(outl, "?"))
    ok = ok and w[1] == ((), 0) and w[2] == ((), 32)
    ctx.check(ok, "otk-slice", "mac_key[..32]", "Poly1305 is keyed with bytes 0..32 of that keystream block", "Poly1305 key is not the first 32 bytes of the block-0 keystream: window %s" % (w,), where=fn.where(pnew[0].line), key="otk-slice")
    # stored fields
    aggs = [s for b in sorted(fn.reachable()) for s in fn.stmts(b) if s[0] == "=" and s[2][0] == "agg" and s[2][1][0] == "adt" and s[2][1][1] == M + "Context"]
    if len(aggs) != 1:
        ctx.lost("otk-fields", "Context::new", "expected one Context aggregate")
        return
    names = aggs[0][2][1][4]
    d = dict(zip(names, aggs[0][2][2]))
    ctx.check(const_val(d["aad_len"]) == 0 and const_val(d["data_len"]) == 0, "otk-fields", "lengths=0", "aad_len = data_len = 0 initially", "length counters do not start at 0", where=fn.where())
    ctx.check(is_result_of(fn, fn.expr(d["cipher"]), cnew[0]) and is_result_of(fn, fn.expr(d["mac"]), pnew[0]), "otk-fields", "cipher,mac", "the context stores that cipher and that mac", "the context does not store the cipher/mac just initialised", where=fn.where())
    # key length guard
    facts = pred.facts_at(fn, cnew[0].bb)
    return True


def check_counter(ctx, P, meth, field):
    fn = P.fn(CTX + meth)
    ins = fn.calls_to(MAC_INPUT)
    ok = len(ins) == 1 and cn(fn, ins[0].args[0]) == "arg1.mac" and cn(fn, ins[0].args[1]) == "arg2" and rules.every_ret_path_passes(fn, [ins[0].bb]) and ins[0].bb not in fn.loop_blocks()
    ctx.check(ok, "absorb", meth, "%s feeds exactly its argument to self.mac once on every path" % meth, "%s does not feed its argument to the MAC exactly once on every path" % meth, where=fn.where(), key="absorb:%s" % meth)
    ws = [(b, names, rv) for b, i, names, rv in rules.field_writes(fn)]
    lens = [(b, L(fn, fn.rvalue_expr(rv))) for b, names, rv in ws if names == [field]]
    want = (tuple(sorted([("arg1." + field, 1), ("len(arg2)", 1)])), 0)
    ok = len(lens) == 1 and lens[0][1] == want and rules.every_ret_path_passes(fn, [lens[0][0]]) and lens[0][0] not in fn.loop_blocks()
    ctx.check(ok, "count", meth + ":" + field, "%s := %s + arg.len() once on every path" % (field, field), "%s does not add its argument's length to %s exactly once (writes: %s)" % (meth, field, [v for _, v in lens]), where=fn.where(), key="count:%s:%s" % (meth, field))
    others = [names for b, names, rv in ws if names != [field]]
    ctx.check(not others, "count", meth + ":no-other-writes", "no other field is written", "%s writes other context fields: %s" % (meth, others), where=fn.where())


def check_transition(ctx, P, meth, wrapper):
    fn = P.fn(CTX + meth)
    ps = fn.calls_to(r"chacha20poly1305::pad16$")
    ok = len(ps) == 1 and cn(fn, ps[0].args[0]) == "arg1.mac" and cn(fn, ps[0].args[1]) == "arg1.aad_len" and rules.every_ret_path_passes(fn, [ps[0].bb]) and ps[0].bb not in fn.loop_blocks()
    ctx.check(ok, "aad-pad", meth, "%s pads the MAC once with pad16(mac, aad_len)" % meth, "%s does not call pad16(self.mac, self.aad_len) exactly once" % meth, where=fn.where(), key="aad-pad:%s" % meth)
    other = [c.name() for c in fn.calls() if c not in ps and not c.name().startswith("core::")]
    ctx.check(not other, "aad-pad", meth + ":nothing-else", "no other MAC/cipher operation in the transition", "%s performs further operations: %s" % (meth, other), where=fn.where())
    sig = fn.raw.get("sig", "")
    ctx.check(sig.startswith("fn(chacha20poly1305::Context<ROUNDS>)") and wrapper in sig, "typestate", meth, "%s consumes the Context by value and returns %s" % (meth, wrapper), "%s does not consume self / return %s: %s" % (meth, wrapper, sig), where=fn.where())


def check_pad16(ctx, P):
    fn = P.fn(M + "pad16")
    ins = fn.calls_to(MAC_INPUT)
    if len(ins) != 1:
        ctx.fail("pad16", "one-input", "pad16 must feed the MAC exactly once on the padding path, found %d input calls" % len(ins), where=fn.where())
        return
    c = ins[0]
    facts = pred.facts_at(fn, c.bb)
    need = pred.A("ne", 0, **{"mod(arg2,16)": 1})
    ctx.check(need in facts and c.bb not in fn.loop_blocks(), "pad16-pred", "pads-iff-unaligned", "padding is fed iff len % 16 != 0", "pad16 does not pad exactly when len %% 16 != 0 (facts: %s)" % [pred.show(f) for f in facts], where=fn.where(c.line), key="pad16-pred")
    # the no-padding path must exist and do nothing
    other = [b for b in fn.ret_reaching() if fn.term(b)[0] == "sw"]
    w = rules.window(fn, fn.expr(c.args[1]))
    ok = w is not None and w[1] == ((), 0) and w[2] == ((("mod(arg2,16)", -1),), 16)
    ctx.check(ok, "pad16-len", "16-len%16", "pad length is 16 - len % 16", "pad16 pad length is not 16 - (len %% 16): window %s" % (w,), where=fn.where(c.line), key="pad16-len")
    base = None
    for s in walk(fn.expr(c.args[1])):
        if s[0] == "call" and rules.INDEX_FN.search(s[1]):
            base = s[2][0]
    ctx.check(base is not None and (is_fresh_zero_array(fn, base, 15) or is_fresh_zero_array(fn, base, 16)), "pad16-zero", "zeros", "padding bytes are zeros", "padding source is not a fresh all-zero array", where=fn.where(c.line))
    ctx.check(cn(fn, c.args[0]) == "arg1", "pad16-wire", "mac", "padding goes to the given MAC", "padding is fed to a different MAC", where=fn.where(c.line))


def check_finalize_raw(ctx, P):
    fn = P.fn(M + "finalize_raw")
    seq = [r"chacha20poly1305::pad16$", r"cryptoutil::write_u64_le$", r"cryptoutil::write_u64_le$", MAC_INPUT, MAC_RAW]
    # what is ordered is what reaches the MAC: padding, then the length block, then the result; and the length block must
    # be written before it is fed.  The padding and the writes into the local length buffer are independent of each other.
    mn1, _ = rules.call_sequence_min_progress(fn, [seq[0], seq[3], seq[4]])
    mn2, _ = rules.call_sequence_min_progress(fn, [seq[1], seq[2], seq[3], seq[4]])
    mn = 5 if (mn1 == 3 and mn2 == 4) else min(mn1, mn2)
    ctx.check(mn == 5, "trailer-order", "finalize_raw", "pad16(data_len) -> LE64(aad_len) -> LE64(data_len) -> mac.input(lengths) -> raw_result", "finalize_raw does not run pad, both length writes, MAC input, raw_result in order (progress %d/5)" % mn, where=fn.where(), key="trailer-order")
    pads = fn.calls_to(seq[0])
    ctx.check(len(pads) == 1 and cn(fn, pads[0].args[0]) == "arg1.mac" and cn(fn, pads[0].args[1]) == "arg1.data_len", "trailer-wire", "pad16(data_len)", "ciphertext is padded with pad16(mac, data_len)", "finalize_raw does not pad with data_len", where=fn.where(), key="trailer-wire:pad")
    ws = fn.calls_to(seq[1])
    got = {}
    buf = None
    for c in ws:
        w = rules.window(fn, fn.expr(c.args[0]))
        if w:
            got[(w[1], w[2])] = cn(fn, c.args[1])
            buf = w[0]
    want = {(((), 0), ((), 8)): "arg1.aad_len", (((), 8), ((), 16)): "arg1.data_len"}
    ctx.check(got == want, "trailer-layout", "LE64(aad)||LE64(data)", "bytes 0..8 = aad_len, 8..16 = data_len", "length block layout is wrong: %s" % got, where=fn.where(), key="trailer-layout")
    mi = fn.calls_to(MAC_INPUT)
    ok = len(mi) == 1 and cn(fn, mi[0].args[0]) == "arg1.mac"
    if ok:
        w = rules.window(fn, fn.expr(mi[0].args[1]))
        ok = w is not None and w[0] == buf and w[1] == ((), 0) and w[2] in (None, ((), 16))
    ctx.check(ok, "trailer-wire", "mac.input(len_buf)", "the whole 16-byte length block is fed to the MAC", "the length block fed to the MAC is not the 16-byte buffer just written", where=fn.where(), key="trailer-wire:input")
    rr = fn.calls_to(MAC_RAW)
    ctx.check(len(rr) == 1 and cn(fn, rr[0].args[0]) == "arg1.mac", "trailer-wire", "raw_result", "tag = mac.raw_result", "tag is not taken from self.mac.raw_result", where=fn.where())
    # the write_u64_le helper is the LE one
    wf = P.fn("cryptoutil::write_u64_le")
    ok = any(c.name().endswith("u64>::to_le_bytes") for c in wf.calls()) and not any("to_be_bytes" in c.name() for c in wf.calls())
    ctx.check(ok, "trailer-endian", "write_u64_le", "write_u64_le uses to_le_bytes", "write_u64_le is not little-endian", where=wf.where())


def _two_calls_order(ctx, fn, rule, inst, first, second, msg_ok, msg_bad, key):
    a = fn.calls_to(first)
    b = fn.calls_to(second)
    if len(a) != 1 or len(b) != 1:
        ctx.fail(rule, inst, "expected exactly one call each of %s and %s in %s" % (first, second, fn.path), where=fn.where(), key=key)
        return None, None
    mn, _ = rules.call_sequence_min_progress(fn, [first, second])
    ctx.check(mn == 2 and a[0].bb not in fn.loop_blocks() and b[0].bb not in fn.loop_blocks(), rule, inst, msg_ok, msg_bad, where=fn.where(), key=key)
    return a[0], b[0]


def check_mac_sees_ciphertext(ctx, P, side):
    """side = 'enc' or 'dec'"""
    ADD = r"chacha20poly1305::Context::<ROUNDS>::add_encrypted$"
    PM = r"chacha20::ChaCha::<ROUNDS>::process_mut$"
    PR = r"chacha20::ChaCha::<ROUNDS>::process$"
    if side == "enc":
        T = M + "ContextEncryption::<ROUNDS>::"
        fn = P.fn(T + "encrypt_mut")
        c, a = _two_calls_order(ctx, fn, "mac-order", "encrypt_mut", PM, ADD, "cipher first, then MAC over the same buffer", "encrypt_mut must encrypt in place before authenticating", "mac-order:encrypt_mut")
        if c:
            ctx.check(cn(fn, c.args[0]) == "arg1.0.cipher" and cn(fn, c.args[1]) == "arg2" and cn(fn, a.args[0]) == "arg1.0" and cn(fn, a.args[1]) == "arg2", "mac-wire", "encrypt_mut", "both operate on buf", "encrypt_mut: MAC and cipher do not operate on the same buffer", where=fn.where(), key="mac-wire:encrypt_mut")
        fn = P.fn(T + "encrypt")
        c, a = _two_calls_order(ctx, fn, "mac-order", "encrypt", PR, ADD, "cipher writes output, then MAC over output", "encrypt must produce the ciphertext before authenticating it", "mac-order:encrypt")
        if c:
            ctx.check(cn(fn, c.args[0]) == "arg1.0.cipher" and cn(fn, c.args[1]) == "arg2" and cn(fn, c.args[2]) == "arg3" and cn(fn, a.args[1]) == "arg3" and cn(fn, a.args[0]) == "arg1.0", "mac-wire", "encrypt", "MAC input is the buffer the cipher wrote (output)", "encrypt: the MAC does not authenticate the ciphertext buffer the cipher wrote", where=fn.where(), key="mac-wire:encrypt")
    else:
        T = M + "ContextDecryption::<ROUNDS>::"
        fn = P.fn(T + "decrypt_mut")
        a, c = _two_calls_order(ctx, fn, "mac-order", "decrypt_mut", ADD, PM, "MAC over the ciphertext first, then decrypt in place", "decrypt_mut must authenticate the ciphertext before overwriting it", "mac-order:decrypt_mut")
        if c:
            ctx.check(cn(fn, c.args[0]) == "arg1.0.cipher" and cn(fn, c.args[1]) == "arg2" and cn(fn, a.args[0]) == "arg1.0" and cn(fn, a.args[1]) == "arg2", "mac-wire", "decrypt_mut", "both operate on buf", "decrypt_mut: MAC and cipher do not operate on the same buffer", where=fn.where(), key="mac-wire:decrypt_mut")
        fn = P.fn(T + "decrypt")
        a = fn.calls_to(ADD)
        c = fn.calls_to(PR)
        ok = len(a) == 1 and len(c) == 1 and rules.every_ret_path_passes(fn, [a[0].bb]) and rules.every_ret_path_passes(fn, [c[0].bb])
        ctx.check(ok, "mac-order", "decrypt", "one MAC absorb and one cipher call on every path", "decrypt must absorb the ciphertext and run the cipher exactly once each", where=fn.where(), key="mac-order:decrypt")
        if ok:
            ctx.check(cn(fn, c[0].args[0]) == "arg1.0.cipher" and cn(fn, c[0].args[1]) == "arg2" and cn(fn, c[0].args[2]) == "arg3" and cn(fn, a[0].args[1]) == "arg2" and cn(fn, a[0].args[0]) == "arg1.0", "mac-wire", "decrypt", "MAC input is the buffer the cipher reads (input = ciphertext)", "decrypt: the MAC does not authenticate the ciphertext (input) buffer", where=fn.where(), key="mac-wire:decrypt")
    # length equality guards on the two-buffer forms
    fn = P.fn((M + "ContextEncryption::<ROUNDS>::encrypt") if side == "enc" else (M + "ContextDecryption::<ROUNDS>::decrypt"))
    first = [c for c in fn.calls() if not c.name().startswith("core::")]
    if first:
        facts = pred.facts_at(fn, first[0].bb)
        want = pred.A("eq", 0, **{"len(arg2)": 1, "len(arg3)": -1})
        ctx.check(pred.implies(facts, want), "guard", fn.path + ":len-eq", "input.len() == output.len() checked first", "%s does not check input.len() == output.len()" % fn.path, where=fn.where(), key="guard:%s:len-eq" % fn.name)


def check_finalize_enc(ctx, P):
    fn = P.fn(M + "ContextEncryption::<ROUNDS>::finalize")
    cs = fn.calls_to(r"chacha20poly1305::finalize_raw$")
    ok = len(cs) == 1 and cn(fn, cs[0].args[0]) == "arg1.0"
    e = None
    for b in fn.ret_blocks():
        pass
    ctx.check(ok, "tag-source", "ContextEncryption::finalize", "tag = finalize_raw(self.0)", "encryption finalize does not return finalize_raw of its own context", where=fn.where())
    ctx.check(fn.raw["sig"].startswith("fn(chacha20poly1305::ContextEncryption<ROUNDS>)"), "typestate", "ContextEncryption::finalize", "finalize consumes the context", "finalize does not consume self", where=fn.where())


def check_oneshot(ctx, P, which):
    T = M + "ChaChaPoly1305::<ROUNDS>::"
    nf = P.fn(T + "new")
    seq = [r"chacha20poly1305::Context::<ROUNDS>::new$", r"chacha20poly1305::Context::<ROUNDS>::add_data$"]
    mn, _ = rules.call_sequence_min_progress(nf, seq)
    cs0 = nf.calls_to(seq[0])
    cs1 = nf.calls_to(seq[1])
    ok = mn == 2 and len(cs0) == 1 and len(cs1) == 1 and cn(nf, cs0[0].args[0]) == "arg1" and cn(nf, cs0[0].args[1]) == "arg2" and cn(nf, cs1[0].args[1]) == "arg3" and is_result_of(nf, nf.expr(cs1[0].args[0]), cs0[0])
    ctx.check(ok, "oneshot-new", "ChaChaPoly1305::new", "Context::new(key, nonce) then add_data(aad)", "one-shot constructor does not build Context(key, nonce) and absorb the AAD", where=nf.where(), key="oneshot-new")
    fn = P.fn(T + which)
    trans = "to_encryption" if which == "encrypt" else "to_decryption"
    op = (M + "ContextEncryption::<ROUNDS>::encrypt") if which == "encrypt" else (M + "ContextDecryption::<ROUNDS>::decrypt")
    fin = (M + "ContextEncryption::<ROUNDS>::finalize") if which == "encrypt" else (M + "ContextDecryption::<ROUNDS>::finalize")
    seq = [r"Context<ROUNDS> as core::clone::Clone>::clone$", re.escape(CTX + trans) + "$", re.escape(op) + "$", re.escape(fin) + "$"]
    mn, _ = rules.call_sequence_min_progress(fn, seq)
    ctx.check(mn == 4, "oneshot-order", which, "clone -> %s -> %s -> finalize" % (trans, which), "one-shot %s is not clone, %s, %s, finalize over the incremental API (progress %d/4)" % (which, trans, which, mn), where=fn.where(), key="oneshot-order:%s" % which)
    cl = fn.calls_to(seq[0])
    opc = fn.calls_to(seq[2])
    if len(cl) == 1:
        ctx.check(cn(fn, cl[0].args[0]) == "arg1.context", "oneshot-wire", which + ":clone", "works on a clone of self.context", "does not clone self.context", where=fn.where())
    if len(opc) == 1:
        ctx.check(cn(fn, opc[0].args[1]) == "arg2" and cn(fn, opc[0].args[2]) == "arg3", "oneshot-wire", which + ":buffers", "(input, output) passed through", "input/output are not passed through to the incremental %s" % which, where=fn.where(), key="oneshot-wire:%s:buffers" % which)


def check_cteq_array(ctx, P, path="<&[u8; N] as constant_time::CtEqual>::ct_eq"):
    """OR-fold over every byte pair, result = zero-test of the accumulator."""
    fn = P.fn(path)
    loops = rules.iter_loops(fn)
    ok_loop = False
    why = "no iterator loop"
    for lp in loops:
        chain = [c.split("::")[-1] for c in lp["chain"]]
        bad = [c for c in chain if c not in ("iter", "zip", "into_iter")]
        srcs = sorted(s[1] for s in lp["sources"] if s[0] == "iter")
        if bad:
            why = "iterator adaptors other than iter/zip: %s" % bad
            continue
        if srcs != ["arg1", "arg2"]:
            why = "loop does not walk both operands in full: sources %s" % srcs
            continue
        if lp["early_exits"]:
            why = "loop body has an early exit"
            continue
        ok_loop = True
    ctx.check(ok_loop, "cmp-coverage", path, "one loop over zip(a.iter(), b.iter()) with no early exit", "comparison does not visit every byte pair: %s" % why, where=fn.where(), key="cmp-coverage:%s" % path)
    # accumulator: value passed to ct_zero
    zs = [c for c in fn.calls() if c.name().endswith("CtZero>::ct_zero")]
    if len(zs) != 1:
        ctx.fail("cmp-acc", path, "expected the result to be ct_zero(acc)", where=fn.where())
        return
    acc_e = fn.expr(zs[0].args[0])
    acc_e = mir.strip_casts(acc_e)
    if acc_e[0] != "var":
        ctx.fail("cmp-acc", path, "the zero-tested value is not an accumulator variable: %s" % fmt(acc_e), where=fn.where(), key="cmp-acc:%s" % path)
        return
    acc = acc_e[1]
    defs = rules.var_defs(fn, acc)
    ok = True
    steps = 0
    for b, e in defs:
        if e[0] == "const" and e[1] == 0:
            continue
        # acc | (x ^ y)
        if e[0] == "bin" and e[1] == "BitOr" and (("var", acc) in (e[2], e[3])):
            other = e[3] if e[2] == ("var", acc) else e[2]
            other = mir.strip_casts(other)
            if other[0] == "call" and other[1].endswith("BitXor<&u64>>::bitxor") or (other[0] == "call" and re.search(r"as core::ops::BitXor(<.*>)?>::bitxor$", other[1])):
                steps += 1
                continue
            if other[0] == "bin" and other[1] == "BitXor":
                leaves = {pred.canon(x, fn) for x in (other[2], other[3])}
                steps += 1
                continue
        ok = False
        bad = e
    ctx.check(ok and steps >= 1, "cmp-acc", path, "acc := acc | (x ^ y) only; result = ct_zero(acc)", "the accumulator is not an OR-fold of byte differences (a cancelling or overwriting update lets unequal inputs compare equal): %s" % (fmt(bad) if not ok else "no fold step"), where=fn.where(), key="cmp-acc:%s" % path)
    # the returned Choice is exactly that ct_zero result
    rets = fn.ret_blocks()
    ctx.check(zs[0].dest == [0, []], "cmp-ret", path, "returns ct_zero(acc)", "ct_eq does not return the zero-test of the accumulator", where=fn.where())


def check_tag_eq(ctx, P):
    fn = P.fn("<chacha20poly1305::Tag as core::cmp::PartialEq>::eq")
    cs = [c for c in fn.calls() if c.name() == "<&chacha20poly1305::Tag as constant_time::CtEqual>::ct_eq"]
    it = [c for c in fn.calls() if c.name() == "constant_time::Choice::is_true"]
    ok = len(cs) == 1 and len(it) == 1 and {cn(fn, cs[0].args[0]), cn(fn, cs[0].args[1])} == {"arg1", "arg2"} and it[0].dest == [0, []] and local_of(fn.expr(it[0].args[0])) in (cs[0].dest[0],) or (len(cs) == 1 and len(it) == 1 and fn.expr(it[0].args[0]) == ("call", cs[0].name(), tuple(fn.expr(a) for a in cs[0].args), (cs[0].bb,)) and it[0].dest == [0, []])
    imp = [i for i in P.impls if i.get("trait") == "core::cmp::PartialEq" and i["self_ty"] == "chacha20poly1305::Tag"]
    ctx.check(ok and len(imp) == 1 and not imp[0]["derived"], "tag-eq", "Tag::eq", "Tag == Tag is ct_eq(self, other).is_true() (hand-written, constant time)", "Tag equality does not route through ct_eq(...).is_true()", where=fn.where(), key="tag-eq")
    f2 = P.fn("<&chacha20poly1305::Tag as constant_time::CtEqual>::ct_eq")
    cs = [c for c in f2.calls() if c.name() == "<&[u8; N] as constant_time::CtEqual>::ct_eq"]
    ok = len(cs) == 1 and {cn(f2, cs[0].args[0]), cn(f2, cs[0].args[1])} == {"arg1.0", "arg2.0"} and cs[0].dest == [0, []] and any("16" in g for g in cs[0].res_ga)
    ctx.check(ok, "tag-eq", "&Tag::ct_eq", "compares the two 16-byte arrays with the array ct_eq", "Tag ct_eq does not compare both full 16-byte arrays with <&[u8;16]>::ct_eq", where=f2.where(), key="tag-eq:ct_eq")
    adt = P.adts.get("chacha20poly1305::Tag")
    ctx.check(adt is not None and adt["variants"][0]["fields"][0]["t"] == "[u8; 16]", "tag-eq", "Tag type", "Tag wraps [u8; 16]", "Tag is not [u8; 16]", where=adt["span"] if adt else None)
    it = P.fn("constant_time::Choice::is_true")
    e = None
    for b in it.ret_blocks():
        pass
    ok = any(s[0] == "=" and s[1] == [0, []] and s[2][0] == "bin" and s[2][1] == "Eq" and const_val(s[2][3]) == 1 for b in it.reachable() for s in it.stmts(b))
    ctx.check(ok, "tag-eq", "Choice::is_true", "is_true is (self.0 == 1)", "Choice::is_true is not `self.0 == 1`", where=it.where())


def check_verdict(ctx, P):
    fn = P.fn(M + "ContextDecryption::<ROUNDS>::finalize")
    fr = fn.calls_to(r"chacha20poly1305::finalize_raw$")
    eqs = [c for c in fn.calls() if c.name().endswith("::eq") and any("chacha20poly1305::Tag" in g for g in c.res_ga + c.ga)]
    if len(fr) != 1 or len(eqs) != 1:
        ctx.fail("verdict", "ContextDecryption::finalize", "expected one finalize_raw and one Tag equality, found %d / %d" % (len(fr), len(eqs)), where=fn.where(), key="verdict:finalize")
        return
    eq = eqs[0]
    a0 = fn.expr(eq.args[0])
    a1 = fn.expr(eq.args[1])
    def from_raw(e):
        for s in walk(e):
            if s[0] == "var":
                for b, d in rules.var_defs(fn, s[1]):
                    if any(x[0] == "call" and x[1].endswith("finalize_raw") for x in walk(d)):
                        return True
            if s[0] == "call" and s[1].endswith("finalize_raw"):
                return True
        return False
    sides = {"raw": None, "exp": None}
    for e in (a0, a1):
        if from_raw(e):
            sides["raw"] = e
        elif pred.canon(e, fn) == "arg2":
            sides["exp"] = e
    ctx.check(sides["raw"] is not None and sides["exp"] is not None, "verdict-operands", "finalize", "compares Tag(finalize_raw(self)) with the caller's tag", "the verdict does not compare the freshly computed tag with the caller's tag", where=fn.where(eq.line), key="verdict-operands:finalize")
    ctx.check(cn(fn, fr[0].args[0]) == "arg1.0", "verdict-operands", "finalize:raw-source", "finalize_raw runs on this context", "finalize_raw is applied to a different context", where=fn.where())
    # every block that produces Match is guarded by eq == true; every MisMatch by eq == false
    eq_expr = ("call", eq.name(), tuple(fn.expr(a) for a in eq.args), (eq.bb,))
    nmatch = 0
    ok = True
    for b in sorted(fn.reachable()):
        for s in fn.stmts(b):
            if s[0] == "=" and s[1] == [0, []]:
                rv = s[2]
                if rv[0] == "agg" and rv[1][0] == "adt" and rv[1][1] == M + "DecryptionResult":
                    variant = rv[1][3]
                    facts = [(e, v) for e, v, o in fn.edge_facts(b)]
                    want = (eq_expr, variant == "Match")
                    if want not in facts:
                        ok = False
                    if variant == "Match":
                        nmatch += 1
                else:
                    ok = False
    ctx.check(ok and nmatch == 1, "verdict", "ContextDecryption::finalize", "Match is returned exactly under (computed tag == expected tag), MisMatch otherwise", "ContextDecryption::finalize can return Match without (or despite) the tag comparison", where=fn.where(), key="verdict:finalize")
    ctx.check(fn.raw["sig"].startswith("for<'a> fn(chacha20poly1305::ContextDecryption<ROUNDS>, &'a chacha20poly1305::Tag)"), "typestate", "ContextDecryption::finalize", "consumes the context; expected tag is a &Tag ([u8;16])", "finalize signature changed: %s" % fn.raw["sig"], where=fn.where())


def check_oneshot_verdict(ctx, P):
    fn = P.fn(M + "ChaChaPoly1305::<ROUNDS>::decrypt")
    fin = fn.calls_to(r"ContextDecryption::<ROUNDS>::finalize$")
    if len(fin) != 1:
        ctx.fail("verdict", "ChaChaPoly1305::decrypt", "expected exactly one ContextDecryption::finalize call", where=fn.where(), key="verdict:oneshot")
        return
    # returned bool
    ret_e = fn.local_expr(0)
    ok = False
    if ret_e[0] == "call" and ret_e[1].endswith("DecryptionResult as core::cmp::PartialEq>::eq"):
        a, b = ret_e[2]
        def is_fin(e):
            return any(x[0] == "call" and x[1].endswith("ContextDecryption::<ROUNDS>::finalize") for x in walk(e))
        def is_match_const(e):
            for x in walk(e):
                if x[0] == "kconst" and "DecryptionResult" in (x[2] or ""):
                    v = x[3]
                    # enum with two fieldless variants: raw bytes, Match = discriminant 0
                    return v == (("hex", "00"), ("k", "bytes"))
                if x[0] == "agg" and x[1][0] == "adt" and x[1][1] == M + "DecryptionResult":
                    return x[1][3] == "Match"
            return False
        ok = (is_fin(a) and is_match_const(b)) or (is_fin(b) and is_match_const(a))
        imp = [i for i in P.impls if i.get("trait") == "core::cmp::PartialEq" and i["self_ty"] == M + "DecryptionResult"]
        ok = ok and len(imp) == 1 and imp[0]["derived"]
    ctx.check(ok, "verdict", "ChaChaPoly1305::decrypt", "returns (finalize(tag) == DecryptionResult::Match)", "one-shot decrypt does not return exactly `finalize(..) == Match`: %s" % fmt(ret_e), where=fn.where(), key="verdict:oneshot")
    # expected tag wiring: Tag(tag_data), tag_data.copy_from_slice(tag) under tag.len()==16
    cp = [c for c in fn.calls() if c.name().endswith("copy_from_slice")]
    okw = False
    if len(cp) == 1:
        dst = local_of(fn.expr(cp[0].args[0]))
        src = cn(fn, cp[0].args[1])
        targ = fn.expr(fin[0].args[1])
        uses_dst = any(x == ("var", dst) for x in walk(targ)) or any(x[0] == "var" and any(y == ("var", dst) for b, d in rules.var_defs(fn, x[1]) for y in walk(d)) for x in walk(targ))
        okw = src == "arg4" and dst is not None and uses_dst and fn.dominates(cp[0].bb, fin[0].bb)
        facts = pred.facts_at(fn, cp[0].bb)
        ctx.check(pred.implies(facts, pred.A("eq", 16, **{"len(arg4)": 1})), "guard", "ChaChaPoly1305::decrypt:tag.len()==16", "tag.len() == 16 holds before the copy", "one-shot decrypt does not require tag.len() == 16 before using it", where=fn.where(cp[0].line), key="guard:oneshot:taglen")
    ctx.check(okw, "verdict-operands", "ChaChaPoly1305::decrypt", "expected tag = Tag(copy of the caller's 16 tag bytes)", "the expected tag handed to finalize is not the caller's tag", where=fn.where(), key="verdict-operands:oneshot")
    dfn = P.fn("<chacha20poly1305::DecryptionResult as core::cmp::PartialEq>::eq")
