"""C06 — ChaCha20-Poly1305 equals RFC 8439; decrypt inverts encrypt, one-shot or streamed.

Decided (structural clauses of the RFC 8439 construction, every path, all inputs):
  one-time key = first 32 bytes of the keystream of a full 64-byte zero block from a fresh
  cipher built from (key, nonce) (so data starts at block 1); add_data / add_encrypted feed their
  argument to the MAC once and add its length to aad_len / data_len; to_encryption/to_decryption
  run pad16(mac, aad_len) exactly once and consume the Context; pad16 pads iff len % 16 != 0 with
  16 - len % 16 zero bytes; finalize_raw = pad16(data_len), LE64(aad_len) || LE64(data_len) at
  bytes 0..8 / 8..16, mac.input(that block), raw_result; the MAC always sees ciphertext
  (encrypt: cipher then MAC over the written buffer; decrypt: MAC over the read buffer, before an
  in-place decryption); one-shot encrypt/decrypt are clone -> transition -> op -> finalize over
  the incremental API.
  shared     every Poly1305 rule of C05 (clamp, radix weights, message limbs, select, limb bounds, digit reduction) and the
  ChaCha engine's block function as value graphs (C03) are re-evaluated here: the tag is a Poly1305 tag over that keystream.
  shape-eval the AEAD construction with cipher and MAC UNINTERPRETED (keystream object: fresh symbols by position; MAC object:
             transcript -> fresh symbols): one-shot new + encrypt delivers ct = pt ^ KS[64..] and
             tag = T(KS[0..32], aad || pad || ct || pad || LE64 lengths) for 528 (AAD, message) length shapes (aeadshape.py)
Not decided: composition of the verified cipher pieces into the keystream, the tag as a number."""
from . import aead, C03, C04

EXPLANATION = __doc__
TECHNIQUE = "value-graph equality (abstract interpretation of MIR in a hash-consed bit-level term domain with linear-combination, parity and truth-table normal forms) against specification graphs; interval abstract interpretation over ssa terms with exact carry/remainder relations and trace partitioning on carries (inductive limb-bound invariants, overflow-assert discharge); MIR call-order dominance, argument wiring by canonical expression, linear-form predicates and slice windows; object-level bounded shape evaluation of the AEAD with uninterpreted keystream and MAC objects against RFC 8439 2.8"


def run(ctx):
    P = ctx.prog("K0")
    # the construction itself, with cipher and MAC as uninterpreted objects (independent of how the code is organised)
    from . import aeadshape
    ctx.guard("shape-eval", "ChaChaPoly1305::encrypt", lambda: aeadshape.check_encrypt(ctx, P))
    ctx.guard("otk", "Context::new", lambda: aead.check_context_new(ctx, P))
    ctx.guard("count", "add_data", lambda: aead.check_counter(ctx, P, "add_data", "aad_len"))
    ctx.guard("count", "add_encrypted", lambda: aead.check_counter(ctx, P, "add_encrypted", "data_len"))
    ctx.guard("aad-pad", "to_encryption", lambda: aead.check_transition(ctx, P, "to_encryption", "ContextEncryption"))
    ctx.guard("aad-pad", "to_decryption", lambda: aead.check_transition(ctx, P, "to_decryption", "ContextDecryption"))
    ctx.guard("pad16", "pad16", lambda: aead.check_pad16(ctx, P))
    ctx.guard("trailer", "finalize_raw", lambda: aead.check_finalize_raw(ctx, P))
    ctx.guard("mac-order", "enc", lambda: aead.check_mac_sees_ciphertext(ctx, P, "enc"))
    ctx.guard("mac-order", "dec", lambda: aead.check_mac_sees_ciphertext(ctx, P, "dec"))
    ctx.guard("tag-source", "enc-finalize", lambda: aead.check_finalize_enc(ctx, P))
    ctx.guard("oneshot", "encrypt", lambda: aead.check_oneshot(ctx, P, "encrypt"))
    ctx.guard("oneshot", "decrypt", lambda: aead.check_oneshot(ctx, P, "decrypt"))
    # the AEAD's own cipher instance: chunk-independence of ChaCha::process_mut and the engine constants / key rows for
    # both key lengths are part of "any split gives the same ciphertext" and "key lengths {16,32}"
    from . import streamshape
    ctx.guard("shape-eval", "chacha20::ChaCha::process_mut", lambda: streamshape.check_process_mut(ctx, P, ["chacha20::ChaCha"]))
    ctx.guard("lockstep", "chacha20::ChaCha", lambda: C04.check_process_mut(ctx, P, "chacha20::ChaCha"))
    ctx.guard("update-order", "chacha20::ChaCha", lambda: C04.check_update(ctx, P, "chacha20::ChaCha", "increment$"))
    ctx.guard("process-order", "chacha20::ChaCha", lambda: C04.check_process(ctx, P, "chacha20::ChaCha"))
    C03.check_tables(ctx, P, "sse2")
    ctx.guard("keydep", "sse2", lambda: C03.check_sse2_layout(ctx, P))
    # the tag is a Poly1305 tag over a ChaCha keystream: the MAC's structural / bounds rules and the cipher engine's
    # block function (value graphs) are shared rule instances with C05 and C03
    from . import C05 as _C05, arx as _arx
    _C05.check_all(ctx, P)
    _got = []
    ctx.guard("block-eq", "chacha-sse2", lambda: _got.append(_arx.check_engines(ctx, {"K0": P}, families=("chacha",))))
    ctx.check(_got == [16], "floor", "block-eq", "16 pieces of the ChaCha engine of the default build compared with the specification", "only %s ChaCha engine pieces compared" % _got, key="floor:block-eq")
    ctx.not_decided += ["the composition of the verified ChaCha pieces into the keystream (C03), the Poly1305 tag as a number (C05)", "cipher.offset == 64 after the block-0 request as an interval fact (tier 2; the 64-byte request length is decided)"]
