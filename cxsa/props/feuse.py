"""fe-use: how the 32-bit field backend's operations are COMPOSED by the rest of the crate (ge.rs, the X25519 ladder,
ed25519 conversions): a type-state / level dataflow over the MIR of every function of the force-32bits build.

fe32 (ref10's representation) carries limbs lazily: Add / Sub / Neg do not carry, the multiplying operations (Mul, square,
square_and_double, mul_small, square_repeatdly) and the consumers (to_bytes, is_negative, is_nonzero, ==) need operands whose
limbs are at most  K x TIGHT  (fe-bounds decides K = 3: TIGHT is closed under every multiplying operation applied to
operands built from up to three TIGHT values without a carry; with four, `19 * g_i` leaves i32).  So the property "no
operation of the crate overflows / wraps in the 32-bit backend" needs, at EVERY call site of a field operation anywhere in
the crate, the operand's LEVEL (how many TIGHT values were added / subtracted into it since the last carry) to be <= K.

Level dataflow (flow-insensitive within a function, context-insensitive across functions, type-based for aggregates):
  constants, from_bytes, multiplying operations  -> 1          Add / Sub -> level(a) + level(b)      Neg, clone -> same
  maybe_swap_with / maybe_set / mem::swap        -> join       struct field  <- join of everything ever stored in
  a field of that type (Ge.x, GeCached.y_plus_x, GeP1P1.t, ...), parameters <- join over call sites, returns <- join.
A monotone fixpoint (levels capped) over all functions; then every call site of a field operation is an obligation.
Also decided: no function outside the fe32 module reads or writes the limbs of an Fe directly (who-may-access), which is
what makes the operation contracts the only way limbs change."""
import re

FE = "curve25519::fe::fe32::Fe"
CAP = 12
_FE = re.escape(FE)
RX_MUL = re.compile(r"^<&?%s as core::ops::Mul(<&?%s>)?>::mul$|^%s::(square|square_and_double|mul_small|square_repeatdly)$" % (_FE, _FE, _FE))
RX_ADD = re.compile(r"^<&?%s as core::ops::(Add|Sub)(<&?%s>)?>::(add|sub)$" % (_FE, _FE))
RX_NEG = re.compile(r"^<&?%s as core::ops::Neg>::neg$|^%s::negate_mut$" % (_FE, _FE))
RX_CONS = re.compile(r"^%s::(to_bytes|is_nonzero|is_negative)$|^<%s as core::cmp::PartialEq>::(eq|ne)$" % (_FE, _FE))
RX_SRC = re.compile(r"^%s::from_bytes$" % _FE)
RX_JOIN = re.compile(r"^%s::(maybe_swap_with|maybe_set)$" % _FE)
RX_SAME = re.compile(r"^<%s as core::clone::Clone>::clone$" % _FE)


def strip_ref(t):
    t = t.strip()
    while True:
        m = re.match(r"^(&|\*const |\*mut )\s*('\w+\s+)?(mut\s+)?", t)
        if not m or not m.group(0):
            return t
        t = t[m.end():].strip()


def strip1(t):
    t = t.strip()
    m = re.match(r"^(&|\*const |\*mut )\s*('\w+\s+)?(mut\s+)?", t)
    return t[m.end():].strip() if m and m.group(0) else t


def elem_of(t):
    t = t.strip()
    if t.startswith("["):
        depth = 0
        for i, ch in enumerate(t):
            if ch in "[(<":
                depth += 1
            elif ch in "])>":
                depth -= 1
            elif ch == ";" and depth == 1:
                return t[1:i].strip()
        return t[1:-1].strip()
    return None


def feish(t):
    """Fe, a reference to it, or an array / slice of it (possibly behind references)"""
    if t is None:
        return False
    t = strip_ref(t)
    while True:
        e = elem_of(t)
        if e is None:
            break
        t = strip_ref(e)
    return t == FE


class FeUse:
    def __init__(self, P):
        self.P = P
        self.LV = {}
        self.FL = {}
        self.refs = {}
        self.changed = False
        self.private = []
        self.sites = {}
        self.env = None
        self.strong = True

    # ---- types
    def field_type(self, cont, idx, variant=0):
        base = cont.split("<")[0]
        adt = self.P.adts.get(cont) or self.P.adts.get(base)
        if adt is not None:
            vs = adt["variants"]
            v = vs[variant] if variant < len(vs) else vs[0]
            if idx < len(v["fields"]):
                return v["fields"][idx]["t"]
            return None
        if cont.startswith("("):
            parts, depth, cur = [], 0, ""
            for ch in cont[1:-1]:
                if ch in "[(<":
                    depth += 1
                elif ch in "])>":
                    depth -= 1
                if ch == "," and depth == 0:
                    parts.append(cur.strip()); cur = ""
                else:
                    cur += ch
            if cur.strip():
                parts.append(cur.strip())
            return parts[idx] if idx < len(parts) else None
        return None

    def walk(self, fn, place):
        """(final type or None, container key or None) of a place"""
        local, projs = place[0], place[1]
        t = fn.locals[local]
        cont = None
        variant = 0
        for p in projs:
            if t is None:
                break
            if p == "*":
                t = strip1(t)
            elif p[0] == "f":
                c = strip_ref(t)
                if c == FE:
                    if "curve25519::fe::fe32" not in fn.path:
                        self.private.append((fn, place))
                    return None, None
                cont = (c, p[1] if variant == 0 else (variant, p[1]))
                t = self.field_type(c, p[1], variant)
                variant = 0
            elif p[0] in ("i", "c"):
                t = elem_of(strip_ref(t)) if elem_of(strip_ref(t)) is not None else None
            elif p[0] == "s":
                pass
            elif p[0] == "d":
                variant = p[1] if isinstance(p[1], int) else 0
            else:
                t = None
        return t, cont

    # ---- levels
    def get(self, fn, place):
        t, cont = self.walk(fn, place)
        if not feish(t):
            return None
        if cont is not None:
            return self.FL.get(cont, 1)
        if self.env is not None and not (1 <= place[0] <= fn.argc and False):
            return self.env.get(place[0], self.LV.get((fn.id, place[0]), 1) if place[0] <= fn.argc else 1)
        return self.LV.get((fn.id, place[0]), 1)

    def raise_(self, fn, place, lvl, seen=None):
        if lvl is None:
            return
        lvl = min(lvl, CAP)
        t, cont = self.walk(fn, place)
        if not feish(t):
            return
        if cont is not None:
            if self.FL.get(cont, 1) < lvl:
                self.FL[cont] = lvl
                self.changed = True
            return
        k = (fn.id, place[0])
        if self.env is not None:
            # flow-sensitive within the function: a whole-place assignment to a local is a strong update
            if not place[1] and self.strong:
                self.env[place[0]] = lvl
            else:
                self.env[place[0]] = max(self.env.get(place[0], 1), lvl)
            if place[0] == 0 or place[0] <= fn.argc:
                if self.LV.get(k, 1) < self.env[place[0]]:
                    self.LV[k] = self.env[place[0]]
                    self.changed = True
        elif self.LV.get(k, 1) < lvl:
            self.LV[k] = lvl
            self.changed = True
        if place[1] and place[1][0] == "*":
            seen = seen or set()
            for tgt in self.refs.get(k, ()):
                if tgt not in seen:
                    seen.add(tgt)
                    st, self.strong = self.strong, False
                    self.raise_(fn, [tgt[0], list(tgt[1])], lvl, seen)
                    self.strong = st

    def operand(self, fn, op):
        if op[0] == "k":
            t = op[1].get("t")
            return 1 if feish(t) else None
        if op[0] in ("cp", "mv"):
            return self.get(fn, op[1])
        return None

    def raise_operand_target(self, fn, op, lvl):
        """a &mut operand handed to a call: what it points to may now hold lvl"""
        if op[0] in ("cp", "mv"):
            pl = op[1]
            t = fn.locals[pl[0]]
            if not pl[1] and re.match(r"^(&\s*('\w+\s+)?mut\s|\*mut\s)", t.strip()) and feish(t):
                self.raise_(fn, [pl[0], ["*"]], lvl)

    # ---- transfer
    def step(self, fn):
        """forward dataflow over the CFG: env = level of each Fe-ish local at block entry (join = max)"""
        succ = fn.cfg()[0]
        entry = {}
        for a in range(1, fn.argc + 1):
            entry[a] = self.LV.get((fn.id, a), 1)
        ins = {0: entry}
        work = [0]
        rounds = 0
        while work and rounds < 4000:
            rounds += 1
            b = work.pop(0)
            self.env = dict(ins[b])
            self.block(fn, b)
            out = self.env
            for nb in succ.get(b, ()) if isinstance(succ, dict) else succ[b]:
                cur = ins.get(nb)
                if cur is None:
                    ins[nb] = dict(out)
                    work.append(nb)
                else:
                    ch = False
                    for k, v in out.items():
                        if cur.get(k, 0) < v:
                            cur[k] = v
                            ch = True
                    if ch and nb not in work:
                        work.append(nb)
        self.env = None

    def block(self, fn, b):
        P = self.P
        if True:
            for s in fn.stmts(b):
                if s[0] != "=":
                    continue
                pl, rv = s[1], s[2]
                k = rv[0]
                if k in ("use", "cfd"):
                    lvl = self.operand(fn, rv[1]) if k == "use" else self.get(fn, rv[1])
                    self.raise_(fn, pl, lvl)
                    if k == "use" and rv[1][0] in ("cp", "mv") and not pl[1]:
                        src = (fn.id, rv[1][1][0])
                        if not rv[1][1][1] and src in self.refs:
                            self.refs.setdefault((fn.id, pl[0]), set()).update(self.refs[src])
                elif k in ("ref", "raw"):
                    src = rv[2]
                    lvl = self.get(fn, src)
                    self.raise_(fn, pl, lvl)
                    if not pl[1] and lvl is not None:
                        tg = self.refs.setdefault((fn.id, pl[0]), set())
                        if src[1] and src[1][0] == "*" and len(src[1]) == 1:
                            tg.update(self.refs.get((fn.id, src[0]), ()))
                            tg.add((src[0], ("*",)))
                        else:
                            tg.add((src[0], tuple(tuple(x) if isinstance(x, list) else x for x in src[1])))
                elif k == "cast":
                    self.raise_(fn, pl, self.operand(fn, rv[2]))
                elif k == "rep":
                    self.raise_(fn, pl, self.operand(fn, rv[1]))
                elif k == "agg":
                    kind = rv[1]
                    if kind and kind[0] == "adt":
                        cont = kind[1]
                        variant = kind[2] if len(kind) > 2 and isinstance(kind[2], int) else 0
                        for i, o in enumerate(rv[2]):
                            lvl = self.operand(fn, o)
                            if lvl is not None and cont != FE:
                                key = (cont, i if variant == 0 else (variant, i))
                                if self.FL.get(key, 1) < lvl:
                                    self.FL[key] = min(lvl, CAP)
                                    self.changed = True
                    elif kind and kind[0] == "tuple":
                        t = fn.locals[pl[0]] if not pl[1] else None
                        for i, o in enumerate(rv[2]):
                            lvl = self.operand(fn, o)
                            if lvl is not None and t is not None:
                                key = (strip_ref(t), i)
                                if self.FL.get(key, 1) < lvl:
                                    self.FL[key] = min(lvl, CAP)
                                    self.changed = True
                    else:
                        lv = [self.operand(fn, o) for o in rv[2]]
                        lv = [x for x in lv if x is not None]
                        if lv:
                            self.raise_(fn, pl, max(lv))
            t = fn.term(b)
            if t[0] != "call":
                return
            from ..mir import Call
            c = Call(fn, b, t)
            nm = c.name()
            al = [self.operand(fn, a) for a in c.args]
            fe_args = [x for x in al if x is not None]
            res = None
            if RX_MUL.search(nm) or RX_CONS.search(nm) or RX_ADD.search(nm) or RX_NEG.search(nm):
                self.sites[(fn.id, b)] = (fn, c, nm, list(al))
            if RX_MUL.search(nm) or RX_SRC.search(nm):
                res = 1
            elif RX_ADD.search(nm):
                res = min(CAP, sum(fe_args)) if len(fe_args) == 2 else CAP
            elif RX_NEG.search(nm) or RX_SAME.search(nm):
                res = max(fe_args) if fe_args else 1
            elif RX_CONS.search(nm):
                res = None
            elif RX_JOIN.search(nm):
                j = max(fe_args) if fe_args else 1
                for a, x in zip(c.args, al):
                    if x is not None:
                        self.raise_operand_target(fn, a, j)
                res = None
            else:
                callee = P.fns.get(c.res_id) if c.res_id is not None else None
                if callee is not None and callee.blocks:
                    for i, (a, x) in enumerate(zip(c.args, al)):
                        if x is not None and i + 1 <= callee.argc:
                            kk = (callee.id, i + 1)
                            if self.LV.get(kk, 1) < x:
                                self.LV[kk] = x
                                self.changed = True
                            self.raise_operand_target(fn, a, self.LV.get(kk, 1))
                    res = self.LV.get((callee.id, 0), 1)
                else:
                    j = max(fe_args) if fe_args else None
                    if j is not None:
                        for a, x in zip(c.args, al):
                            if x is not None:
                                self.raise_operand_target(fn, a, j)
                    res = j if j is not None else 1
            if res is not None:
                self.raise_(fn, c.dest, res)

    def run(self, maxit=60):
        fns = [f for f in self.P.fns.values() if f.blocks]
        for it in range(maxit):
            self.changed = False
            self.private = []
            for f in fns:
                self.step(f)
            if not self.changed:
                return it + 1
        return None


def check(ctx, P, kmax=3, rule="fe-use", floor_sites=100):
    A = FeUse(P)
    rounds = A.run()
    if rounds is None:
        ctx.fail(rule, "fixpoint", "the level dataflow did not reach a fixpoint", key="%s:fixpoint" % rule)
        return
    # who-may-access
    outside = sorted({f.path for f, pl in A.private})
    ctx.check(not outside, "fe-private", "fe32::Fe limbs", "no function outside curve25519::fe::fe32 touches the limbs of an Fe", "functions outside the fe32 module read or write Fe limbs directly (the operation contracts no longer bound them): %s" % outside[:4], key="fe-private:fe32")
    nsite = 0
    ords = {}
    worst = 0
    for (fid, b), (fn, c, nm, al) in sorted(A.sites.items(), key=lambda kv: (kv[1][0].path, kv[1][1].line or 0, kv[0][1])):
        short = nm.split("::")[-1] if not nm.startswith("<") else re.sub(r".*::(\w+)>::(\w+)$", r"\2", nm)
        o = ords[(fn.path, short)] = ords.get((fn.path, short), 0) + 1
        lv = [x for x in al if x is not None]
        if not lv:
            continue
        nsite += 1
        worst = max(worst, max(lv))
        ok = max(lv) <= kmax
        inst = "%s:%s#%d" % (fn.path, short, o)
        if not ok:
            ctx.fail(rule, inst, "%s calls Fe::%s (fe32) with an operand built from %s TIGHT values without a carry (levels %s); the operation is only proved for <= %d (ref10: |limb| <= 1.65*2^26): it can overflow / wrap in the 32-bit backend" % (fn.path, short, "at least %d" % CAP if max(lv) >= CAP else max(lv), lv, kmax), where=fn.where(c.line), key="%s:%s" % (rule, inst))
    ctx.check(nsite >= floor_sites, "floor", rule, "%d field-operation call sites of the 32-bit build analysed (worst operand level %d <= %d, fixpoint after %d rounds)" % (nsite, worst, kmax, rounds), "only %d field-operation call sites found" % nsite, key="floor:%s" % rule)
    if worst <= kmax:
        ctx.ok(rule, "all call sites", "every operand of every fe32 operation in the crate is built from at most %d TIGHT values (struct field levels: %s)" % (worst, ", ".join("%s.%s=%d" % (k[0].split("::")[-1], k[1], v) for k, v in sorted(A.FL.items(), key=str) if v > 1)))
    return A
