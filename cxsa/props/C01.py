"""C01 — every digest equals its standard function on every message.

Decided (the part of each algorithm that is data, wiring or encoding, for every message length):
  table      every constant the standards fix, compared with values DERIVED from the definitions:
             SHA-2 IVs / K (fractional parts of square / cube roots of primes), SHA-512/t IVs (FIPS
             5.3.6 procedure), SHA-1 IV / K, RIPEMD-160 IV and its ten round constants, Keccak round
             constants (LFSR), rho offsets and pi lanes, BLAKE2 IVs, sigma, rotation amounts, rounds
  variant    per public variant: OUTPUT_BITS, BLOCK_BYTES, the IV handed to the engine (by value),
             the output encoder and its length, the sponge parameters (digest length, domain bits)
             and rate = 200 - 2*digest; every one-shot function is T::new().update(x).finalize()
  padding    FixedBuffer::standard_padding: 0x80 marker, extra block iff N - idx < rem, zero fill to
             N - rem; the length field is 8*processed_bytes, 64/128-bit big-endian (RIPEMD: two LE
             32-bit halves) and fills the block exactly; sponge pad: first byte 0x06 / 0x01 (SHA-3 /
             Keccak) from set_domain_sep + set_pad, last byte |= 0x80 (so a one-byte pad is 0x86/0x81)
  blake2     parameter word h[0] = IV[0] ^ 0x01010000 ^ (keylen << 8) ^ outlen in new and reset, other
             words = IV, counters zero; final block flagged last with the byte count of the buffer;
             keyed start = zero block with the key (shared rules with C02/C09)
  rotations  sigma/ch/maj helper rotation amounts of SHA-256 / SHA-512, BLAKE2 G rotations = R1..R4
  compress-eq  SHA-256: impl256::reference (1, 2 blocks), the 4-way SSE4.1 path (4 blocks, 4+1 with the scalar tail) and the
             8-way AVX path (8 blocks; thorough: 8+4+1) equal the FIPS 180-4 compression function iterated over the run, as
             value graphs over symbolic state and message bytes (message schedule, Sigma/sigma, Ch, Maj, K, feed-forward);
             BLAKE2b/s AVX and AVX2 compressions equal RFC 7693 F (lane-eq)
  absorb / block-run  which block is compressed when, and that BLAKE2's final flag goes to the last block only (shared with C02)
             SHA-512 (impl512::reference), SHA-1 and RIPEMD-160 block functions over 1 and 2 blocks equal FIPS 180-4 / the
             RIPEMD-160 specification as value graphs
  shape-eval block-run drivers (SHA-1, RIPEMD-160, SHA-256 portable / SSE4.1 / AVX, SHA-512) with opaque compression leaves:
             every block of a run of 0..2 widest batches + tails (and around every length constant the code names) is
             compressed exactly once, in order, chained through the state; sponge absorb loop for every offset
Not decided: Keccak-f[1600] as a function."""
import re

from .. import mir, pred, rules, ssa, termbits
from ..mir import fmt, walk, const_val
from ..spec import hashes as H
from . import hashctx

EXPLANATION = __doc__
TECHNIQUE = "value-graph equality (abstract interpretation of MIR in a hash-consed bit-level term domain with linear-combination, parity and truth-table normal forms) against specification graphs; evaluated constants vs. definition-derived oracle, wiring by canonical expression, linear-form predicate of the padding branch, term-domain dataflow with loop unrolling and bit provenance for pad / parameter bytes; bounded shape evaluation (concrete offsets / lengths derived from the code's own length constants, symbolic contents, opaque recorded leaf calls) of the buffering loops"


def cn(fn, op):
    return pred.canon(fn.expr(op), fn)


def tbl(ctx, P, path, want, what):
    try:
        v = P.const(path)
    except mir.AnchorLost as e:
        ctx.lost("table", path, str(e))
        return
    if isinstance(v, dict) and "0" in v and len(v) == 1:
        v = v["0"]
    ctx.check(v == want or (isinstance(v, list) and list(v) == list(want)), "table", path, "%s equals the specification value" % what, "%s is not %s as defined by the specification" % (path, what), where=P.consts[path]["span"], key="table:%s" % path)


def check_tables(ctx, P):
    S = "hashing::sha2::initials::"
    tbl(ctx, P, S + "H224", H.H224, "SHA-224 IV")
    tbl(ctx, P, S + "H256", H.H256, "SHA-256 IV")
    tbl(ctx, P, S + "H384", H.H384, "SHA-384 IV")
    tbl(ctx, P, S + "H512", H.H512, "SHA-512 IV")
    tbl(ctx, P, S + "H512_TRUNC_224", H.H512_224, "SHA-512/224 IV")
    tbl(ctx, P, S + "H512_TRUNC_256", H.H512_256, "SHA-512/256 IV")
    tbl(ctx, P, "hashing::sha2::impl256::reference::K32", H.K32, "SHA-256 K")
    tbl(ctx, P, "hashing::sha2::impl512::reference::K64", H.K64, "SHA-512 K")
    try:
        k2 = P.const("hashing::sha2::impl512::reference::K64X2")
        ok = len(k2) == 40 and all(k2[i]["1"] == H.K64[2 * i] and k2[i]["0"] == H.K64[2 * i + 1] for i in range(40))
        ctx.check(ok, "table", "K64X2", "K64X2 lanes = K pairs (lane 1 = even index)", "K64X2 does not hold the SHA-512 constants in (odd, even) lane order", where=P.consts["hashing::sha2::impl512::reference::K64X2"]["span"], key="table:K64X2")
    except mir.AnchorLost as e:
        ctx.lost("table", "K64X2", str(e))
    tbl(ctx, P, "hashing::sha1::H", H.SHA1_H, "SHA-1 IV")
    for i in range(4):
        tbl(ctx, P, "hashing::sha1::K%d" % i, H.SHA1_K[i], "SHA-1 K%d" % i)
    tbl(ctx, P, "hashing::ripemd160::H", H.SHA1_H, "RIPEMD-160 IV")
    tbl(ctx, P, "hashing::sha3::RC", H.KECCAK_RC, "Keccak round constants")
    tbl(ctx, P, "hashing::sha3::ROTC", H.KECCAK_ROTC, "Keccak rho offsets")
    tbl(ctx, P, "hashing::sha3::PIL", H.KECCAK_PIL, "Keccak pi lanes")
    tbl(ctx, P, "hashing::sha3::NROUNDS", 24, "Keccak-f[1600] rounds")
    tbl(ctx, P, "hashing::sha3::B", 200, "Keccak state bytes")
    tbl(ctx, P, "hashing::sha3::M5", [0, 1, 2, 3, 4, 0, 1, 2, 3, 4], "index mod 5 table")
    C = "hashing::blake2::common::"
    tbl(ctx, P, C + "b::IV", H.BLAKE2B_IV, "BLAKE2b IV")
    tbl(ctx, P, C + "s::IV", H.BLAKE2S_IV, "BLAKE2s IV")
    tbl(ctx, P, C + "SIGMA", H.SIGMA12, "BLAKE2 sigma")
    for k, v in (("b::R1", 32), ("b::R2", 24), ("b::R3", 16), ("b::R4", 63), ("s::R1", 16), ("s::R2", 12), ("s::R3", 8), ("s::R4", 7), ("b::ROUNDS", 12), ("s::ROUNDS", 10),
                 ("b::BLOCK_BYTES", 128), ("s::BLOCK_BYTES", 64), ("b::MAX_OUTLEN", 64), ("s::MAX_OUTLEN", 32), ("b::MAX_KEYLEN", 64), ("s::MAX_KEYLEN", 32)):
        tbl(ctx, P, C + k, v, "BLAKE2 %s" % k)
    # RIPEMD-160 round constants are literals inside the block function
    fn = P.fn_opt("hashing::ripemd160::process_msg_block")
    if fn is None:
        ctx.lost("table", "ripemd160 round constants", "process_msg_block not found")
    else:
        consts = {}
        for t, v in rules.int_constants(fn, types=("u32",)):
            consts[v] = consts.get(v, 0) + 1
        want = [k for k in H.RMD_KL + H.RMD_KR if k]
        big = {v: n for v, n in consts.items() if v > 0xffff}
        ok = set(big) == set(want) and all(n == 16 for n in big.values())
        ctx.check(ok, "table", "ripemd160 round constants", "the eight non-zero round constants, 16 uses each", "RIPEMD-160 round constants differ from floor(2^30 sqrt/cbrt(2,3,5,7)): %s" % {hex(k): n for k, n in big.items()}, where=fn.where(), key="table:ripemd160:K")
        rc = rules.rotation_census(fn)
        ctx.check(len(rc) == 320 and sum(1 for r in rc if r == (32 - 10) % 32) >= 160, "table", "ripemd160 rotations", "160 steps: one data rotation and one rol 10 each", "RIPEMD-160 step structure changed (rotation count %d)" % len(rc), where=fn.where(), key="table:ripemd160:rot")


SHA2 = {
    "Sha224": ("Context224", "Engine256", H.H224, 28, 64), "Sha256": ("Context256", "Engine256", H.H256, 32, 64),
    "Sha384": ("Context384", "Engine512", H.H384, 48, 128), "Sha512": ("Context512", "Engine512", H.H512, 64, 128),
    "Sha512Trunc224": ("Context512_224", "Engine512", H.H512_224, 28, 128), "Sha512Trunc256": ("Context512_256", "Engine512", H.H512_256, 32, 128),
}


def check_variants(ctx, P):
    for T, (blk, bits) in H.VARIANTS.items():
        tbl(ctx, P, "hashing::%s::OUTPUT_BITS" % T, bits, "%s output bits" % T)
        tbl(ctx, P, "hashing::%s::BLOCK_BYTES" % T, blk, "%s block bytes" % T)
    tbl(ctx, P, "hashing::blake2b::Blake2b::<BITS>::BLOCK_BYTES", 128, "BLAKE2b block bytes")
    tbl(ctx, P, "hashing::blake2s::Blake2s::<BITS>::BLOCK_BYTES", 64, "BLAKE2s block bytes")
    # SHA-2: IV by value, output encoder
    for name, (cx, eng, iv, outlen, blk) in SHA2.items():
        for meth in ("new", "reset"):
            fn = P.fn("hashing::sha2::%s::%s" % (cx, meth))
            cs = fn.calls_to(r"hashing::sha2::%s::%s$" % (eng, meth))
            ok = len(cs) == 1 and any(x[0] == "kconst" and x[3] == tuple(iv) for x in walk(fn.expr(cs[0].args[-1])))
            ctx.check(ok, "variant-iv", "sha2::%s::%s" % (cx, meth), "%s::%s passes the %s IV to %s" % (cx, meth, name, eng), "hashing::sha2::%s::%s does not initialise %s with the %s IV" % (cx, meth, eng, name), where=fn.where(), key="variant-iv:sha2::%s::%s" % (cx, meth))
        for meth in ("finalize", "finalize_reset"):
            fn = P.fn("hashing::sha2::%s::%s" % (cx, meth))
            outs = [c for c in fn.calls() if re.search(r"eng(256|512)::Engine::output_\d+bits_at$", c.name())]
            fin = fn.calls_to(r"hashing::sha2::%s::finish$" % eng)
            ok = len(outs) == 1 and len(fin) == 1 and fn.dominates(fin[0].bb, outs[0].bb) and cn(fn, outs[0].args[0]).endswith(".engine.state")
            if ok:
                n = int(re.search(r"output_(\d+)bits_at$", outs[0].name()).group(1)) // 8
                ok = n == outlen and fn.locals[0] == "[u8; %d]" % outlen
            ctx.check(ok, "variant-out", "sha2::%s::%s" % (cx, meth), "finish, then the %d-byte output encoder" % outlen, "hashing::sha2::%s::%s does not finish and emit %d bytes with the matching encoder" % (cx, meth, outlen), where=fn.where(), key="variant-out:sha2::%s::%s" % (cx, meth))
    # SHA-2 output encoders: big-endian prefix of the state
    enc = {
        ("eng256", "output_224bits_at"): [("write_u32v_be", (0, 28), (0, 7))], ("eng256", "output_256bits_at"): [("write_u32v_be", (0, 32), (0, None))],
        ("eng512", "output_256bits_at"): [("write_u64v_be", (0, None), (0, 4))], ("eng512", "output_384bits_at"): [("write_u64v_be", (0, None), (0, 6))], ("eng512", "output_512bits_at"): [("write_u64v_be", (0, None), (0, 8))],
        ("eng512", "output_224bits_at"): [("write_u64v_be", (0, 24), (0, 3)), ("write_u32_be", (24, 28), "h3hi")],
    }
    for (eng, f), want in enc.items():
        fn = P.fn("hashing::sha2::%s::Engine::%s" % (eng, f))
        got = []
        for c in fn.calls():
            nm = c.name().split("::")[-1]
            if nm in ("write_u32v_be", "write_u64v_be"):
                wd = rules.window(fn, fn.expr(c.args[0]))
                ws = rules.window(fn, fn.expr(c.args[1]))
                got.append((nm, (wd[1][1], wd[2][1] if wd[2] else None) if wd and wd[0] == "arg2" else None, (ws[1][1], ws[2][1] if ws[2] else None) if ws and ws[0] == "arg1.h" else None))
            elif nm == "write_u32_be":
                wd = rules.window(fn, fn.expr(c.args[0]))
                v = pred.canon(fn.expr(c.args[1]), fn)
                got.append((nm, (wd[1][1], wd[2][1]) if wd and wd[0] == "arg2" and wd[2] else None, "h3hi" if v == "(arg1.h[3] Shr 32)" else v))
        ctx.check(got == want, "encode", "sha2::%s::%s" % (eng, f), "big-endian prefix of the chaining state", "sha2 %s::%s does not emit the big-endian state prefix: %s" % (eng, f, got), where=fn.where(), key="encode:sha2::%s::%s" % (eng, f))
    for w, e in (("write_u32v_be", "to_be_bytes"), ("write_u64v_be", "to_be_bytes"), ("write_u32_be", "to_be_bytes"), ("write_u32_le", "to_le_bytes"), ("write_u64v_le", "to_le_bytes"), ("write_u32v_le", "to_le_bytes")):
        fn = P.fn("cryptoutil::" + w)
        ok = any(c.name().endswith(e) for c in fn.calls()) and not any(c.name().endswith("to_le_bytes" if e == "to_be_bytes" else "to_be_bytes") for c in fn.calls())
        ctx.check(ok, "encode", "cryptoutil::" + w, "uses %s" % e, "cryptoutil::%s has the wrong byte order" % w, where=fn.where(), key="encode:cryptoutil::%s" % w)
    # SHA-3 / Keccak: engine parameters by type
    for mod, ds in (("sha3", 2), ("keccak", 0)):
        for n in (224, 256, 384, 512):
            T = "hashing::%s::Context%d" % (mod, n)
            adt = P.adts.get(T)
            want = "hashing::sha3::Engine<%d, %d>" % (n // 8, ds)
            ok = adt is not None and [f["t"] for f in adt["variants"][0]["fields"]] == [want]
            ctx.check(ok, "variant-sponge", T, "sponge instantiated with digest length %d bytes and %d domain bits" % (n // 8, ds), "%s is not Engine<%d, %d> (digest length / domain-separation bits): %s" % (T, n // 8, ds, [f["t"] for f in adt["variants"][0]["fields"]] if adt else None), where=adt["span"] if adt else None, key="variant-sponge:%s" % T)
            for meth in ("finalize", "finalize_reset"):
                fn = P.fn("%s::%s" % (T, meth))
                ok = fn.locals[0] == "[u8; %d]" % (n // 8) and len(fn.calls_to(r"Engine::<DIGESTLEN, DSLEN>::output$")) == 1
                ctx.check(ok, "variant-out", "%s::%s" % (T, meth), "%d-byte output via Engine::output" % (n // 8), "%s::%s does not squeeze %d bytes" % (T, meth, n // 8), where=fn.where(), key="variant-out:%s::%s" % (T, meth))
    rf = P.fn("hashing::sha3::Engine::<DIGESTLEN, DSLEN>::rate")
    l, c = pred.lin(rf.local_expr(0), rf)
    ctx.check(l == {"P:DIGESTLEN": -2} and c == 200, "variant-sponge", "rate", "rate = 200 - 2 * DIGESTLEN", "sponge rate is not 200 - 2*DIGESTLEN: %s %s" % (l, c), where=rf.where(), key="variant-sponge:rate")
    # one-shot functions
    oneshots = {
        "sha1": "sha1::Sha1", "sha224": "sha2::Sha224", "sha256": "sha2::Sha256", "sha384": "sha2::Sha384", "sha512": "sha2::Sha512",
        "sha3_224": "sha3::Sha3_224", "sha3_256": "sha3::Sha3_256", "sha3_384": "sha3::Sha3_384", "sha3_512": "sha3::Sha3_512",
        "keccak224": "keccak::Keccak224", "keccak256": "keccak::Keccak256", "keccak384": "keccak::Keccak384", "keccak512": "keccak::Keccak512", "ripemd160": "ripemd160::Ripemd160",
        "blake2b_224": ("blake2b::Blake2b", "224"), "blake2b_256": ("blake2b::Blake2b", "256"), "blake2b_384": ("blake2b::Blake2b", "384"), "blake2b_512": ("blake2b::Blake2b", "512"),
        "blake2s_224": ("blake2s::Blake2s", "224"), "blake2s_256": ("blake2s::Blake2s", "256"),
    }
    pubfns = sorted(f.name for f in P.fns.values() if re.match(r"^hashing::[a-z0-9_]+$", f.path) and f.vis == "Public")
    ctx.check(set(pubfns) == set(oneshots), "floor", "one-shot functions", "all %d public one-shot functions are in the rule table" % len(oneshots), "the set of public one-shot hash functions changed: %s" % sorted(set(pubfns) ^ set(oneshots)), key="floor:oneshots")
    for f, T in oneshots.items():
        fn = P.fn_opt("hashing::" + f)
        if fn is None:
            continue
        e = fn.local_expr(0)
        ok = e[0] == "call" and re.search(r"::finalize(#\d+)?$", e[1]) is not None
        chain = []
        x = e
        while x[0] == "call" and x[2]:
            chain.append(x[1])
            nxt = x[2][0]
            if len(x[2]) > 1 and re.search(r"::update(#\d+)?$", x[1]):
                ok = ok and pred.canon(x[2][1], fn) == "arg1"
            x = nxt
        if x[0] == "call":
            chain.append(x[1])
        ga = None
        if isinstance(T, tuple):
            T, ga = T
        newc = [c for c in fn.calls() if c.name().endswith("::new")]
        ok = ok and len(chain) == 3 and re.search(r"::update(#\d+)?$", chain[1]) and len(newc) == 1 and newc[0].name().startswith("hashing::%s::" % T.split("::")[0]) and (T.split("::")[1] + "::") in newc[0].name() + "::"
        if ga is not None:
            ok = ok and newc[0].res_ga == [ga]
        ctx.check(ok, "oneshot", "hashing::" + f, "%s = %s::new().update(input).finalize()" % (f, T), "hashing::%s is not %s%s::new().update(input).finalize()" % (f, T, "::<%s>" % ga if ga else ""), where=fn.where(), key="oneshot:hashing::%s" % f)


def check_standard_padding(ctx, P):
    fn = P.fn("cryptoutil::FixedBuffer::<N>::standard_padding")
    nx = fn.calls_to(r"FixedBuffer::<N>::next$")
    ok = len(nx) == 1 and nx[0].res_ga[-1:] == ["1"] or (len(nx) == 1 and "1" in nx[0].res_ga)
    st = [s for b in sorted(fn.reachable()) for s in fn.stmts(b) if s[0] == "=" and s[1][1][:1] == ["*"] and s[2][0] == "use" and const_val(s[2][1]) == 128]
    ctx.check(ok and len(st) == 1, "padding", "marker", "0x80 is appended through next::<1>()", "standard_padding does not append the single 0x80 marker byte", where=fn.where(), key="padding:marker")
    zs = fn.calls_to(r"FixedBuffer::<N>::zero_until$")
    fb = fn.calls_to(r"FixedBuffer::<N>::full_buffer$")
    cm = [c for c in fn.calls() if c.callee and c.callee.endswith("FnMut::call_mut")]
    ok = len(zs) == 2 and len(fb) == 1 and len(cm) == 1
    if not ok:
        ctx.fail("padding", "shape", "standard_padding must be: marker; if short { zero_until(N); func(full_buffer()) }; zero_until(N - rem)", where=fn.where(), key="padding:shape")
        return
    inner = [z for z in zs if pred.lin(fn.expr(z.args[1]), fn) == ({"P:N": 1}, 0)]
    outer = [z for z in zs if pred.lin(fn.expr(z.args[1]), fn) == ({"P:N": 1, "arg2": -1}, 0)]
    ok = len(inner) == 1 and len(outer) == 1
    ctx.check(ok, "padding", "zero-fill", "zero_until(N) in the extra block, zero_until(N - rem) at the end", "standard_padding zero-fills to the wrong positions", where=fn.where(), key="padding:zero-fill")
    if not ok:
        return
    facts = pred.facts_at(fn, inner[0].bb)
    want = pred.atom("le", -1, {"P:N": 1, "arg1.buffer_idx": -1, "arg2": -1})
    ctx.check(want in facts, "padding-pred", "extra-block", "an extra block is emitted iff N - buffer_idx < rem (fewer than rem bytes remain after the marker)",
              "standard_padding emits the extra padding block under the wrong condition (must be exactly N - idx < rem): %s" % [pred.show(f) for f in facts], where=fn.where(), key="padding-pred:extra-block")
    ok = fn.dominates(inner[0].bb, fb[0].bb) and fn.dominates(fb[0].bb, cm[0].bb) and rules.every_ret_path_passes(fn, [outer[0].bb]) and not fn.dominates(inner[0].bb, outer[0].bb) and fn.reaches(cm[0].bb, outer[0].bb)
    ctx.check(ok, "padding", "order", "extra block: zero to N, compress the full buffer; then always zero to N - rem", "standard_padding's block emission / final zero fill are misordered", where=fn.where(), key="padding:order")
    mk = fn.dominates(nx[0].bb, inner[0].bb) and fn.dominates(nx[0].bb, outer[0].bb)
    ctx.check(mk, "padding", "marker-first", "the marker precedes the fill", "the 0x80 marker is not written first", where=fn.where())
    # helpers
    zu = P.fn("cryptoutil::FixedBuffer::<N>::zero_until")
    zc = zu.calls_to(r"cryptoutil::zero$")
    ok = len(zc) == 1
    if ok:
        w = rules.window(zu, zu.expr(zc[0].args[0]))
        ok = w == ("arg1.buffer", ((("arg1.buffer_idx", 1),), 0), ((("arg2", 1),), 0))
        vals = [zu.rvalue_expr(rv) for b, i, names, rv in rules.field_writes(zu) if names == ["buffer_idx"]]
        ok = ok and len(vals) == 1 and pred.canon(vals[0], zu) == "arg2"
    ctx.check(ok, "padding", "zero_until", "zero_until(i) clears buffer[idx..i] and sets idx = i", "zero_until does not clear buffer[buffer_idx..idx] and advance", where=zu.where(), key="padding:zero_until")
    fbf = P.fn("cryptoutil::FixedBuffer::<N>::full_buffer")
    vals = rules.last_write_values(P, fbf, "buffer_idx")
    facts_ok = any(pred.atom("eq", 0, {"P:N": -1, "arg1.buffer_idx": 1}) in pred.facts_at(fbf, b) or pred.atom("eq", 0, {"P:N": 1, "arg1.buffer_idx": -1}) in pred.facts_at(fbf, b) for b in fbf.ret_blocks())
    ctx.check(vals == {0} and facts_ok, "padding", "full_buffer", "full_buffer asserts idx == N and resets idx to 0", "full_buffer does not require a full block / reset the index", where=fbf.where(), key="padding:full_buffer")
    nf = P.fn("cryptoutil::FixedBuffer::<N>::next")
    vals = [nf.rvalue_expr(rv) for b, i, names, rv in rules.field_writes(nf) if names == ["buffer_idx"]]
    ok = len(vals) == 1 and pred.lin(vals[0], nf) == ({"arg1.buffer_idx": 1, "P:I": 1}, 0)
    ctx.check(ok, "padding", "next", "next::<I>() hands out buffer[idx..idx+I] and advances idx by I", "FixedBuffer::next does not advance by I", where=nf.where(), key="padding:next")


def check_length_fields(ctx, P):
    for path, rem, width, sp in (("hashing::sha2::Engine256::finish", 8, "u64", "arg1"), ("hashing::sha2::Engine512::finish", 16, "u128", "arg1"), ("hashing::sha1::mk_result", 8, "u64", "arg1")):
        fn = P.fn(path)
        sp_c = fn.calls_to(r"FixedBuffer::<N>::standard_padding$")
        nx = fn.calls_to(r"FixedBuffer::<N>::next$")
        fb = fn.calls_to(r"FixedBuffer::<N>::full_buffer$")
        ok = len(sp_c) == 1 and fn.expr(sp_c[0].args[1])[:2] == ("const", rem) and len(nx) == 1 and str(rem) in nx[0].res_ga and len(fb) == 1
        ok = ok and fn.dominates(sp_c[0].bb, nx[0].bb) and fn.dominates(nx[0].bb, fb[0].bb)
        lenv = None
        for b in sorted(fn.reachable()):
            for s in fn.stmts(b):
                if s[0] == "=" and s[1][1] == ["*"] and s[1][0] == nx[0].dest[0] if nx else False:
                    lenv = fn.rvalue_expr(s[2])
        okl = lenv is not None and lenv[0] == "call" and lenv[1].endswith("%s>::to_be_bytes" % width)
        if okl:
            l, c = pred.lin(lenv[2][0], fn)
            okl = c == 0 and list(l.values()) == [8] and list(l.keys())[0].endswith("processed_bytes")
        ctx.check(ok and okl, "length-field", path, "pad to N-%d, then the %d-byte big-endian bit length 8*processed_bytes, then compress" % (rem, rem),
                  "%s does not append the %d-byte big-endian bit length (processed_bytes << 3) after standard_padding(%d): %s" % (path, rem, rem, fmt(lenv) if lenv is not None else None), where=fn.where(), key="length-field:%s" % path)
    # processed_bytes accumulates input lengths
    for path, fld in (("hashing::sha2::Engine256::input", "processed_bytes"), ("hashing::sha2::Engine512::input", "processed_bytes"), ("hashing::sha1::Context::update_mut", "processed_bytes"), ("hashing::ripemd160::Context::update_mut", "processed_bytes")):
        fn = P.fn(path)
        ws = [fn.rvalue_expr(rv) for b, i, names, rv in rules.field_writes(fn) if names == [fld]]
        ok = len(ws) == 1 and pred.lin(ws[0], fn) == ({"arg1." + fld: 1, "len(arg2)": 1}, 0)
        ctx.check(ok, "length-field", path + ":count", "processed_bytes += input.len()", "%s does not add the input length to processed_bytes" % path, where=fn.where(), key="length-field:%s:count" % path)
    fn = P.fn("hashing::ripemd160::Context::finalize_reset")
    ws = []
    for c in fn.calls_to(r"cryptoutil::write_u32_le$"):
        d = fn.expr(c.args[0])
        if any(x[0] == "call" and re.search(r"FixedBuffer::<N>::next(#[\d,]+)?$", x[1]) for x in walk(d)):
            ws.append(pred.canon(fn.expr(c.args[1]), fn))
    sp_c = fn.calls_to(r"FixedBuffer::<N>::standard_padding$")
    ok = ws == ["lin{+8*arg1.processed_bytes+0}", "(arg1.processed_bytes Shr 29)"] and len(sp_c) == 1 and fn.expr(sp_c[0].args[1])[:2] == ("const", 8)
    ctx.check(ok, "length-field", "ripemd160", "64-bit little-endian bit length as two LE words (low = bytes << 3, high = bytes >> 29)", "RIPEMD-160 length field is wrong: %s" % ws, where=fn.where(), key="length-field:ripemd160")


def check_sponge_pad(ctx, P):
    E = "hashing::sha3::Engine::<DIGESTLEN, DSLEN>::finalize"
    sp = P.fn(E + "::set_pad")
    sd = P.fn(E + "::set_domain_sep")
    B = termbits.Bits(termbits.byte_leaf({"arg2", "arg1"}))
    # domain separation (SHA-3 only): bits 0,1 = 0,1 when out_len != 0
    r = ssa.Eval(P, sd).run()
    got = None
    v = r.mem_at_ret.get("arg2[0]")
    ok = False
    if v is not None and v[0] == "ite":
        # ite(out_len != 0, ..., ...)
        for arm in (v[2], v[3]):
            bits = B.bits(arm, 8)
            if bits[:2] == [0, 1] and bits[2:] == [("arg2", j) for j in range(2, 8)]:
                ok = True
    ctx.check(ok, "sponge-pad", "set_domain_sep", "fixed-output variants: first pad byte bits (0,1) = (0,1), other bits untouched", "set_domain_sep does not write the SHA-3 domain bits 01 into the first pad byte", where=sd.where(), key="sponge-pad:set_domain_sep")
    for ds, first in ((2, 0x06), (0, 0x01)):
        r = ssa.Eval(P, sp, params={"DSLEN": ds}).run()
        st0 = [v for bb, k, v in r.stores if k == "arg1[0]"]
        bits = B.bits(st0[-1], 8) if st0 else None
        want = [("arg1", j) for j in range(ds)] + [1] + [0] * (7 - ds)
        ctx.check(bits == want, "sponge-pad", "set_pad::<%d>:first" % ds, "first pad byte: domain bits kept, pad bit 1 at bit %d, higher bits cleared (0x%02x with the domain bits)" % (ds, first), "set_pad::<%d> first byte is wrong: %s" % (ds, termbits.show(bits) if bits else None), where=sp.where(), key="sponge-pad:set_pad:%d:first" % ds)
        last = [v for bb, k, v in r.stores if k == "arg1[?]"]
        ok = len(last) >= 1 and last[-1][0] == "bin" and last[-1][1] == "BitOr" and ((ssa.is_c(last[-1][3]) and last[-1][3][1] == 0x80 and not ssa.is_c(last[-1][2])) or (ssa.is_c(last[-1][2]) and last[-1][2][1] == 0x80 and not ssa.is_c(last[-1][3])))
        ctx.check(ok, "sponge-pad", "set_pad::<%d>:last" % ds, "last pad byte |= 0x80 (a one-byte pad keeps its first-byte bits: 0x%02x)" % (first | 0x80), "set_pad::<%d> does not OR 0x80 into the last pad byte (a single-byte pad would lose the domain / first pad bit)" % ds, where=sp.where(), key="sponge-pad:set_pad:%d:last" % ds)
        # middle bytes zeroed: loop over buf[s+1..]
    lps = [l for l in rules.iter_loops(sp) if any(s[0] == "iter_mut" for s in l["sources"])]
    ok = len(lps) == 1 and not lps[0]["early_exits"]
    ctx.check(ok, "sponge-pad", "set_pad:zeros", "bytes after the first are cleared", "set_pad does not clear the middle pad bytes", where=sp.where())
    fin = P.fn(E)
    cs = [c.name().split("::")[-1] for c in fin.calls() if c.local]
    seq = [r"finalize::pad_len$", r"finalize::set_pad$", r"Engine::<DIGESTLEN, DSLEN>::process$"]
    mn, _ = rules.call_sequence_min_progress(fin, seq)
    dsep = fin.calls_to(r"finalize::set_domain_sep$")
    okd = len(dsep) == 1 and pred.atom("ne", 0, {"P:DSLEN": 1}) in pred.facts_at(fin, dsep[0].bb)
    if okd:
        spc = fin.calls_to(r"finalize::set_pad$")
        okd = fin.reaches(dsep[0].bb, spc[0].bb) and pred.lin(fin.expr(dsep[0].args[0]), fin) == ({"P:DIGESTLEN": 8}, 0)
    ctx.check(mn == 3 and okd, "sponge-pad", "finalize:order", "pad_len -> [set_domain_sep iff DSLEN != 0] -> set_pad -> absorb the pad", "sponge finalize does not build the pad as pad_len, domain bits (iff DSLEN != 0), set_pad, process", where=fin.where(), key="sponge-pad:finalize:order")
    vals = rules.last_write_values(P, fin, "can_absorb")
    ctx.check(vals == {0}, "sponge-pad", "finalize:can_absorb", "absorbing is closed after the pad", "sponge finalize leaves can_absorb set", where=fin.where())


def _xor_leaves(t):
    if isinstance(t, tuple) and t and t[0] == "bin" and t[1] == "BitXor":
        return _xor_leaves(t[2]) + _xor_leaves(t[3])
    return [t]


def check_blake2_params(ctx, P):
    for E, ty, iv in (("EngineB", "u64", H.BLAKE2B_IV), ("EngineS", "u32", H.BLAKE2S_IV)):
        for meth in ("new", "reset"):
            fn = P.fn("hashing::blake2::%s::%s" % (E, meth))
            r = ssa.Eval(P, fn).run()
            if meth == "new":
                hv = r.ret.get("h") if isinstance(r.ret, ssa.Agg) else None
                tv = r.ret.get("t") if isinstance(r.ret, ssa.Agg) else None
                words = [hv.get_elem(i) for i in range(8)] if isinstance(hv, ssa.Agg) else None
                tz = isinstance(tv, ssa.Agg) and all(tv.get_elem(i) == ("c", 0, ty) for i in range(2))
                o_arg, k_arg = "arg1", "arg2"
            else:
                mem = r.mem_at_ret
                hv = mem.get("arg1.h")
                words = None
                if isinstance(hv, ssa.Agg):
                    words = [hv.get_elem(i) for i in range(8)]
                else:
                    words = [mem.get("arg1.h[%d]" % i) for i in range(8)]
                    if isinstance(hv, ssa.Agg) or hv is not None:
                        pass
                tz = mem.get("arg1.t[0]") == ("c", 0, ty) and mem.get("arg1.t[1]") == ("c", 0, ty)
                o_arg, k_arg = "arg2", "arg3"
            ok = words is not None and all(w is not None for w in words)
            if ok:
                rest = all(words[i] == ("c", iv[i], ty) for i in range(1, 8))
                leaves = _xor_leaves(words[0])
                cval = 0
                other = []
                for l in leaves:
                    if ssa.is_c(l):
                        cval ^= l[1]
                    else:
                        other.append(l)
                want_other = sorted([repr(("cast", ("in", o_arg), ty)), repr(("bin", "Shl", ("cast", ("in", k_arg), ty), ("c", 8, "i32"), ty))])
                got_other = sorted(repr(x) for x in other)
                ok = rest and cval == (iv[0] ^ 0x01010000) and got_other == want_other
            ctx.check(ok and tz, "blake2-param", "%s::%s" % (E, meth), "h[0] = IV[0] ^ 0x01010000 ^ (keylen << 8) ^ outlen, h[1..8] = IV, t = 0", "blake2 %s::%s does not build the parameter block (digest length in byte 0, key length in byte 1, fanout = depth = 1) on the IV, or leaves the counter non-zero" % (E, meth), where=fn.where(), key="blake2-param:%s::%s" % (E, meth))
        nf = P.fn("hashing::blake2::%s::new" % E)
        facts = [pred.facts_at(nf, b) for b in nf.ret_blocks()]
        mo, mk = (64, 64) if E == "EngineB" else (32, 32)
        ok = all(pred.implies(f, pred.A("le", mo, arg1=1)) and pred.implies(f, pred.A("le", -1, arg1=-1)) and pred.implies(f, pred.A("le", mk, arg2=1)) for f in facts) and facts
        ctx.check(ok, "guard", "blake2::%s::new" % E, "0 < outlen <= %d and keylen <= %d asserted" % (mo, mk), "blake2 %s::new does not bound outlen / keylen" % E, where=nf.where(), key="guard:blake2::%s::new" % E)
    for T, blk, leaf in hashctx.BLAKE2_CTX:
        fn = P.fn(T + "::internal_final")
        inc = fn.calls_to(r"Engine[BS]::increment_counter$")
        cmp_ = fn.calls_to(r"Engine[BS]::compress$")
        z = fn.calls_to(r"cryptoutil::zero$")
        ok = len(inc) == 1 and len(cmp_) == 1 and len(z) == 1 and fn.dominates(inc[0].bb, cmp_[0].bb) and fn.dominates(z[0].bb, cmp_[0].bb)
        if ok:
            l, c = pred.lin(fn.expr(inc[0].args[1]), fn)
            ok = l == {"arg1.buflen": 1} and c == 0
            wz = rules.window(fn, fn.expr(z[0].args[0]))
            ok = ok and wz == ("arg1.buf", ((("arg1.buflen", 1),), 0), None)
            wc = rules.window(fn, fn.expr(cmp_[0].args[1]))
            ok = ok and wc is not None and wc[0] == "arg1.buf" and wc[1] == ((), 0) and wc[2] == ((), blk)
            last = fn.expr(cmp_[0].args[2])
            ok = ok and last[0] == "agg" and last[1][3] == "Yes"
        ctx.check(ok, "blake2-final", T, "final block: counter += buflen, zero tail, compress(buf, LastBlock::Yes)", "%s::internal_final does not finish with counter += buflen, zero-filled block, last-block flag" % T, where=fn.where(), key="blake2-final:%s" % T)
        # the digest bytes: after the last compression the WHOLE chaining value is serialised little-endian to the start of
        # buf (every output length up to 8 words is then a prefix of it); finalize copies buf[0..out.len()]
        wr = fn.calls_to(r"cryptoutil::write_u(32|64)v_le$")
        okw = len(wr) == 1 and len(cmp_) == 1 and fn.dominates(cmp_[0].bb, wr[0].bb) and rules.every_ret_path_passes(fn, [wr[0].bb])
        if okw:
            dst = pred.canon(fn.expr(wr[0].args[0]), fn)
            src = pred.canon(fn.expr(wr[0].args[1]), fn)
            hb = blk // 2
            wd_ = rules.window(fn, fn.expr(wr[0].args[0]))
            okw = (dst == "arg1.buf[0..%d]" % hb or (wd_ is not None and wd_[0] == "arg1.buf" and wd_[1] == ((), 0) and wd_[2] == ((), hb))) and src == "arg1.eng.h"
        ctx.check(okw, "blake2-out", T, "digest = little-endian bytes of all 8 chaining words at buf[0..], written after the final compression", "%s::internal_final does not serialise the whole chaining value (8 words, little-endian) to the start of buf after the final compression: %s" % (T, [(pred.canon(fn.expr(c.args[0]), fn), pred.canon(fn.expr(c.args[1]), fn)) for c in wr]), where=fn.where(), key="blake2-out:%s" % T)
        for fm in ("finalize_at", "finalize_reset_at", "finalize_reset_with_key_at"):
            g = P.fn_opt(T + "::" + fm)
            if g is None:
                continue
            cps = [c for c in g.calls() if c.name().endswith("copy_from_slice")]
            fin = [c for c in g.calls() if c.name().endswith("::internal_final")]
            okc = len(cps) == 1 and len(fin) == 1 and g.dominates(fin[0].bb, cps[0].bb)
            if okc:
                ws_ = rules.window(g, g.expr(cps[0].args[1]))
                src_ok = pred.canon(g.expr(cps[0].args[1]), g) in ("arg1.buf[0..len(arg2)]", "arg1.buf[0..len(arg3)]") or (ws_ is not None and ws_[0] == "arg1.buf" and ws_[1] == ((), 0) and ws_[2] in (((("len(arg2)", 1),), 0), ((("len(arg3)", 1),), 0)))
                okc = src_ok and pred.canon(g.expr(cps[0].args[0]), g) in ("arg2", "arg3")
            ctx.check(okc, "blake2-out", "%s::%s" % (T, fm), "out <- buf[0..out.len()] after internal_final", "%s::%s does not copy the first out.len() digest bytes after finalising: %s" % (T, fm, [(pred.canon(g.expr(c.args[0]), g), pred.canon(g.expr(c.args[1]), g)) for c in cps]), where=g.where(), key="blake2-out:%s::%s" % (T, fm))


ROT_SPEC = {
    "hashing::sha2::impl256::reference": {"big_sigma0|bsig0|sum0": [2, 13, 22], "big_sigma1|bsig1|sum1": [6, 11, 25]},
}


def check_rotations(ctx, P):
    # SHA-256 reference: multiset of rotate amounts in the block function = 64 rounds * {2,13,22,6,11,25} + 48 schedule * {7,18,17,19}
    def census_deep(fn):
        out = []
        for f in P.reach_fns(fn, maxdepth=3):
            out += [r for r in rules.rotation_census(f) if isinstance(r, int)]
        return out
    f256 = P.fn_opt("hashing::sha2::impl256::reference::digest_block")
    if f256 is None:
        ctx.lost("rotations", "sha256", "reference::digest_block not found")
    else:
        rs = set(census_deep(f256))
        ctx.check(rs == {2, 13, 22, 6, 11, 25, 7, 18, 17, 19}, "rotations", "sha256-reference", "rotation amounts are exactly {2,13,22,6,11,25,7,18,17,19}", "SHA-256 rotation amounts differ from FIPS 180-4: %s" % sorted(rs), where=f256.where(), key="rotations:sha256-reference")
        sh = set()
        for f in P.reach_fns(f256, maxdepth=3):
            sh |= {a for op, a in rules.shift_census(f) if op == "Shr" and a is not None and a not in (0,)}
        ctx.check({3, 10} <= sh, "rotations", "sha256-reference:shifts", "schedule shifts 3 and 10 present", "SHA-256 schedule shifts (3, 10) missing: %s" % sorted(sh), where=f256.where(), key="rotations:sha256-reference:shr")
    f512 = P.fn_opt("hashing::sha2::impl512::reference::digest_block") or P.fn_opt("hashing::sha2::impl512::digest_block")
    if f512 is not None:
        rs = set(census_deep(f512))
        ctx.check(rs == {28, 34, 39, 14, 18, 41, 1, 8, 19, 61}, "rotations", "sha512-reference", "rotation amounts are exactly {28,34,39,14,18,41,1,8,19,61}", "SHA-512 rotation amounts differ from FIPS 180-4: %s" % sorted(rs), where=f512.where(), key="rotations:sha512-reference")
    else:
        ctx.lost("rotations", "sha512", "digest_block not found")
    for nm, rr in (("compress_b", ["b::R1", "b::R2", "b::R3", "b::R4"]), ("compress_s", ["s::R1", "s::R2", "s::R3", "s::R4"])):
        fn = P.fn_opt("hashing::blake2::reference::" + nm)
        if fn is None:
            ctx.lost("rotations", nm, "reference compress not found")
            continue
        syms = set()
        for f in P.reach_fns(fn, maxdepth=3):
            for c in f.calls():
                if rules.ROT_FNS.search(c.name()):
                    e = f.expr(c.args[1])
                    syms.add((c.name().split("_")[-1], e[3] if e[0] == "const" else pred.canon(e, f)))
        want = {("right", "hashing::blake2::common::%s" % r) for r in rr}
        ctx.check(syms == want, "rotations", "blake2::" + nm, "G rotates right by R1..R4 of the matching parameter set", "BLAKE2 reference %s does not rotate by its R1..R4: %s" % (nm, sorted(syms)), where=fn.where(), key="rotations:blake2::%s" % nm)
    kf = P.fn("hashing::sha3::keccak_f")
    lps = [l["sources"] for l in rules.iter_loops(kf) if any(s[0] == "range" for s in l["sources"])]
    ok = [("range", ("0", "24"))] in lps
    ctx.check(ok, "rotations", "keccak_f:rounds", "24 rounds", "keccak_f does not run NROUNDS = 24 rounds", where=kf.where(), key="rotations:keccak_f:rounds")


def run(ctx):
    P = ctx.prog("K0")
    ctx.guard("table", "constants", lambda: check_tables(ctx, P))
    ctx.guard("variant", "wiring", lambda: check_variants(ctx, P))
    ctx.guard("padding", "standard_padding", lambda: check_standard_padding(ctx, P))
    ctx.guard("length-field", "md", lambda: check_length_fields(ctx, P))
    ctx.guard("sponge-pad", "sha3", lambda: check_sponge_pad(ctx, P))
    ctx.guard("blake2-param", "engines", lambda: check_blake2_params(ctx, P))
    # which block gets BLAKE2's last-block flag, and that every byte reaches a compression exactly once, is decided by
    # the buffering discipline of the contexts (shared rule instances with C02): a one-shot digest of a message whose
    # length is a multiple of the block size depends on it
    from . import C02 as _C02
    ctx.guard("absorb", "all", lambda: _C02.check_absorb(ctx, P))
    ctx.guard("block-run", "all", lambda: _C02.check_block_runs(ctx, P))
    hashctx.check_all_blake2_keyed(ctx, P, which=("new_keyed",))
    ctx.guard("rotations", "reference", lambda: check_rotations(ctx, P))
    from . import simdeq
    progs = {k: ctx.prog(k) for k in ("K4", "K5")}
    got = []
    ctx.guard("lane-eq", "blake2-simd", lambda: got.append(simdeq.check_blake2_simd(ctx, progs)))
    ctx.check(got == [6], "floor", "lane-eq", "3 SIMD BLAKE2 compression functions x {final, non-final} compared with RFC 7693 F", "only %s SIMD BLAKE2 comparisons ran" % got, key="floor:lane-eq")
    # SHA-256 multi-block SIMD schedule: lane i must read block i (shared with C16)
    from . import C16
    P3 = ctx.prog("K3")
    ctx.guard("gather", "sse41", lambda: C16.check_gather(ctx, P3, "sse41", 4))
    ctx.guard("gather", "avx", lambda: C16.check_gather(ctx, progs["K4"], "avx", 8))
    ctx.guard("stride", "sse41", lambda: C16.check_stride(ctx, P3, "sse41", 4, "reference"))
    ctx.guard("stride", "avx", lambda: C16.check_stride(ctx, progs["K4"], "avx", 8, "sse41"))
    ctx.trusted.append("definition-derived oracle cxsa/spec/hashes.py; ssa evaluator and bit provenance; value-graph evaluator cxsa/simd.py (x86 intrinsic semantics)")
    from . import sha2eq
    got3 = []
    allp = dict(progs)
    allp["K0"] = P
    allp["K3"] = P3
    ctx.guard("compress-eq", "sha256", lambda: got3.append(sha2eq.check_sha256(ctx, allp, thorough=(ctx.tier == "thorough"))))
    want3 = 7 + (2 if ctx.tier == "thorough" else 0)
    ctx.check(got3 == [want3], "floor", "compress-eq", "%d SHA-256 block-function runs equal the FIPS 180-4 compression function as value graphs" % want3, "only %s SHA-256 comparisons ran (expected %d)" % (got3, want3), key="floor:compress-eq")
    got4 = []
    ctx.guard("compress-eq", "sha512/sha1/ripemd160", lambda: got4.append(sha2eq.check_other(ctx, allp)))
    ctx.check(got4 == [6], "floor", "compress-eq-other", "SHA-512, SHA-1 and RIPEMD-160 block functions over 1 and 2 blocks equal their specifications as value graphs", "only %s of the 6 SHA-512 / SHA-1 / RIPEMD-160 comparisons ran" % got4, key="floor:compress-eq-other")
    ctx.not_decided += ["Keccak-f[1600] as a function (its round constants, rotation / lane tables, padding and rate are decided)", ][:1]
