"""C16 — vectorised and portable code paths compute identical results.

Decided (structural preconditions of equality; the lane arithmetic itself is decided only where stated):
  build      the crate type-checks for the baseline, +sse4.1, +avx, +avx2 and the portable-ChaCha (-sse2)
             configurations, and each dispatcher resolves to the path its cfg selects
  stride     SHA-256 SSE4.1 / AVX: the batch loop guard constant equals the slice advance equals
             lanes * 64 (256 / 512); the remainder is handed exactly once to the next narrower
             implementation (AVX -> SSE4.1 -> reference) on every path and nothing else consumes it
  gather     each of the 16 schedule words is gathered from byte offset 4 j of every lane's block (lane
             stride 64 bytes), byte-swapped per 32-bit lane (the shuffle mask is the per-lane reversal)
  sigma      SIMD sigma0 / sigma1 use the shift pairs (7,25) (18,14) 3 and (17,15) (19,13) 10, i.e. the
             FIPS rotations, as do the scalar helpers; K32 in the SIMD modules is the reference table
  layout     EngineB / EngineS are 32-byte aligned with h at offset 0 (a multiple of the alignment the
             aligned loads / stores need), and every aligned load / store intrinsic in the BLAKE2 SIMD code
             addresses the chaining state h, never the (arbitrarily aligned) message buffer
  blake2     SIMD G rotation amounts equal R1..R4 of the parameter set (byte-shuffle masks decoded as
             rotations, slli/srli pairs summing to the lane width)
  chacha     both ChaCha engines satisfy the same layout / counter / round rules (re-evaluated from C03)
  compress-eq  the SHA-256 block functions of every build (portable; 4-way SSE4.1 incl. scalar tail; 8-way AVX incl. the 4-way
             path) equal the FIPS 180-4 compression over runs of 1..13 blocks AS VALUE GRAPHS, hence each other
  lane-eq    BLAKE2b/s AVX / AVX2 compressions equal RFC 7693 F as value graphs, final and non-final
  block-eq   both ChaCha engines (SSE2, portable): init for every key / nonce length, rounds for 8/12/20, add_back, output,
             HChaCha words, counters equal the same specification graphs
  block-run  the scalar tails hand every remaining block to the next implementation down (shared with C02)
  shape-eval SIMD block-run drivers with opaque schedule / compression leaves: every block of runs of 0..21 (AVX) / 0..13
             (SSE4.1) blocks is consumed exactly once, in order, by the 8-way, 4-way and scalar leaves
Not decided: block counts beyond the compared runs (the batch / tail loop structure is decided by stride / block-run)."""
import re

from .. import mir, pred, rules, facts as F
from ..mir import fmt, walk, const_val
from ..spec import hashes as H
from . import C03

EXPLANATION = __doc__
TECHNIQUE = "value-graph equality (abstract interpretation of MIR in a hash-consed bit-level term domain with linear-combination, parity and truth-table normal forms) against specification graphs; R-BUILD type checks per configuration, dispatcher wiring per configuration, loop-guard / slice-advance constant agreement, shift-pair census, ADT layout facts, argument provenance of aligned-access intrinsics; bounded shape evaluation (concrete offsets / lengths derived from the code's own length constants, symbolic contents, opaque recorded leaf calls) of the buffering loops (SIMD block-run drivers)"


def cn(fn, op):
    return pred.canon(fn.expr(op), fn)


def check_dispatch(ctx, progs):
    want = {"K0": "reference", "K3": "sse41", "K4": "avx", "K5": "avx"}
    for k, P in progs.items():
        if k not in want:
            continue
        fn = P.fn_opt("hashing::sha2::impl256::digest_block")
        if fn is None:
            ctx.lost("dispatch", "sha256/" + k, "dispatcher not found")
            continue
        live = live_calls(fn)
        tg = [c.name().split("::")[-2] for c in live if c.name().endswith("::digest_block")]
        ctx.check(tg[:1] == [want[k]], "dispatch", "sha256/%s" % k, "impl256::digest_block -> %s in configuration %s" % (want[k], k), "SHA-256 dispatcher reaches %s in %s (expected %s first)" % (tg, k, want[k]), where=fn.where(), key="dispatch:sha256:%s" % k)
    wb = {"K0": "reference", "K3": "reference", "K4": "avx", "K5": "avx2"}
    ws = {"K0": "reference", "K3": "reference", "K4": "avx", "K5": "avx"}
    for k, P in progs.items():
        if k not in wb:
            continue
        for eng, w, nm in (("EngineB", wb, "compress_b"), ("EngineS", ws, "compress_s")):
            fn = P.fn_opt("hashing::blake2::%s::compress" % eng)
            if fn is None:
                ctx.lost("dispatch", "%s/%s" % (eng, k), "compress not found")
                continue
            live = live_calls(fn)
            tg = [c.name().split("::")[-2] for c in live if c.name().endswith("::" + nm)]
            ctx.check(tg[:1] == [w[k]], "dispatch", "%s/%s" % (eng, k), "%s::compress -> %s::%s in %s" % (eng, w[k], nm, k), "blake2 %s::compress reaches %s in %s (expected %s)" % (eng, tg, k, w[k]), where=fn.where(), key="dispatch:%s:%s" % (eng, k))
            for c in live:
                if c.name().endswith("::" + nm):
                    ok = [cn(fn, a) for a in c.args] == ["arg1.h", "arg1.t", "arg2", "arg3"]
                    ctx.check(ok, "dispatch", "%s/%s:args" % (eng, k), "(h, t, buf, last) passed through", "%s::compress passes wrong arguments to %s" % (eng, c.name()), where=fn.where(), key="dispatch:%s:%s:args" % (eng, k))
                    break
    for k, P in progs.items():
        eng = "chacha::reference" if k == "K6" else "chacha::sse2"
        fn = P.fn_opt("chacha20::ChaCha::<ROUNDS>::update")
        if fn is None:
            continue
        used = {c.name().split("::State")[0] for c in fn.calls() if "::State::<ROUNDS>::" in c.name() or "State<ROUNDS> as" in c.name()}
        used = {u.replace("<", "").split(" as")[0] for u in used}
        ctx.check(all(eng in u for u in used) and used, "dispatch", "chacha/%s" % k, "ChaChaEngine = %s in %s" % (eng, k), "ChaCha engine in %s resolves to %s" % (k, used), where=fn.where(), key="dispatch:chacha:%s" % k)


def live_calls(fn):
    """calls reachable when constant branches (`if HAS_AVX`) are pruned"""
    succ = fn.cfg()[0]
    seen = set()
    st = [0]
    out = []
    while st:
        b = st.pop()
        if b in seen:
            continue
        seen.add(b)
        t = fn.term(b)
        outs = succ[b]
        if t[0] == "sw":
            e = fn.expr(t[1])
            if e[0] == "const":
                tgt = t[3]
                for v, bb2 in t[2]:
                    if v == e[1]:
                        tgt = bb2
                outs = [tgt]
        if t[0] == "call":
            out.append(mir.Call(fn, b, t))
        st.extend(outs)
    out.sort(key=lambda c: c.bb)
    return out


def check_stride(ctx, P, mod, lanes, nxt):
    from . import runshape
    ctx.guard("shape-eval", "simd block runs@%s" % P.cfg, lambda: runshape.check(ctx, P, P.cfg, simd_only=True))
    fn = P.fn("hashing::sha2::impl256::%s::digest_block" % mod)
    W = lanes * 64
    # loop guard
    guards = []
    for b in sorted(fn.loop_blocks()):
        t = fn.term(b)
        if t[0] == "sw":
            at = pred.atoms_of(fn.expr(t[1]), True, fn)
            if at and at[0][0] == "le" and len(at[0][1]) == 1 and at[0][1][0][1] == -1 and at[0][1][0][0].startswith("len("):
                guards.append((-at[0][2], at[0][1][0][0]))
    ok = guards == [(W, guards[0][1])] if guards else False
    ctx.check(ok, "stride", "%s:guard" % mod, "batch loop runs while len >= %d" % W, "%s::digest_block's batch loop guard is not `len >= %d`: %s" % (mod, W, guards), where=fn.where(), key="stride:%s:guard" % mod)
    if not guards:
        return
    bvar = re.match(r"len\((.*)\)$", guards[0][1]).group(1)
    # slice advance inside the loop: block = &block[W..]
    adv = []
    bl = None
    for l, nm in fn.dbg.items():
        if "v:" + nm == bvar:
            bl = l
    if bvar == "arg2":
        bl = 2
    for b, e in (rules.var_defs(fn, bl) if bl is not None else []):
        if b in fn.loop_blocks():
            w = rules.window(fn, e)
            adv.append(w)
    ok = len(adv) == 1 and adv[0] is not None and adv[0][0] == bvar and adv[0][1] == ((), W) and adv[0][2] is None
    ctx.check(ok, "stride", "%s:advance" % mod, "the slice advances by exactly %d bytes per batch" % W, "%s::digest_block advances the message by %s per batch, not %d" % (mod, adv, W), where=fn.where(), key="stride:%s:advance" % mod)
    # schedule + compress on the current slice, inside the loop
    body_calls = [c for c in fn.calls() if c.bb in fn.loop_blocks() and c.local]
    names = [c.name().split("::")[-1] for c in body_calls]
    ok = names == ["message_schedule_%dways" % lanes, "compress_%dways" % lanes] and pred.canon(fn.expr(body_calls[0].args[1]), fn) == bvar and cn(fn, body_calls[1].args[0]) == "arg1"
    ctx.check(ok, "stride", "%s:body" % mod, "per batch: schedule(current slice) then compress(state)", "%s::digest_block's batch body is not schedule + compress on the current slice: %s" % (mod, names), where=fn.where(), key="stride:%s:body" % mod)
    # tail: exactly one call to the next narrower implementation with the remaining slice
    tails = [c for c in fn.calls() if c.bb not in fn.loop_blocks() and c.local]
    ok = len(tails) == 1 and tails[0].name() == "hashing::sha2::impl256::%s::digest_block" % nxt and cn(fn, tails[0].args[0]) == "arg1" and cn(fn, tails[0].args[1]) == bvar and (rules.every_ret_path_passes(fn, [tails[0].bb]) or pred.A("le", -1, **{"len(%s)" % bvar: -1}) in pred.facts_at(fn, tails[0].bb))
    ctx.check(ok, "stride", "%s:tail" % mod, "the remainder goes exactly once to %s::digest_block" % nxt, "%s::digest_block does not hand the remaining blocks exactly once to %s::digest_block (a tail processed twice or skipped): %s" % (mod, nxt, [(c.name().split('impl256::')[-1], cn(fn, c.args[1]) if len(c.args) > 1 else None) for c in tails]), where=fn.where(), key="stride:%s:tail" % mod)
    # no other slice arithmetic on the message (masking / split_at / chunks)
    other = [c.name() for c in fn.calls() if re.search(r"split_at|chunks|::get\b|split_first", c.name())]
    ctx.check(not other, "stride", "%s:plain-loop" % mod, "no other partitioning of the message", "%s::digest_block partitions the message with %s" % (mod, other), where=fn.where(), key="stride:%s:partition" % mod)


def check_gather(ctx, P, mod, lanes):
    g = P.fn("hashing::sha2::impl256::%s::gather" % mod)
    offs = sorted(const_val(c.args[1]) for c in g.calls() if c.name().endswith("<impl *const T>::add") and c.args[1][0] == "k")
    ctx.check(offs == [16 * i for i in range(1, lanes)], "gather", "%s::gather" % mod, "lane i reads the word at +64 i bytes (i32 offsets 16 i)", "%s::gather reads lanes at i32 offsets %s (expected multiples of 16 up to %d)" % (mod, offs, 16 * (lanes - 1)), where=g.where(), key="gather:%s:lanes" % mod)
    ms = P.fn("hashing::sha2::impl256::%s::message_schedule_%dways" % (mod, lanes))
    gc = [c for c in ms.calls() if c.name().endswith("::gather")]
    offs = []
    for c in gc:
        e = ms.expr(c.args[0])
        o = 0
        for x in walk(e):
            if x[0] == "call" and x[1].endswith("<impl *const T>::add") and x[2][1][0] == "const":
                o = x[2][1][1]
        offs.append(o)
    ctx.check(offs == [4 * j for j in range(16)], "gather", "%s::schedule" % mod, "word j is gathered from byte offset 4 j", "%s message schedule gathers words from byte offsets %s" % (mod, offs), where=ms.where(), key="gather:%s:words" % mod)
    # byte swap mask
    setc = [c for c in ms.calls() if re.search(r"_mm(256)?_set_epi8$", c.name())]
    ok = len(setc) == 1
    if ok:
        vals = [const_val(a) for a in setc[0].args]
        n = len(vals)
        # _mm_set_epi8(e15..e0): result byte k = vals[n-1-k]; per-lane reversal: byte k -> 4*(k//4) + 3 - k%4
        ok = n == 4 * lanes and all(vals[n - 1 - k] == 4 * (k // 4) + 3 - (k % 4) for k in range(n))
    ctx.check(ok, "gather", "%s::bswap" % mod, "the shuffle mask reverses the bytes of every 32-bit lane (big-endian load)", "%s byte-swap mask is not the per-lane byte reversal" % mod, where=ms.where(), key="gather:%s:bswap" % mod)
    sh = [c for c in ms.calls() if re.search(r"_mm(256)?_shuffle_epi8$", c.name())]
    ctx.check(len(sh) == 16, "gather", "%s::bswap-all" % mod, "all 16 words are byte-swapped", "%s does not byte-swap all 16 message words (%d)" % (mod, len(sh)), where=ms.where(), key="gather:%s:bswap-all" % mod)


def check_sigma(ctx, P, mod, pfx):
    want = {"sigma0": ({(7, 25), (18, 14)}, {3}), "sigma1": ({(17, 15), (19, 13)}, {10})}
    for nm, (pairs, lone) in want.items():
        fn = P.fn("hashing::sha2::impl256::%s::%s" % (mod, nm))
        sr = sorted(int(c.ga[0]) for c in fn.calls() if c.name().endswith(pfx + "_srli_epi32"))
        sl = sorted(int(c.ga[0]) for c in fn.calls() if c.name().endswith(pfx + "_slli_epi32"))
        got_pairs = {(r, l) for r in sr for l in sl if r + l == 32}
        got_lone = {r for r in sr if not any(r + l == 32 for l in sl)}
        xors = len([c for c in fn.calls() if re.search(r"_xor_si(128|256)$", c.name())])
        ctx.check(got_pairs == pairs and got_lone == lone and len(sr) == 3 and len(sl) == 2 and xors == 4, "sigma", "%s::%s" % (mod, nm), "rotr %s and shr %s combined by xor" % (sorted(p[0] for p in pairs), sorted(lone)), "%s::%s does not use the FIPS 180-4 rotations: srli %s slli %s" % (mod, nm, sr, sl), where=fn.where(), key="sigma:%s:%s" % (mod, nm))
    try:
        k = P.const("hashing::sha2::impl256::%s::K32" % mod)
        ctx.check(list(k) == H.K32, "sigma", "%s::K32" % mod, "SIMD K32 equals the SHA-256 constants", "%s::K32 differs from the SHA-256 round constants" % mod, where=P.consts["hashing::sha2::impl256::%s::K32" % mod]["span"], key="sigma:%s:K32" % mod)
    except mir.AnchorLost as e:
        ctx.lost("sigma", "%s::K32" % mod, str(e))


def check_layout(ctx, progs):
    P = progs["K0"]
    for eng in ("EngineB", "EngineS"):
        a = P.adts.get("hashing::blake2::" + eng)
        ok = a is not None and a.get("align", 0) >= 32 and a.get("offsets", [1])[[f["name"] for f in a["variants"][0]["fields"]].index("h")] % 32 == 0
        ctx.check(ok, "layout", eng, "align >= 32 and offset(h) is a multiple of 32", "blake2 %s is not 32-byte aligned with h at an aligned offset (aligned SIMD loads of h would fault): align %s offsets %s" % (eng, a.get("align") if a else None, a.get("offsets") if a else None), where=a["span"] if a else None, key="layout:%s" % eng)
    a = P.adts.get("chacha::sse2::Align128")
    ctx.check(a is not None and a.get("align", 0) >= 16, "layout", "Align128", "Align128 is 16-byte aligned", "chacha::sse2::Align128 is not 16-byte aligned", where=a["span"] if a else None, key="layout:Align128")
    for k in ("K4", "K5"):
        Pk = progs.get(k)
        if Pk is None:
            continue
        for f in Pk.fns.values():
            if not f.path.startswith("hashing::blake2::avx"):
                continue
            for c in f.calls():
                if re.search(r"_mm(256)?_(load|store)_si(128|256)$", c.name()):
                    src = pred.canon(f.expr(c.args[0]), f)
                    hroot = re.search(r"\barg1\b|v:h\b", src) is not None and "arg3" not in src and "v:m" not in src
                    ctx.check(hroot, "layout", "%s:%s@%s" % (k, f.path, c.line), "aligned access addresses the chaining state", "%s uses the aligned intrinsic %s on %s, which is not the 32-byte aligned state h" % (f.path, c.name().split("::")[-1], src[:80]), where=f.where(c.line), key="layout:aligned-access:%s:%s" % (f.path, c.name().split("::")[-1]))


def check_blake2_rot(ctx, progs):
    for k, mods in (("K4", ("avx",)), ("K5", ("avx2",))):
        P = progs.get(k)
        if P is None:
            continue
        for m_ in mods:
            fns = [f for f in P.fns.values() if f.path.startswith("hashing::blake2::%s::" % m_)]
            for width, want, sfx in ((64, {32, 24, 16, 63}, "epi64"), (32, {16, 12, 8, 7}, "epi32")):
                rots = set()
                seen = False
                for f in fns:
                    sr = [int(c.ga[0]) for c in f.calls() if re.search(r"_srli_%s$" % sfx, c.name())]
                    sl = [int(c.ga[0]) for c in f.calls() if re.search(r"_slli_%s$" % sfx, c.name())]
                    for r in sr:
                        if any(r + l == width for l in sl):
                            rots.add(r)
                            seen = True
                    # add(v, v) is a left shift by one: rot63 = srli 63 | (v + v)
                    if sr and not sl and any(re.search(r"_add_%s$" % sfx, c.name()) for c in f.calls()):
                        for r in sr:
                            if r == width - 1:
                                rots.add(r)
                                seen = True
                    for c in f.calls():
                        if re.search(r"_shuffle_epi32$", c.name()) and width == 64 and f.name.startswith("rot"):
                            rots.add(32)
                            seen = True
                    # byte shuffles: decode the mask as a rotation
                    for c in f.calls():
                        if re.search(r"_mm(256)?_setr?_epi8$", c.name()) and f.name.startswith("rot"):
                            vals = [const_val(a) for a in c.args]
                            if "setr" not in c.name():
                                vals = vals[::-1]
                            nb = width // 8
                            lane0 = vals[:nb]
                            if all(v is not None for v in lane0):
                                sh = (lane0[0]) % nb
                                if lane0 == [(sh + i) % nb for i in range(nb)]:
                                    rots.add(8 * sh)
                                    seen = True
                if width == 32 and not any("_s" in f.name or "compress_s" in f.path for f in fns):
                    continue
                if seen:
                    ctx.check(rots <= want and len(rots) >= 3, "blake2-rot", "%s/%s/%d" % (k, m_, width), "SIMD G rotations are among %s" % sorted(want), "blake2 %s (%d-bit lanes) rotates by %s, not %s" % (m_, width, sorted(rots), sorted(want)), where=fns[0].where() if fns else None, key="blake2-rot:%s:%d" % (m_, width))


def run(ctx):
    progs = {}
    cfgs = ["K0", "K3", "K4", "K5", "K6"]
    for k in cfgs:
        try:
            progs[k] = ctx.prog(k)
            ctx.ok("R-BUILD", k, "configuration %s (%s) type-checks" % (k, F.CONFIGS[k]["name"]))
        except F.ExtractError as e:
            ctx.fail("R-BUILD", k, "the crate does not type-check in configuration %s (%s): %s" % (k, F.CONFIGS[k]["name"], e.log[-400:]), key="build:%s" % k)
    ctx.guard("dispatch", "all", lambda: check_dispatch(ctx, progs))
    if "K3" in progs:
        ctx.guard("stride", "sse41", lambda: check_stride(ctx, progs["K3"], "sse41", 4, "reference"))
        ctx.guard("gather", "sse41", lambda: check_gather(ctx, progs["K3"], "sse41", 4))
        ctx.guard("sigma", "sse41", lambda: check_sigma(ctx, progs["K3"], "sse41", "_mm"))
    if "K4" in progs:
        ctx.guard("stride", "avx", lambda: check_stride(ctx, progs["K4"], "avx", 8, "sse41"))
        ctx.guard("stride", "sse41/K4", lambda: check_stride(ctx, progs["K4"], "sse41", 4, "reference"))
        ctx.guard("gather", "avx", lambda: check_gather(ctx, progs["K4"], "avx", 8))
        ctx.guard("sigma", "avx", lambda: check_sigma(ctx, progs["K4"], "avx", "_mm256"))
    ctx.guard("layout", "blake2", lambda: check_layout(ctx, progs))
    from . import simdeq
    got = []
    ctx.guard("lane-eq", "blake2", lambda: got.append(simdeq.check_blake2_simd(ctx, progs)))
    ctx.check(got == [6], "floor", "lane-eq", "3 SIMD BLAKE2 compression functions x {final, non-final} compared with RFC 7693 F", "only %s SIMD BLAKE2 comparisons ran" % got, key="floor:lane-eq")
    ctx.guard("blake2-rot", "simd", lambda: check_blake2_rot(ctx, progs))
    # both ChaCha engines against the same specification rules (C03)
    if "K0" in progs:
        P = progs["K0"]
        C03.check_tables(ctx, P, "sse2")
        ctx.guard("keydep", "sse2", lambda: C03.check_sse2_layout(ctx, P))
        ctx.guard("counter", "sse2", lambda: C03.check_counter_engine(ctx, P, "chacha::sse2", "K0"))
        ctx.guard("round-count", "sse2", lambda: C03.check_round_loops(ctx, P, "chacha::sse2", [16, 12, 8, 7]))
    if "K6" in progs:
        P6 = progs["K6"]
        C03.check_tables(ctx, P6, "reference")
        ctx.guard("keydep", "reference", lambda: C03.check_reference_layout(ctx, P6))
        ctx.guard("counter", "reference", lambda: C03.check_counter_engine(ctx, P6, "chacha::reference", "K6"))
        ctx.guard("round-count", "reference", lambda: C03.check_round_loops(ctx, P6, "chacha::reference", [16, 12, 8, 7]))
        ctx.guard("hcore-words", "both", lambda: C03.check_output_ad(ctx, progs.get("K0"), P6))
    from . import C02 as _C02
    if "K0" in progs:
        ctx.guard("block-run", "all", lambda: _C02.check_block_runs(ctx, progs["K0"]))
    for cfg in ("K3", "K4"):
        if cfg in progs:
            ctx.guard("block-run", "simd@" + cfg, lambda cfg=cfg: _C02.check_simd_runs(ctx, progs[cfg], cfg))
    from . import sha2eq
    got3 = []
    ctx.guard("compress-eq", "sha256", lambda: got3.append(sha2eq.check_sha256(ctx, progs, thorough=(ctx.tier == "thorough"))))
    want3 = 7 + (2 if ctx.tier == "thorough" else 0)
    ctx.check(got3 == [want3], "floor", "compress-eq", "%d SHA-256 block-function runs (portable, 4-way SSE4.1 incl. scalar tail, 8-way AVX) equal the FIPS 180-4 compression as value graphs, hence each other" % want3, "only %s SHA-256 comparisons ran (expected %d)" % (got3, want3), key="floor:compress-eq")
    from . import arx
    got2 = []
    ctx.guard("block-eq", "chacha-engines", lambda: got2.append(arx.check_engines(ctx, {k: progs[k] for k in ("K0", "K6", "K3", "K5") if k in progs}, families=("chacha",))))
    want2 = 16 * len([k for k in ("K0", "K6", "K3", "K5") if k in progs])
    ctx.check(got2 == [want2] and want2 >= 32, "floor", "block-eq", "the ChaCha engines of the portable, default, +sse4.1 and +avx2 builds: %d pieces equal the same specification graphs, hence each other" % want2, "only %s ChaCha engine pieces were compared (expected %d)" % (got2, want2), key="floor:block-eq")
    ctx.not_decided += ["block counts beyond the compared runs (the batch / tail loop structure is decided by the stride and block-run rules)", "input alignment independence beyond the aligned-access rule"]
