"""C13 — Ed25519 key generation and signing equal RFC 8032 for every seed and message.

Decided (wiring of the RFC 8032 data flow, as canonical dataflow expressions over the MIR):
  clamp      clamp_scalar forces byte 0 bits 0-2 = 0, byte 31 bit 7 = 0, bit 6 = 1 and leaves every
             other bit; it is applied to SHA-512(seed) in extended_secret and nowhere else is needed
  nonce      r = reduce_wide(SHA-512(az[32..64] || M))
  sign       R = (r B).to_bytes() in sig[0..32]; A in sig[32..64] while hashing;
             hram = reduce_wide(SHA-512(sig[0..64] || M)) computed AFTER both writes;
             S = muladd(hram, a, r) with a = Scalar::from_bytes(az[0..32]); S.to_bytes() in sig[32..64]
  extended   signature_extended is the same pipeline on a caller-supplied extended secret
  keys       keypair = seed || A with A = (a B).to_bytes(); extended_to_public likewise
  exchange   X25519(clamped H(seed)[0..32], (1+y)/(1-y))
  tables     group order limbs M = L and Barrett constant MU = floor(2^512 / L) (64-bit backend)
  muladd     muladd(a,b,c) = add(mul(a,b), c)
  padding    the SHA-512 block padding predicate used by all of the above (shared rule with C01)
  length     the SHA-512 length field (128-bit big-endian bit count after standard_padding(16)), shared with C01
  decode     Fe::from_bytes ignores bit 255 in both backends (exchange decodes the peer key with it)
  sc32       32-bit backend: reduce_from_wide_bytes and muladd read consecutive 21-bit digits, are congruent to the input /
             a*b+c modulo L as polynomial identities (all carries cancel, every fold uses L's digits), keep every
             intermediate within i64 and end in reduced digits packed into consecutive output bits; clamp / sign rules on K2
  fe-use     32-bit backend: every call site of a field operation anywhere in the crate hands it operands built from at most
             three TIGHT values without a carry (the contract fe-bounds proves); nobody outside fe32 touches Fe limbs
Not decided: group law, scalar64 Barrett arithmetic as numbers."""
import re

from .. import mir, pred, rules, ssa, termbits
from ..mir import fmt, walk
from ..spec import curve

EXPLANATION = __doc__
TECHNIQUE = "interval abstract interpretation over ssa terms with exact carry/remainder relations and trace partitioning on carries (inductive limb-bound invariants, overflow-assert discharge); limb-polynomial congruence modulo L; bit provenance; canonical dataflow expressions of resolved calls (wiring), dominance ordering of buffer writes vs. hashing, known-bits of the clamp, evaluated constants vs. oracle; level (type-state) dataflow over every fe32 operation call site of the crate against the proved 3xTIGHT operand contract, who-may-access rule for Fe limbs"

H = "Context512::finalize(Context512::update(Context512::update(Sha512::new(),%s),%s))"
H1 = "Context512::finalize(Context512::update(Sha512::new(),%s))"


def calls_short(fn):
    out = []
    for c in fn.calls():
        out.append((c, pred.short(("call", c.name(), tuple(fn.expr(a) for a in c.args), (c.bb,)), fn)))
    return out


def has_call(cs, s):
    return [c for c, d in cs if d == s]


def check_clamp(ctx, P):
    fn = P.fn("ed25519::clamp_scalar")
    r = ssa.Eval(P, fn).run()
    mem = r.mem_at_ret
    B = termbits.Bits(termbits.byte_leaf({"arg1"}))
    want = {0: [0, 0, 0] + [("arg1", j) for j in range(3, 8)], 31: [("arg1", 248 + j) for j in range(6)] + [1, 0]}
    got = {}
    for k, v in mem.items():
        m = re.match(r"^arg1\[(\d+)\]$", k)
        if m:
            got[int(m.group(1))] = B.bits(v, 8)
    ctx.check(got == want, "clamp", "ed25519::clamp_scalar", "byte 0 &= 248; byte 31 = (b & 63) | 64; nothing else written", "clamp_scalar does not force exactly the RFC 8032 bits: %s" % {k: termbits.show(v) for k, v in got.items()}, where=fn.where(), key="clamp:ed25519::clamp_scalar")
    es = P.fn("ed25519::extended_secret")
    cs = calls_short(es)
    ok = bool(has_call(cs, H1 % "arg1")) and bool(has_call(cs, "clamp_scalar(v:hash_output)")) and pred.short(es.local_expr(0), es) == "v:hash_output"
    if ok:
        hv = es.local_expr(0)[1]
        defs = rules.var_defs(es, hv)
        ok = len(defs) == 1 and pred.short(defs[0][1], es) == H1 % "arg1"
        cc = has_call(cs, "clamp_scalar(v:hash_output)")[0]
        ok = ok and rules.every_ret_path_passes(es, [cc.bb])
    ctx.check(ok, "wire", "ed25519::extended_secret", "extended secret = clamp(SHA-512(seed))", "extended_secret is not clamp_scalar applied to SHA-512(seed)", where=es.where(), key="wire:ed25519::extended_secret")
    sc = P.fn("ed25519::extended_scalar")
    ctx.check(pred.short(sc.local_expr(0), sc) == "Scalar::from_bytes(arg1[0..32])", "wire", "ed25519::extended_scalar", "a = Scalar::from_bytes(es[0..32])", "extended_scalar does not read es[0..32]: %s" % pred.short(sc.local_expr(0), sc), where=sc.where(), key="wire:ed25519::extended_scalar")
    sb = P.fn("ed25519::extended_scalar_bytes")
    ctx.check(pred.short(sb.local_expr(0), sb) == "arg1[0..32]", "wire", "ed25519::extended_scalar_bytes", "es[0..32]", "extended_scalar_bytes does not return es[0..32]", where=sb.where(), key="wire:ed25519::extended_scalar_bytes")


def check_nonce(ctx, P):
    fn = P.fn("ed25519::signature_nonce")
    want = "Scalar::reduce_from_wide_bytes(%s)" % (H % ("arg1[32..64]", "arg2"))
    got = pred.short(fn.local_expr(0), fn)
    ctx.check(got == want, "wire", "ed25519::signature_nonce", "r = reduce(SHA-512(prefix || M)), prefix = es[32..64]", "signature_nonce is not reduce_from_wide_bytes(SHA-512(es[32..64] || message)): %s" % got, where=fn.where(), key="wire:ed25519::signature_nonce")


def check_signature(ctx, P, path, az, pub_src):
    fn = P.fn(path)
    cs = calls_short(fn)
    nonce = "signature_nonce(%s,arg1)" % az
    R = "Ge::to_bytes(Ge::scalarmult_base(%s))" % nonce
    hram = "Scalar::reduce_from_wide_bytes(%s)" % (H % ("v:signature", "arg1"))
    S = "Scalar::to_bytes(muladd(%s,extended_scalar(%s),%s))" % (hram, az, nonce)
    wR = has_call(cs, "copy_from_slice(v:signature[0..32],%s)" % R)
    wA = has_call(cs, "copy_from_slice(v:signature[32..64],%s)" % pub_src)
    wS = has_call(cs, "copy_from_slice(v:signature[32..64],%s)" % S)
    ctx.check(len(wR) == 1, "sign-wire", path + ":R", "sig[0..32] = (r B).to_bytes(), r = nonce(az, M)", "%s does not write R = scalarmult_base(signature_nonce(%s, message)).to_bytes() into sig[0..32]" % (path, az), where=fn.where(), key="sign-wire:%s:R" % path)
    ctx.check(len(wA) == 1, "sign-wire", path + ":A", "sig[32..64] = A while hashing", "%s does not place the public key in sig[32..64] for the hash" % path, where=fn.where(), key="sign-wire:%s:A" % path)
    ctx.check(len(wS) == 1, "sign-wire", path + ":S", "sig[32..64] = muladd(hram, a, r).to_bytes() with hram = reduce(SHA-512(sig || M))", "%s does not compute S = muladd(hram, a, r) with these operand roles / hram = reduce(SHA-512(R || A || M)): found %s" % (path, [d[:200] for c, d in cs if d.startswith("copy_from_slice(v:signature[32..64],Scalar")]), where=fn.where(), key="sign-wire:%s:S" % path)
    hs = has_call(cs, "Context512::update(Sha512::new(),v:signature)")
    ok = len(hs) == 1 and len(wR) == 1 and len(wA) == 1 and len(wS) == 1
    if ok:
        ok = fn.dominates(wR[0].bb, hs[0].bb) and fn.dominates(wA[0].bb, hs[0].bb) and fn.dominates(hs[0].bb, wS[0].bb) and wR[0].bb != hs[0].bb
        # no other write to the signature buffer between the A write and the hash
        sigv = [x[1] for x in walk(fn.local_expr(0)) if x[0] == "var"]
        others = [c for c, d in cs if d.startswith("copy_from_slice(v:signature") and c not in (wR[0], wA[0], wS[0])]
        ok = ok and not others and pred.short(fn.local_expr(0), fn) == "v:signature"
    ctx.check(ok, "sign-order", path, "R and A are in place before the buffer is hashed; S overwrites A afterwards; the buffer is returned", "%s hashes the signature buffer at the wrong time (R || A must be complete before hashing, S written after)" % path, where=fn.where(), key="sign-order:%s" % path)
    # zero initialised 64-byte buffer
    sv = fn.local_expr(0)
    if sv[0] == "var":
        defs = rules.var_defs(fn, sv[1])
        ctx.check(any(e[0] == "rep" and e[2] == 64 for b, e in defs), "sign-wire", path + ":buffer", "64-byte signature buffer", "%s does not build a 64-byte signature" % path, where=fn.where())


def check_keys(ctx, P):
    fn = P.fn("ed25519::extended_to_public")
    got = pred.short(fn.local_expr(0), fn)
    ctx.check(got == "Ge::to_bytes(Ge::scalarmult_base(extended_scalar(arg1)))", "wire", "ed25519::extended_to_public", "A = (a B).to_bytes()", "extended_to_public is not scalarmult_base(extended_scalar(es)).to_bytes(): %s" % got, where=fn.where(), key="wire:ed25519::extended_to_public")
    kp = P.fn("ed25519::keypair")
    cs = calls_short(kp)
    A = "extended_to_public(extended_secret(arg1))"
    ok = bool(has_call(cs, "copy_from_slice(v:output[0..32],arg1)")) and bool(has_call(cs, "copy_from_slice(v:output[32..64],%s)" % A))
    ret = pred.short(kp.local_expr(0), kp)
    ok = ok and ret == "agg:tuple(v:output,%s)" % ("ed25519::" + A) or (ok and ret.replace("ed25519::", "") == "agg:tuple(v:output,%s)" % A)
    ctx.check(ok, "wire", "ed25519::keypair", "keypair = seed || A, public key = A = extended_to_public(extended_secret(seed))", "keypair layout is not (seed || A, A): %s" % ret, where=kp.where(), key="wire:ed25519::keypair")
    for nm, rng in (("keypair_private", "arg1[0..32]"), ("keypair_public", "arg1[32..64]")):
        f = P.fn("ed25519::" + nm)
        ctx.check(pred.short(f.local_expr(0), f) == rng, "wire", "ed25519::" + nm, rng, "%s does not return %s" % (nm, rng), where=f.where(), key="wire:ed25519::%s" % nm)
    ex = P.fn("ed25519::exchange")
    got = pred.short(ex.local_expr(0), ex)
    want = "curve25519(extended_scalar_bytes(extended_secret(arg2)),Fe::to_bytes(edwards_to_montgomery_x(Fe::from_bytes(arg1))))"
    ctx.check(got == want, "wire", "ed25519::exchange", "X25519(H(seed)[0..32] clamped, u(y))", "exchange is not curve25519(extended_scalar_bytes(extended_secret(sk)), montgomery_u(pk)): %s" % got, where=ex.where(), key="wire:ed25519::exchange")
    em = P.fn("ed25519::edwards_to_montgomery_x")
    got = pred.short(em.local_expr(0), em)
    one = "K(('0',(1,0,0,0,0)),)"
    want = "Mul::mul(Add::add(%s,arg1),Fe::invert(Sub::sub(%s,arg1)))" % (one, one)
    ctx.check(got == want, "wire", "ed25519::edwards_to_montgomery_x", "u = (1 + y) * (1 - y)^-1", "edwards_to_montgomery_x is not (1+y)/(1-y): %s" % got, where=em.where(), key="wire:ed25519::edwards_to_montgomery_x")


def check_tables(ctx, P):
    M = P.const("curve25519::scalar::scalar64::M")
    MU = P.const("curve25519::scalar::scalar64::MU")
    ctx.check(list(M) == curve.scalar64_limbs(curve.L), "table", "scalar64::M", "M = L (five 56-bit limbs)", "scalar64::M is not the group order L", where=P.consts["curve25519::scalar::scalar64::M"]["span"], key="table:scalar64::M")
    ctx.check(list(MU) == curve.scalar64_limbs(curve.MU), "table", "scalar64::MU", "MU = floor(2^512 / L)", "scalar64::MU is not floor(2^512 / L)", where=P.consts["curve25519::scalar::scalar64::MU"]["span"], key="table:scalar64::MU")
    ma = P.fn("curve25519::scalar::scalar64::muladd")
    got = pred.short(ma.local_expr(0), ma)
    ctx.check(got == "add(mul(arg1,arg2),arg3)", "wire", "scalar64::muladd", "muladd(a,b,c) = add(mul(a,b), c)", "muladd is not a*b + c: %s" % got, where=ma.where(), key="wire:scalar64::muladd")


def run(ctx):
    P = ctx.prog("K0")
    ctx.guard("clamp", "ed25519", lambda: check_clamp(ctx, P))
    ctx.guard("wire", "nonce", lambda: check_nonce(ctx, P))
    ctx.guard("sign", "signature", lambda: check_signature(ctx, P, "ed25519::signature", "extended_secret(keypair_private(arg2))", "keypair_public(arg2)"))
    ctx.guard("sign", "signature_extended", lambda: check_signature(ctx, P, "ed25519::signature_extended", "arg2", "extended_to_public(arg2)"))
    ctx.guard("wire", "keys", lambda: check_keys(ctx, P))
    ctx.guard("table", "scalar64", lambda: check_tables(ctx, P))
    from . import C01
    ctx.guard("padding", "sha512", lambda: C01.check_standard_padding(ctx, P))
    ctx.guard("length-field", "md", lambda: C01.check_length_fields(ctx, P))
    from . import sha2eq
    got4 = []
    ctx.guard("compress-eq", "sha512", lambda: got4.append(sha2eq.check_other(ctx, {"K0": P}, only=("sha512",))))
    ctx.check(got4 == [2], "floor", "compress-eq-sha512", "SHA-512's block function over 1 and 2 blocks equals FIPS 180-4 as a value graph", "only %s SHA-512 comparisons ran" % got4, key="floor:compress-eq-sha512")
    # SHA-512 is fed in pieces (prefix, message; R, A, message): the engine must hand every piece to its block buffer exactly
    # once and the buffer must absorb it for every split (rule instances shared with C02)
    from . import C02 as _C02
    ctx.guard("delegate", "md engines", lambda: _C02.check_delegate(ctx, P))
    ctx.guard("absorb", "FixedBuffer", lambda: _C02.check_absorb(ctx, P))
    from . import C15, C12, sc32, febounds
    ctx.guard("scalar", "scalar64", lambda: C15.check_scalar64(ctx, P))
    # exchange() decodes the peer's public key with Fe::from_bytes (bit 255 = sign bit must be ignored), and the whole
    # signing path exists twice: the 32-bit backend is decided on its own MIR (K2)
    ctx.guard("decode", "fe64::from_bytes", lambda: C12.check_from_bytes64(ctx, P))
    P2 = ctx.prog("K2")
    ctx.guard("decode32", "fe32::from_bytes", lambda: sc32.check_decode32(ctx, P2))
    ctx.guard("sc", "scalar32::reduce", lambda: sc32.check_scalar32(ctx, P2, "reduce"))
    ctx.guard("sc", "scalar32::muladd", lambda: sc32.check_scalar32(ctx, P2, "muladd"))
    # signing multiplies the base point in the 32-bit backend too: its field operations carry lazily, so the group code
    # must respect the operand contracts at every call site (fe-bounds + fe-use, shared with C15 / C17 / C20)
    ctx.guard("fe-bounds", "fe32", lambda: febounds.check_fe32(ctx, P2, "K2"))
    ctx.guard("clamp", "ed25519/K2", lambda: check_clamp(ctx, P2))
    ctx.guard("sign", "signature/K2", lambda: check_signature(ctx, P2, "ed25519::signature", "extended_secret(keypair_private(arg2))", "keypair_public(arg2)"))
    ctx.guard("sign", "signature_extended/K2", lambda: check_signature(ctx, P2, "ed25519::signature_extended", "arg2", "extended_to_public(arg2)"))
    ctx.not_decided += ["group law and fixed-base multiplication values", "scalar64 Barrett reduction / multiply-add as numbers (the scalar32 digit arithmetic is decided: congruence modulo L, bounds, digit decode / encode)", "fixed-base scalar multiplication digit arithmetic"]
