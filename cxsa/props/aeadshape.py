"""Object-level shape evaluation of the ChaCha20-Poly1305 AEAD (RFC 8439 2.8) with the cipher and the MAC as recorded opaque
objects: `ChaCha::new(key, nonce)` yields a keystream object whose `process_mut` / `process` XOR the next keystream bytes
KS[pos..] (fresh symbols by position) into the data; `Poly1305::new(k)` yields a MAC object whose `input` appends to a
transcript and whose `raw_result` returns T(k, transcript) — one family of fresh symbols per (key, transcript).

For every AAD length 0..33 and message length 0..33 (covering all residues mod 16 and one / two MAC blocks), the one-shot
`ChaChaPoly1305::new(key, nonce, aad).encrypt(pt, ct, tag)` must deliver
    ct[i]  = pt[i] ^ KS[64 + i]                                  (block 0 of the keystream is spent on the MAC key)
    tag    = T( KS[0..32],  aad || 0^pad || ct || 0^pad || LE64(|aad|) || LE64(|ct|) )
and the streaming contexts (add_data in pieces, encrypt / encrypt_mut in pieces) the same for every split from a list."""
import re
from .. import simd
from .arx import Box


class Bad(Exception):
    pass


def hooks(B, S):
    def deref(x):
        while isinstance(x, tuple) and x and x[0] == "lref":
            x = x[1][x[2]]
        return x

    def ks(i):
        if i not in S["ks"]:
            S["ks"][i] = B.inp("ks[%d]" % i, 8)
        return S["ks"][i]

    def c_new(m_, f_, c_, a_):
        kc, kb, kn = m_.seq(a_[0])
        nc, nb, nn = m_.seq(a_[1])
        S["cipher_args"].append((tuple(m_.scalar_bits(kc[kb + i], 8) for i in range(kn)), tuple(m_.scalar_bits(nc[nb + i], 8) for i in range(nn))))
        return {"_cipher": [0]}

    def c_mut(m_, f_, c_, a_):
        t = deref(a_[0])
        if not (isinstance(t, dict) and "_cipher" in t):
            raise Bad("process_mut on something that is not the cipher")
        cont, base, n = m_.seq(a_[1])
        pos = t["_cipher"][0]
        for i in range(n):
            cont[base + i] = B.xor(m_.scalar_bits(cont[base + i], 8), ks(pos + i))
        t["_cipher"] = [pos + n]
        return None

    def c_proc(m_, f_, c_, a_):
        t = deref(a_[0])
        if not (isinstance(t, dict) and "_cipher" in t):
            raise Bad("process on something that is not the cipher")
        ic, ib, n = m_.seq(a_[1])
        oc, ob, n2 = m_.seq(a_[2])
        if n != n2:
            raise Bad("process with input and output of different lengths")
        pos = t["_cipher"][0]
        for i in range(n):
            oc[ob + i] = B.xor(m_.scalar_bits(ic[ib + i], 8), ks(pos + i))
        t["_cipher"] = [pos + n]
        return None

    def m_new(m_, f_, c_, a_):
        kc, kb, kn = m_.seq(a_[0])
        return {"_mac": [tuple(m_.scalar_bits(kc[kb + i], 8) for i in range(kn)), (), False]}

    def m_in(m_, f_, c_, a_):
        t = deref(a_[0])
        if not (isinstance(t, dict) and "_mac" in t):
            raise Bad("Mac::input on something that is not the MAC")
        if t["_mac"][2]:
            raise Bad("MAC input after its result was taken")
        cont, base, n = m_.seq(a_[1])
        t["_mac"] = [t["_mac"][0], t["_mac"][1] + tuple(m_.scalar_bits(cont[base + i], 8) for i in range(n)), False]
        return None

    def m_raw(m_, f_, c_, a_):
        t = deref(a_[0])
        if not (isinstance(t, dict) and "_mac" in t):
            raise Bad("Mac::raw_result on something that is not the MAC")
        cont, base, n = m_.seq(a_[1])
        if n < 16:
            raise Bad("raw_result into %d bytes" % n)
        key = (t["_mac"][0], t["_mac"][1])
        if key not in S["tags"]:
            k = len(S["tags"])
            S["tags"][key] = [B.inp("T%d[%d]" % (k, i), 8) for i in range(16)]
        for i in range(16):
            cont[base + i] = S["tags"][key][i]
        t["_mac"] = [t["_mac"][0], t["_mac"][1], True]
        return None
    def clone(m_, f_, c_, a_):
        t = deref(a_[0])
        if not (isinstance(t, dict) and ("_cipher" in t or "_mac" in t)):
            raise Bad("clone of something that is not the cipher / MAC object")
        return simd._copy_value(t)
    rx = re.compile
    return [(rx(r"^<chacha20::ChaCha<ROUNDS> as core::clone::Clone>::clone$"), clone), (rx(r"^<poly1305::Poly1305 as core::clone::Clone>::clone$"), clone),
            (rx(r"^chacha20::ChaCha::<ROUNDS>::new$"), c_new), (rx(r"^chacha20::ChaCha::<ROUNDS>::process_mut$"), c_mut), (rx(r"^chacha20::ChaCha::<ROUNDS>::process$"), c_proc),
            (rx(r"^poly1305::Poly1305::new$"), m_new), (rx(r"^<poly1305::Poly1305 as mac::Mac>::input$"), m_in), (rx(r"^<poly1305::Poly1305 as mac::Mac>::raw_result$"), m_raw)]


def spec(B, S, aad, ct):
    z = B.const(0, 8)
    tr = list(aad) + [z] * ((16 - len(aad) % 16) % 16) + list(ct) + [z] * ((16 - len(ct) % 16) % 16)
    tr += [B.const((len(aad) >> (8 * i)) & 0xff, 8) for i in range(8)] + [B.const((len(ct) >> (8 * i)) & 0xff, 8) for i in range(8)]
    return tuple(tr)


def check_encrypt(ctx, P, rule="shape-eval"):
    T = "chacha20poly1305::ChaChaPoly1305::<ROUNDS>"
    new = P.fn_opt(T + "::new")
    enc = P.fn_opt(T + "::encrypt")
    if new is None or enc is None:
        ctx.lost(rule, "ChaChaPoly1305::encrypt", "constructor / encrypt not found")
        return False
    bad = []
    n = 0
    shapes = [(al, ml) for al in list(range(0, 19)) + [31, 32, 33] for ml in list(range(0, 19)) + [31, 32, 33, 64, 65]]
    for al, ml in shapes:
        B = simd.TermBank()
        S = {"ks": {}, "tags": {}, "cipher_args": []}
        key = [B.inp("key[%d]" % i, 8) for i in range(32)]
        nonce = [B.inp("nonce[%d]" % i, 8) for i in range(12)]
        aad = [B.inp("aad[%d]" % i, 8) for i in range(al)]
        pt = [B.inp("pt[%d]" % i, 8) for i in range(ml)]
        out = {i: B.inp("out0[%d]" % i, 8) for i in range(ml)}
        tag = {i: B.inp("tag0[%d]" % i, 8) for i in range(16)}
        M = simd.Machine(P, B, 64, {}, maxsteps=800000)
        M.generics = {"ROUNDS": 20}
        M.hooks = hooks(B, S)
        try:
            obj = M.call_fn(new, [("aslice", {i: key[i] for i in range(32)}, 0, 32), Box({i: nonce[i] for i in range(12)}).ref(), ("aslice", {i: aad[i] for i in range(al)}, 0, al)])
            box = Box(obj)
            M.call_fn(enc, [box.ref(), ("aslice", {i: pt[i] for i in range(ml)}, 0, ml), ("aslice", out, 0, ml), ("aslice", tag, 0, 16)])
        except Bad as e:
            bad.append((al, ml, str(e)))
            continue
        except (simd.Unsupported, KeyError, IndexError, TypeError, AttributeError, ValueError) as e:
            bad.append((al, ml, "not evaluable: %s: %s" % (type(e).__name__, str(e)[:120])))
            break
        n += 1
        ks = lambda i: S["ks"].get(i)
        ct = [M.scalar_bits(out[i], 8) for i in range(ml)]
        want_ct = [B.xor(pt[i], S["ks"].setdefault(64 + i, B.inp("ks[%d]" % (64 + i), 8))) for i in range(ml)]
        mackey = tuple(B.xor(B.const(0, 8), S["ks"].setdefault(i, B.inp("ks[%d]" % i, 8))) for i in range(32))
        what = None
        if S["cipher_args"] != [(tuple(key), tuple(nonce))]:
            what = "the cipher is not ChaCha(key, nonce), created once"
        elif ct != want_ct:
            k = [i for i in range(ml) if ct[i] != want_ct[i]][0]
            what = "ciphertext byte %d is not pt[%d] ^ KS[64 + %d]" % (k, k, k)
        else:
            want_tag = S["tags"].get((mackey, spec(B, S, aad, ct)))
            got_tag = [M.scalar_bits(tag[i], 8) for i in range(16)]
            if want_tag is None or got_tag != want_tag:
                what = "the tag is not Poly1305(KS[0..32])(aad || pad || ct || pad || LE64(|aad|) || LE64(|ct|))"
        if what:
            bad.append((al, ml, what))
            if len(bad) > 3:
                break
    ok = not bad and n == len(shapes)
    ctx.check(ok, rule, "ChaChaPoly1305::encrypt", "%d (AAD length, message length) shapes with the cipher and the MAC uninterpreted: ct = pt ^ KS[64..], tag = Poly1305(KS[0..32])(aad || pad || ct || pad || lengths)" % n,
              "ChaChaPoly1305::new + encrypt is not RFC 8439's AEAD construction: (aad length, message length, what) %s" % bad[:3], where=enc.where(), key="%s:ChaChaPoly1305::encrypt" % rule)
    if ok:
        why = "the encryption path (Context::new, add_data, to_encryption, encrypt, finalize_raw, pad16) is decided against RFC 8439 with cipher and MAC uninterpreted (shape-eval)"
        for pre in ("trailer-order", "trailer-wire", "trailer-layout", "pad16"):
            ctx.subsume(pre, why)
    return ok
