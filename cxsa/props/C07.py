"""C07 — AEAD decryption accepts a message only if its tag is the correct one.

Decided: (1) ContextDecryption::finalize returns Match exactly under the comparison of
Tag(finalize_raw(self)) with the caller's tag and MisMatch otherwise; the one-shot decrypt returns
exactly (finalize(Tag(copy of caller's 16 bytes)) == Match) and requires tag.len() == 16;
(2) Tag equality routes through ct_eq on both full [u8;16] arrays; the array ct_eq walks
zip(a.iter(), b.iter()) completely with no early exit, accumulates with OR of XOR differences
only, and returns ct_zero(acc); Choice::is_true is `== 1`; (3) on the decryption path the MAC
covers AAD, pad, ciphertext, pad and both lengths (the C06 absorb/pad/trailer/order rules are
re-evaluated here).
(4) the Poly1305 structural / bounds rules of C05 and the ChaCha engine value graphs of C03 (shared instances).
Not decided: the tag as a number; the word-level ct_zero formula (C18)."""
from . import aead

EXPLANATION = __doc__
TECHNIQUE = "interval abstract interpretation over ssa terms with exact carry/remainder relations and trace partitioning on carries (inductive limb-bound invariants, overflow-assert discharge); MIR branch-fact dominance for the verdict, OR-fold accumulator rule, iterator-coverage rule, call-order and wiring rules on the decryption path"


def run(ctx):
    P = ctx.prog("K0")
    ctx.guard("verdict", "finalize", lambda: aead.check_verdict(ctx, P))
    ctx.guard("verdict", "oneshot", lambda: aead.check_oneshot_verdict(ctx, P))
    ctx.guard("tag-eq", "Tag", lambda: aead.check_tag_eq(ctx, P))
    ctx.guard("cmp", "array", lambda: aead.check_cteq_array(ctx, P))
    from . import ctshape
    ctx.guard("shape-eval", "ct aggregates", lambda: ctshape.check(ctx, P))
    # MAC coverage on the decryption path
    ctx.guard("otk", "Context::new", lambda: aead.check_context_new(ctx, P))
    ctx.guard("count", "add_data", lambda: aead.check_counter(ctx, P, "add_data", "aad_len"))
    ctx.guard("count", "add_encrypted", lambda: aead.check_counter(ctx, P, "add_encrypted", "data_len"))
    ctx.guard("aad-pad", "to_decryption", lambda: aead.check_transition(ctx, P, "to_decryption", "ContextDecryption"))
    ctx.guard("pad16", "pad16", lambda: aead.check_pad16(ctx, P))
    ctx.guard("trailer", "finalize_raw", lambda: aead.check_finalize_raw(ctx, P))
    ctx.guard("mac-order", "dec", lambda: aead.check_mac_sees_ciphertext(ctx, P, "dec"))
    ctx.guard("oneshot", "decrypt", lambda: aead.check_oneshot(ctx, P, "decrypt"))
    # the tag is a Poly1305 tag over a ChaCha keystream: the MAC's structural / bounds rules and the cipher engine's
    # block function (value graphs) are shared rule instances with C05 and C03
    from . import C05 as _C05, arx as _arx
    _C05.check_all(ctx, P)
    _got = []
    ctx.guard("block-eq", "chacha-sse2", lambda: _got.append(_arx.check_engines(ctx, {"K0": P}, families=("chacha",))))
    ctx.check(_got == [16], "floor", "block-eq", "16 pieces of the ChaCha engine of the default build compared with the specification", "only %s ChaCha engine pieces compared" % _got, key="floor:block-eq")
    ctx.not_decided += ["the Poly1305 tag as a number (C05)", "the branch-free zero test `(x | -x) >> 63` as a Boolean function (C18, outside the static family)"]
