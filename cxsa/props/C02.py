"""C02 — hash contexts: any split, clone, reset or reuse gives the one-shot digest.

The property quantifies over call histories; what is decided here is the inductive argument that makes
it true, every step of it read off the MIR:

  absorb     Each buffering routine (FixedBuffer::input for every instantiated N, the four BLAKE2
             update_mut bodies, the sponge's process) is analysed by a path-sensitive abstract
             interpretation over lengths / indices / slice windows (cxsa/stream.py) with a ghost monitor
             (cursor c, pending q).  Proved for every path and, through inferred loop invariants, every
             iteration count: starting from any state with q0 < B (BLAKE2: q0 <= B) the call copies
             input[c..] to buffer[q..] contiguously, compresses the buffer only when exactly one block
             is pending, compresses input blocks directly only when nothing is pending and only in
             whole blocks at the cursor, ends with c == len, pending field == q, and re-establishes the
             precondition.  Hence state after update(a); update(b) == state after update(a ++ b) at the
             level of "which bytes were compressed in which block order and which are pending" - for any
             split, including empty pieces.  BLAKE2 additionally: a block is compressed as non-final
             only while input remains, and a non-empty update leaves q > 0.
  block-run  The functions that receive a run of whole blocks (sha1 digest_blocks, ripemd160
             process_msg_blocks, SHA-256 / SHA-512 reference digest_block) consume it block by block, in
             order, completely (same analysis, no buffer).
  delegate   Every update path hands the caller's whole slice exactly once to its buffering routine,
             and the closure / wrapper chain forwards each run unchanged to the block-run function.
  update     update(self, x) is update_mut(&mut self, x) followed by returning self.
  reset      reset() stores into every field the value new() gives it (term equality of the two
             evaluations); state arrays that are absorbed into (sponge) must be zeroed; only the dead
             bytes of FixedBuffer storage (>= buffer_idx, never read before being written: `absorb` +
             C01 padding rules) are exempt.  BLAKE2: reset / reset_with_key vs new / new_keyed (shared
             keyed-init rules).
  fin-reset  finalize_reset performs finalize's calls, in order, on the same arguments, then reset.
  clone      Clone is derived for every context and engine type and no field holds a reference, raw
             pointer or shared cell: a clone shares no state with the original.
  padding    finalisation overwrites every staging-buffer byte it hands to the compression function (standard_padding
             zero-fills to N / N - rem, sponge pad zeroes between the marker bytes): stale bytes of an earlier split, reset or
             clone cannot reach a digest (shared with C01)
  shape-eval the same loops by bounded shape evaluation (concrete offsets / lengths, symbolic contents, opaque leaves): block
             runs of every driver, the sponge absorb loop for every offset and the boundary lengths; where the for-all-lengths
             rules above cannot recognise a loop shape and this passes, their report is recorded as not decided elsewhere
  legacy     the legacy Digest wrappers reach their hashing context on every path (input / result / reset; shared with C09)
  index-bounds every slice expression / split_at over the tracked windows is provably in bounds (a split that makes update
             panic breaks the property as surely as a wrong digest)
             BLAKE2 update_mut for every pending count and the boundary lengths, increment_counter / compress opaque: the
             first (|S|-1) div B blocks of pending ++ input are compressed in order, the last stays buffered (b2shape.py)
Not decided: the digest values themselves (C01), SIMD lane batching (C16)."""
import re

from .. import mir, pred, rules, ssa, stream
from ..stream import Lin, StreamSpec, Interp
from ..mir import fmt
from . import hashctx

EXPLANATION = __doc__
TECHNIQUE = "path-sensitive abstract interpretation over a linear shape domain (lengths, indices, slice windows) with Houdini-inferred loop invariants and Fourier-Motzkin entailment, ghost stream monitor; term equality of new() vs reset() evaluations; call-sequence and forwarding rules; bounded shape evaluation (concrete offsets / lengths derived from the code's own length constants, symbolic contents, opaque recorded leaf calls) of the buffering loops; legacy Digest wrapper delegation rules"
LEVEL = "proof"


def cn(fn, op):
    return pred.canon(fn.expr(op), fn)


# ------------------------------------------------------------------------------------------ absorb
def run_stream(ctx, P, rule, label, path, **kw):
    fn = P.fn_opt(path)
    if fn is None:
        ctx.lost(rule, label, "%s not found" % path)
        return None
    try:
        it = Interp(P, fn, StreamSpec(**kw)).analyse()
    except stream.Violation as e:
        ctx.fail(rule, label, "%s: the shape analysis could not complete (%s): the buffering code no longer has an analysable form" % (path, e), where=fn.where(), key="%s:%s:analysis" % (rule, label))
        return None
    seen = set()
    by = {}
    for r, text, line in it.oblig:
        by.setdefault(r, 0)
        by[r] += 1
    for r, text, line in it.viol:
        k = (r,)
        if k in seen:
            continue
        seen.add(k)
        ctx.fail(rule, "%s:%s" % (label, r), "%s: %s" % (path, text), where=fn.where(line) if line else fn.where(), key="%s:%s:%s" % (rule, label, r))
    if not it.viol:
        ctx.ok(rule, label, "%d return paths, %d obligations (%s), %d loop invariants" % (it.nret, len(it.oblig), ", ".join("%s x%d" % kv for kv in sorted(by.items())), len(it.loop_invs)), sites=len(it.oblig))
    return it


def fixedbuffer_sizes(P):
    ns = set()
    for a in P.adts.values():
        for v in a["variants"]:
            for f in v["fields"]:
                m = re.search(r"FixedBuffer<(\d+)>", f["t"])
                if m:
                    ns.add(int(m.group(1)))
    return sorted(ns)


def check_absorb(ctx, P):
    ns = fixedbuffer_sizes(P)
    ctx.check(ns == [64, 128], "floor", "FixedBuffer instantiations", "FixedBuffer<64> and FixedBuffer<128> are the instantiations in use", "FixedBuffer is instantiated at %s: table out of date" % ns, key="floor:fixedbuffer")
    for n in ns:
        it = run_stream(ctx, P, "absorb", "FixedBuffer<%d>::input" % n, "cryptoutil::FixedBuffer::<N>::input", buf=("arg1", "buffer"), pend=("arg1", "buffer_idx"), block=Lin.const(n), params={"N": n}, sinks=[(r"FnMut::call_mut$", 1, True)])
        if it is not None and not it.viol:
            kinds = {e[0] for o in [] for e in o}
            ctx.check(it.nret >= 5, "floor", "FixedBuffer<%d>::input paths" % n, "5 feasible return paths (partial fill, fill, fill+direct, direct, tail only)", "only %d return paths analysed" % it.nret, key="floor:fixedbuffer-paths")
    from . import b2shape
    ctx.guard("shape-eval", "blake2 update_mut", lambda: b2shape.check_update(ctx, P))
    for mod, E, B in (("blake2b", "EngineB", 128), ("blake2s", "EngineS", 64)):
        for T in ("Context::<BITS>", "ContextDyn"):
            path = "hashing::%s::%s::update_mut" % (mod, T)
            run_stream(ctx, P, "absorb", "%s::%s::update_mut" % (mod, T), path, buf=("arg1", "buf"), pend=("arg1", "buflen"), block=Lin.const(B), strict=True, sinks=[(E + r"::compress$", 1, False)], paired=[(E + r"::increment_counter$", 1, Lin.const(B))])
            # the compress calls in update_mut are all non-final
            fn = P.fn(path)
            cs = fn.calls_to(E + r"::compress$")
            lastargs = [(fn.expr(c.args[2])[1][3] if fn.expr(c.args[2])[0] == "agg" and len(fn.expr(c.args[2])[1]) > 3 else fmt(fn.expr(c.args[2]))) for c in cs]
            ctx.check(len(cs) == 2 and all(a == "No" for a in lastargs), "absorb", "%s::%s:nonfinal" % (mod, T), "both compress calls pass LastBlock::No", "%s marks a block as final during update: %s" % (path, lastargs), where=fn.where(), key="absorb:%s::%s:nonfinal" % (mod, T))
    run_stream(ctx, P, "absorb", "sha3::Engine::process", "hashing::sha3::Engine::<DIGESTLEN, DSLEN>::process", buf=("arg1", "state"), pend=("arg1", "offset"), block=Lin.sym("rate"), sinks=[(r"sha3::keccak_f$", None, False)], getters={r"Engine::<DIGESTLEN, DSLEN>::rate$": Lin.sym("rate")})
    # the sponge absorbs by XOR (not by overwriting): the element write is state[i] ^= data[j]
    pr = P.fn("hashing::sha3::Engine::<DIGESTLEN, DSLEN>::process")
    xs = []
    for b in sorted(pr.reachable()):
        for s in pr.stmts(b):
            if s[0] == "=" and s[1][1] and s[1][1][-1][0] == "i" and any(isinstance(p, list) and p[0] == "f" and p[2] == "state" for p in s[1][1]):
                xs.append(s)
    ok = len(xs) == 1 and xs[0][2][0] == "bin" and xs[0][2][1] == "BitXor" and xs[0][2][2][0] in ("cp", "mv") and xs[0][2][2][1] == xs[0][1]
    from . import spongeshape
    ctx.guard("shape-eval", "sha3::Engine::process", lambda: spongeshape.check_process(ctx, P, thorough=getattr(ctx, "tier", "quick") == "thorough"))
    ctx.check(ok, "absorb", "sha3:xor", "state[k] = state[k] ^ data[j]", "the sponge no longer XORs input into its state", where=pr.where(), key="absorb:sha3:xor")


BLOCK_RUNS = {
    "hashing::sha1::digest_blocks": dict(data="arg2", block=Lin.const(64), sinks=[(r"sha1::digest_block$", 1, False)]),
    "hashing::ripemd160::process_msg_blocks": dict(data="arg1", block=Lin.const(64), sinks=[(r"ripemd160::process_msg_block$", 0, False)]),
    "hashing::sha2::impl256::reference::digest_block": dict(data="arg2", block=Lin.const(64), sinks=[(r"reference::digest_block_u32$", 1, False)]),
    "hashing::sha2::impl512::reference::digest_block": dict(data="arg2", block=Lin.const(128), sinks=[(r"cryptoutil::read_u64v_be$", 1, False)], follow=[(r"read_u64v_be$", r"reference::digest_block_u64$")]),
}
# SIMD batch loops (configurations with the target feature enabled): a batch function reads a fixed prefix
SIMD_RUNS = {
    "hashing::sha2::impl256::sse41::digest_block": dict(data="arg2", block=Lin.const(64), sinks=[(r"sse41::message_schedule_4ways$", 1, 256), (r"impl256::reference::digest_block$", 1, True)], follow=[(r"message_schedule_4ways$", r"sse41::compress_4ways$")]),
    "hashing::sha2::impl256::avx::digest_block": dict(data="arg2", block=Lin.const(64), sinks=[(r"avx::message_schedule_8ways$", 1, 512), (r"impl256::sse41::digest_block$", 1, True)], follow=[(r"message_schedule_8ways$", r"avx::compress_8ways$")]),
}
# SIMD dispatchers whose stride / tail discipline is C16's subject
BLOCK_RUNS_ELSEWHERE = (r"hashing::sha2::impl256::(sse41|avx)::digest_block$",)


def check_block_runs(ctx, P, cfg=None):
    from . import runshape
    cfg = cfg or getattr(P, "cfg", "K0")
    got = []
    ctx.guard("shape-eval", "block runs@%s" % cfg, lambda: got.append(runshape.check(ctx, P, cfg, scalar_only=True)))
    ctx.check(got == [4], "floor", "shape-eval:block-runs@%s" % cfg, "4 scalar block-run drivers decided by shape evaluation", "only %s scalar block-run drivers decided by shape evaluation" % got, key="floor:shape-eval:block-runs@%s" % cfg)
    for path, kw in BLOCK_RUNS.items():
        run_stream(ctx, P, "block-run", path, path, **kw)


def check_simd_runs(ctx, P, cfg):
    n = 0
    from . import runshape
    ctx.guard("shape-eval", "simd block runs@%s" % cfg, lambda: runshape.check(ctx, P, cfg, simd_only=True))
    for path, kw in SIMD_RUNS.items():
        if P.fn_opt(path) is not None:
            n += 1
            run_stream(ctx, P, "block-run", "%s@%s" % (path, cfg), path, **kw)
    top = P.fn("hashing::sha2::impl256::digest_block")
    chain, err = forward_chain(P, top, "arg2")
    ctx.check(err is None, "delegate", "impl256::digest_block@" + cfg, "dispatch forwards (state, run) unchanged to %s" % chain[-1].split("impl256::")[-1], "impl256::digest_block (%s): %s" % (cfg, err), where=top.where(), key="delegate:impl256::digest_block@" + cfg)
    return n


def live_blocks(fn, avoid=None):
    """blocks reachable when branches on constants are pruned (optionally: without passing `avoid`)"""
    succ = fn.cfg()[0]
    seen = set()
    st = [0]
    while st:
        b = st.pop()
        if b in seen or b == avoid:
            continue
        seen.add(b)
        t = fn.term(b)
        outs = succ[b]
        if t[0] == "sw":
            e = fn.expr(t[1])
            if e[0] == "const":
                tgt = t[3]
                for v, bb2 in t[2]:
                    if v == e[1]:
                        tgt = bb2
                outs = [tgt]
        st.extend(outs)
    return seen


def forward_chain(P, fn, data, state_hint=None, limit=6):
    """follow single forwarding calls (whole slice `data` passed on unchanged) until a block-run function"""
    chain = [fn.path]
    for _ in range(limit):
        if fn.path in BLOCK_RUNS or any(re.search(rx, fn.path) for rx in BLOCK_RUNS_ELSEWHERE):
            return chain, None
        from .C16 import live_calls
        loc = [c for c in live_calls(fn) if c.local and not c.name().startswith("core::")]
        if len(loc) != 1:
            return chain, "%s makes %d crate calls (%s), expected exactly one forwarding call" % (fn.path, len(loc), [c.name() for c in loc])
        c = loc[0]
        live_rets = [x for x in live_blocks(fn) if fn.term(x)[0] == "ret"]
        bypass = [x for x in live_blocks(fn, avoid=c.bb) if fn.term(x)[0] == "ret"]
        if c.bb in fn.loop_blocks() or bypass or not live_rets:
            return chain, "%s does not forward on every path exactly once" % fn.path
        idx = [i for i, a in enumerate(c.args) if cn(fn, a) == data]
        if len(idx) != 1:
            return chain, "%s does not pass the run of blocks on unchanged: %s" % (fn.path, [cn(fn, a) for a in c.args])
        nxt = P.fn_opt(c.name())
        if nxt is None:
            return chain, "%s: callee %s has no body" % (fn.path, c.name())
        fn = nxt
        data = "arg%d" % (idx[0] + 1)
        chain.append(fn.path)
    return chain, "forwarding chain too long"


MD_UPDATERS = [("hashing::sha1::Context::update_mut", "h"), ("hashing::ripemd160::Context::update_mut", "h"), ("hashing::sha2::Engine256::input", "state"), ("hashing::sha2::Engine512::input", "state")]


def check_delegate(ctx, P):
    for path, statefld in MD_UPDATERS:
        fn = P.fn(path)
        ins = fn.calls_to(r"FixedBuffer::<N>::input$")
        ok = len(ins) == 1 and rules.every_ret_path_passes(fn, [ins[0].bb]) and ins[0].bb not in fn.loop_blocks()
        if ok:
            a = [cn(fn, x) for x in ins[0].args]
            ok = a[0] == "arg1.buffer" and a[1] == "arg2" and re.match(r"agg:.*\{closure#0\}\(arg1\.%s\)$" % statefld, a[2]) is not None
        ctx.check(ok, "delegate", path, "the whole input goes exactly once to self.buffer.input with a closure over self.%s" % statefld, "%s does not hand its whole input exactly once to its FixedBuffer (with the compression closure over self.%s): %s" % (path, statefld, [[cn(fn, x) for x in c.args] for c in ins]), where=fn.where(), key="delegate:%s" % path)
        cls = P.closures_of(fn)
        if len(cls) != 1:
            ctx.fail("delegate", path + ":closure", "%s has %d closures" % (path, len(cls)), where=fn.where(), key="delegate:%s:closure" % path)
            continue
        chain, err = forward_chain(P, cls[0], "arg2")
        # the state operand of the first link is the captured reference
        first = [c for c in cls[0].calls() if c.local]
        okst = bool(first) and any(cn(cls[0], a) == "arg1.0" for a in first[0].args)
        ctx.check(err is None and okst, "delegate", path + ":chain", "closure -> %s forwards (state, run) unchanged" % " -> ".join(x.split("::")[-2] + "::" + x.split("::")[-1] for x in chain[1:]), "%s: %s" % (path, err or "the closure does not operate on the captured state"), where=cls[0].where(), key="delegate:%s:chain" % path)
    # public wrappers over the engines
    for T in sorted(t for t in contexts(P) if re.match(r"hashing::(sha2|sha3|keccak)::Context", t)):
        fn = P.fn(T + "::update_mut")
        loc = [c for c in fn.calls() if c.local]
        ok = len(loc) == 1 and re.search(r"::(Engine256|Engine512)::input$|sha3::Engine::<DIGESTLEN, DSLEN>::process$", loc[0].name()) is not None and cn(fn, loc[0].args[1]) == "arg2" and cn(fn, loc[0].args[0]) in ("arg1.engine", "arg1.0") and rules.every_ret_path_passes(fn, [loc[0].bb])
        ctx.check(ok, "delegate", T + "::update_mut", "forwards (engine, whole input) exactly once", "%s::update_mut does not forward its whole input once to the engine: %s" % (T, [(c.name(), [cn(fn, a) for a in c.args]) for c in loc]), where=fn.where(), key="delegate:%s::update_mut" % T)


def contexts(P):
    ts = {}
    for f in P.fns.values():
        m = re.match(r"^(hashing::[\w:]+::Context\w*(?:::<BITS>)?|hashing::[\w:]+::ContextDyn)::(new|reset|update_mut|update)$", f.path)
        if m:
            ts.setdefault(m.group(1), set()).add(m.group(2))
    return {t: v for t, v in ts.items() if {"new", "reset", "update_mut", "update"} <= v}


def check_update(ctx, P):
    for T in sorted(contexts(P)):
        u = P.fn(T + "::update")
        um = P.fn(T + "::update_mut")
        loc = [c for c in u.calls() if c.local]
        ok = len(loc) == 1 and rules.every_ret_path_passes(u, [loc[0].bb]) and loc[0].bb not in u.loop_blocks()
        if ok:
            c = loc[0]
            if c.name() == um.path:
                ok = [cn(u, a) for a in c.args] == ["arg1", "arg2"]
            else:
                # same single engine call as update_mut
                ml = [x for x in um.calls() if x.local]
                ok = len(ml) == 1 and ml[0].name() == c.name() and [cn(u, a) for a in c.args] == [cn(um, a) for a in ml[0].args]
        # returns self
        rets = []
        for b in sorted(u.reachable()):
            for s in u.stmts(b):
                if s[0] == "=" and s[1] == [0, []]:
                    rets.append(s[2])
        okr = len(rets) == 1 and rets[0][0] == "use" and rets[0][1][0] in ("mv", "cp") and rets[0][1][1] == [1, []]
        ctx.check(ok and okr, "update", T, "update(self, x) = { update_mut(&mut self, x); self }", "%s::update is not update_mut followed by returning self: calls %s, returns %s" % (T, [(c.name(), [cn(u, a) for a in c.args]) for c in loc], rets), where=u.where(), key="update:%s" % T)


# ------------------------------------------------------------------------------------------ reset == new
def flat(v, pfx, out):
    if isinstance(v, ssa.Agg) and v.get("_k") == "adt":
        for k, x in v.items():
            if isinstance(k, str) and k.startswith("_"):
                continue
            flat(x, pfx + "." + str(k), out)
    else:
        out[pfx] = ssa.freeze(v)
    return out


def zero_fill(v):
    return isinstance(v, tuple) and ("_k", "array") in v and ("_fill", ("c", 0, "u8")) in v


def check_reset(ctx, P):
    n = 0
    for T in sorted(contexts(P)):
        if "blake2" in T:
            continue
        nf, rf = P.fn(T + "::new"), P.fn(T + "::reset")
        rn = ssa.Eval(P, nf, inline=lambda nm: True).run()
        rr = ssa.Eval(P, rf, inline=lambda nm: True).run()
        fnew = flat(rn.ret, "arg1", {})
        fres = {}
        for k, v in rr.mem_at_ret.items():
            flat(v, k, fres)
        zeroed = set()
        for c in rr.calls:
            if c[1] == "cryptoutil::zero" or c[1].endswith("<impl [T]>::fill"):
                a = c[2][0]
                if isinstance(a, tuple) and a and a[0] == "ref" and a[1] == ("ext", "arg1") and (len(a) < 4 or a[3] is None or a[3] == (("c", 0, "usize"), None)):
                    zeroed.add("arg1" + "".join("." + str(p[1]) for p in a[2] if isinstance(p, tuple) and p[0] == "f"))
        bad = []
        for k in sorted(fnew):
            if fres.get(k) == fnew[k]:
                continue
            if zero_fill(fnew[k]) and k in zeroed:
                continue
            if k.endswith(".buffer.buffer") and k not in fres and zero_fill(fnew[k]):
                continue  # FixedBuffer storage: bytes at or above buffer_idx are dead (absorb + padding rules)
            bad.append((k, str(fres.get(k))[:60]))
        extra = [k for k in fres if k not in fnew]
        n += len(fnew)
        ctx.check(not bad and not extra and len(fnew) >= 4, "reset", T, "reset() writes new()'s value into each of the %d state fields" % len(fnew), "%s::reset does not restore the state of new(): %s%s" % (T, ["%s (reset leaves %s)" % b for b in bad], (" extra " + str(extra)) if extra else ""), where=rf.where(), key="reset:%s" % T)
    ctx.check(n >= 60, "floor", "reset fields", "%d fields compared" % n, "only %d fields compared" % n, key="floor:reset-fields")
    hashctx.check_all_blake2_keyed(ctx, P)


def check_fin_reset(ctx, P):
    cnt = 0
    twins = set()
    for T in sorted(contexts(P)):
        if "blake2" in T:
            pairs = []
            base = T.replace("::<BITS>", "")
            for f in P.fns.values():
                m = re.match(r"^%s(?:::<\w+>)?::(finalize_reset(?:_with_key)?(?:_at)?)$" % re.escape(base), f.path)
                if m:
                    nm = m.group(1)
                    plain = nm.replace("_reset_with_key", "").replace("_reset", "")
                    pf = P.fn_opt(f.path[: -len(nm)] + plain)
                    if pf is not None:
                        pairs.append((pf, f, "reset_with_key" if "with_key" in nm else "reset"))
        else:
            pairs = [(P.fn(T + "::finalize"), P.fn(T + "::finalize_reset"), "reset")]
        for fin, fr, rname in sorted(pairs, key=lambda p: (not p[1].path.endswith("_at"), p[1].path)):
            def seq(fn):
                out = []
                for c in sorted((c for c in fn.calls() if not c.name().startswith("core::panicking")), key=lambda c: fn.rpo().index(c.bb) if c.bb in fn.rpo() else 1 << 30):
                    if fn.diverges(c.bb):
                        continue
                    out.append((c.name(), tuple(cn(fn, a) for a in c.args)))
                return out
            a, b = seq(fin), seq(fr)
            rfn = P.fn_opt(re.sub(r"::[^:]+$", "::" + rname, fr.path)) or P.fn_opt(T + "::" + rname)
            rseq = seq(rfn) if rfn is not None else None
            cnt += 1
            if a == [(fr.path, ("arg1",))]:
                ctx.ok("fin-reset", fr.path, "finalize(self) is finalize_reset(&mut self) on the owned context")
                continue
            twins.add((fin.path, fr.path))
            if rname == "reset_with_key":
                b = [(nm_, tuple(x.replace("arg3", "arg2") for x in ar)) if not nm_.endswith("::reset_with_key") else (nm_, ar) for nm_, ar in b]
            form_a = len(b) == len(a) + 1 and b[:-1] == a and rfn is not None and b[-1][0] == rfn.path and b[-1][1][0] == "arg1"
            form_b = rseq is not None and len(rseq) >= 1 and b[: len(a)] == a and b[len(a):] == rseq
            # wrapper form: same calls, except that the one inner finalize call is replaced by its own _reset twin
            form_c = len(a) == len(b) and sum(1 for x, y in zip(a, b) if x != y) == 1 and all(x == y or ((x[0], y[0]) in twins and x[1][:1] == y[1][:1] and x[1][-1:] == y[1][-1:]) for x, y in zip(a, b))
            ctx.check(form_a or form_b or form_c, "fin-reset", fr.path, "= %s's %d calls in order, then %s" % (fin.path.split("::")[-1], len(a), rname), "%s is not %s followed by %s: %s vs %s" % (fr.path, fin.path.split("::")[-1], rname, [x[0].split("::")[-1] for x in b], [x[0].split("::")[-1] for x in a]), where=fr.where(), key="fin-reset:%s" % fr.path)
    ctx.check(cnt >= 24, "floor", "fin-reset pairs", "%d finalize / finalize_reset pairs compared" % cnt, "only %d pairs compared" % cnt, key="floor:fin-reset")


STATE_TYPES_RX = r"^(hashing::.*(Context\w*|ContextDyn|Engine\w*|Engine)|cryptoutil::FixedBuffer)$"


def check_clone(ctx, P):
    cnt = 0
    for T, adt in sorted(P.adts.items()):
        if not re.match(STATE_TYPES_RX, T):
            continue
        imp = [i for i in P.impls if i.get("trait") == "core::clone::Clone" and i["self_ty"].split("<")[0] == T]
        bad = [f["t"] for v in adt["variants"] for f in v["fields"] if re.search(r"&|\*const|\*mut|Box<|Rc<|Arc<|Cell<|RefCell<", f["t"])]
        if not imp:
            continue
        cnt += 1
        ctx.check(len(imp) == 1 and imp[0]["derived"] and not bad, "clone", T, "Clone is derived; no field holds a reference, raw pointer or shared cell", "Clone for %s is not a derived field-wise copy of owned data (%s)" % (T, bad or "hand-written impl"), where=adt.get("span"), key="clone:%s" % T)
    # every public context type is Clone
    for T in sorted(contexts(P)):
        base = T.replace("::<BITS>", "")
        imp = [i for i in P.impls if i.get("trait") == "core::clone::Clone" and i["self_ty"].split("<")[0] == base]
        ctx.check(len(imp) == 1, "clone", T + ":impl", "implements Clone", "%s does not implement Clone" % T, key="clone:%s:impl" % T)
    ctx.check(cnt >= 20, "floor", "clone types", "%d state types checked" % cnt, "only %d state types found" % cnt, key="floor:clone")


def run(ctx):
    P = ctx.prog("K0")
    ts = contexts(P)
    ctx.check(len(ts) == 20, "floor", "contexts", "20 hash context types (sha1, ripemd160, 6 sha2, 4 sha3, 4 keccak, 4 blake2)", "found %d context types: %s" % (len(ts), sorted(ts)), key="floor:contexts")
    ctx.guard("absorb", "all", lambda: check_absorb(ctx, P))
    ctx.guard("block-run", "all", lambda: check_block_runs(ctx, P))
    ctx.guard("delegate", "all", lambda: check_delegate(ctx, P))
    seen = {}
    for cfg in ("K3", "K4"):
        Pc = ctx.prog(cfg)
        ctx.guard("block-run", "simd@" + cfg, lambda: seen.__setitem__(cfg, check_simd_runs(ctx, Pc, cfg)))
    ctx.check(seen.get("K3") == 1 and seen.get("K4") == 2, "floor", "simd block runs", "sse41 batch loop analysed in K3, sse41 + avx in K4", "SIMD block-run functions analysed per configuration: %s" % seen, key="floor:simd-runs")
    ctx.guard("update", "all", lambda: check_update(ctx, P))
    ctx.guard("reset", "all", lambda: check_reset(ctx, P))
    ctx.guard("fin-reset", "all", lambda: check_fin_reset(ctx, P))
    ctx.guard("clone", "all", lambda: check_clone(ctx, P))
    # the legacy `Digest` objects are hash contexts too: input / result / reset must reach the hashing context they wrap on
    # every path (a reset that only clears the wrapper's flag keeps the bytes already fed) -- rule instances shared with C09
    from . import objects
    for T in sorted(objects.LEGACY):
        if objects.LEGACY[T][1] is not None:
            ctx.guard("legacy", T, lambda: objects.check_legacy_digest(ctx, P, T, "C02"))
    # finalisation must overwrite every staging-buffer byte it hands to the compression function: stale bytes from an
    # earlier split, reset or clone would otherwise leak into the digest (shared rule instances with C01)
    from . import C01 as _C01
    ctx.guard("padding", "standard_padding", lambda: _C01.check_standard_padding(ctx, P))
    ctx.guard("sponge-pad", "sha3", lambda: _C01.check_sponge_pad(ctx, P))
    # the SHA-256 block function of the SIMD builds (a one-shot call batches 4 / 8 blocks, a split call does not): value-graph
    # equality with FIPS 180-4, shared rule instances with C16 / C01
    from . import sha2eq as _sha2eq
    _g3 = []
    ctx.guard("compress-eq", "sha256", lambda: _g3.append(_sha2eq.check_sha256(ctx, {"K0": 1, "K3": 1, "K4": 1})))
    ctx.check(_g3 == [7], "floor", "compress-eq", "6 SHA-256 block-function runs (portable 1, 2; SSE4.1 4, 4+1; AVX 8; SSE4.1 under AVX 4) equal the FIPS 180-4 compression", "only %s SHA-256 comparisons ran" % _g3, key="floor:compress-eq")
    if ctx.tier == "thorough":
        for cfg in ("K1", "K2", "K5"):
            Pc = ctx.prog(cfg)
            ctx.guard("absorb", "all@" + cfg, lambda: check_absorb(ctx, Pc))
            ctx.guard("block-run", "all@" + cfg, lambda: check_block_runs(ctx, Pc))
    ctx.not_decided += ["digest values (C01)", "SIMD batching of block runs (C16)", "Digest-trait objects' sizes and the Mac objects (C08, C09)"]
