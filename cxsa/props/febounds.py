"""Rule `fe-bounds`: limb bounds of the field-element types as a representation invariant, by interval abstract
interpretation of the MIR terms (cxsa/bounds.py).  It discharges the proviso of the limb-polynomial identities
("provided no intermediate operation overflows or truncates") and decides that no overflow assert in the field code can
fire — for every input encoding and every history of operations, in the backend's configuration.

fe64 (radix 2^51, five u64 limbs) — closed-world invariant:
  B = least bound vector such that every producer of an `Fe` (from_bytes, the constants and precomputed tables, add, sub,
  neg, mul, square, square_repeatdly, square_and_double, mul_small, negate_mut) maps limbs within B to limbs within B.
  Under B no overflow assert of any producer or consumer (to_packed / to_bytes / is_negative / is_nonzero) can fire and no
  u128 -> u64 narrowing loses bits.  `Fe`'s limb array is crate-private, so B holds for every value a user can build.

fe32 (radix 2^25.5, ten i32 limbs, ref10 discipline) — contracts:
  TIGHT = bounds of from_bytes / mul / square / mul_small outputs, LOOSE = one add/sub/neg of TIGHT values.  Every
  multiplying operation accepts LOOSE inputs without overflow and returns TIGHT limbs; add/sub/neg of TIGHT inputs stay
  LOOSE; the constants and tables are TIGHT.  (How the group code composes the operations is the separate `fe-use`
  rule.)"""
import re

from .. import ssa, bounds, mir

MAXIT = 16


def const_limb_bounds(P, backend, nl):
    """per-limb [min, max] over every evaluated constant that contains field elements of this backend"""
    lo = [0] * nl
    hi = [0] * nl
    n = 0

    def walk(v):
        nonlocal n
        if isinstance(v, (list, tuple)):
            if len(v) == nl and all(isinstance(x, int) and not isinstance(x, bool) for x in v):
                n += 1
                for i, x in enumerate(v):
                    lo[i] = min(lo[i], x)
                    hi[i] = max(hi[i], x)
                return
            for x in v:
                walk(x)
        elif isinstance(v, dict):
            for x in v.values():
                walk(x)
    for path, c in P.consts.items():
        ty = c.get("ty") or c.get("t") or ""
        if ("fe::%s" % backend) in path or "Fe" in ty or "GePrecomp" in ty or "ge::" in path:
            try:
                walk(P.const(path))
            except Exception:
                pass
    return [(a, b) for a, b in zip(lo, hi)], n


def fe_leaf(binds, other=None):
    """leaf bounds: loads of argN.0[i] -> binds[argN][i]"""
    def leaf(t):
        if t[0] == "load":
            m = re.match(r"^(arg\d)\.0\[(\d+)\]$", t[1])
            if m and m.group(1) in binds:
                return binds[m.group(1)][int(m.group(2))]
            m = re.match(r"^(arg\d)\[(\d+)\]$", t[1])
            if m and m.group(1) in binds:
                return binds[m.group(1)][int(m.group(2))]
        if t[0] == "elem" and isinstance(t[1], tuple) and t[1] and t[1][0] == "load" and isinstance(t[2], int):
            m = re.match(r"^(arg\d)\.0$", t[1][1])
            if m and m.group(1) in binds:
                return binds[m.group(1)][t[2]]
        # (*argN).0[i] read through a whole-value copy: elem(elem(load argN, "0"), i)
        if t[0] == "elem" and isinstance(t[2], int) and isinstance(t[1], tuple) and t[1] and t[1][0] == "elem" and t[1][2] == "0" and isinstance(t[1][1], tuple) and t[1][1][0] == "load" and t[1][1][1] in binds:
            return binds[t[1][1][1]][t[2]]
        if other is not None:
            return other(t)
        return None
    return leaf


def fe_outputs(res, nl):
    """limb terms of every Fe the function produces: the return value and/or `*self`"""
    outs = []
    ret = res.ret
    if isinstance(ret, ssa.Agg) and isinstance(ret.get("0"), ssa.Agg) and (ret.get("_adt", "").endswith("::Fe") or "_adt" not in ret):
        # (an Fe built by copying *self and updating limbs in place has no constructor aggregate of its own)
        outs.append(("ret", [ret["0"].get_elem(i) for i in range(nl)]))
    mem = [res.mem_at_ret.get("arg1.0[%d]" % i) for i in range(nl)]
    if all(m is not None for m in mem):
        outs.append(("self", mem))
    return outs


def narrowing_exempt(roots):
    """narrowing casts whose result is immediately masked are intended truncations"""
    ex = set()
    seen, order = set(), []
    for r in roots:
        bounds.subterms(r, seen, order)
    for t in order:
        if t[0] == "bin" and t[1] == "BitAnd":
            for x, m in ((t[2], t[3]), (t[3], t[2])):
                if ssa.is_c(m) and isinstance(x, tuple) and x and x[0] == "cast":
                    ex.add(x)
    return ex


class Op:
    def __init__(self, P, fn, nl, inline, params=None, args=None, tag=""):
        self.fn = fn
        self.tag = tag
        auto = ssa.auto_inline(P, fn)
        self.res = ssa.Eval(P, fn, inline=lambda n: inline(n) or auto(n), params=params or {}, args=args, maxdepth=4).run()
        self.outs = fe_outputs(self.res, nl)
        roots = [t for _, ls in self.outs for t in ls]
        self.exempt = narrowing_exempt(roots)
        self.roots = roots
        # arguments that are byte buffers: their elements are bytes
        self.byte_args = {"arg%d" % i for i in range(1, len(fn.locals)) if re.match(r"^&(mut )?\[u8(; \d+)?\]$", fn.locals[i] or "")}

    def run(self, binds):
        if getattr(self, "doubled", None) is not None:
            outs, fails, wraps, unk = self.doubled.run(binds)
            return [[(2 * a, 2 * b) for a, b in ov] for ov in outs], fails, wraps, unk
        ba = self.byte_args

        def other(t):
            if t[0] == "load":
                m = re.match(r"^(arg\d)\[\d+\]$", t[1])
                if m and m.group(1) in ba:
                    return (0, 255)
            if t[0] == "elem" and isinstance(t[1], tuple) and t[1] and t[1][0] in ("load", "ref") and any(a in str(t[1][1]) for a in ba):
                return (0, 255)
            return None
        ev = bounds.Iv(fe_leaf(binds, other), ops_exempt=lambda t: t in self.exempt)
        outs = [[ev.iv(t) for t in ls] for _, ls in self.outs]
        fails = bounds.assert_failures(self.res, ev)
        return outs, fails, list(ev.wraps), list(ev.unknown)


def _is_doubled_square(P, fn):
    """square_and_double written as `let mut x = self.square(); for v in x.0.iter_mut() { *v *= 2 }`: one call of square on
    self and one multiplication by the constant 2 inside the only loop (the limb-polynomial rule of C15 decides the rest)"""
    sq = [c for c in fn.calls() if c.name().endswith("Fe::square")]
    loops = fn.loop_blocks()
    muls = []
    for b in fn.reachable():
        for st in fn.stmts(b):
            if st[0] == "=" and st[2][0] == "bin" and st[2][1].startswith("Mul"):
                k = [o for o in st[2][2:4] if o[0] == "k" and o[1].get("v") == 2]
                muls.append((b in loops, bool(k)))
    return len(sq) == 1 and sq[0].bb not in loops and muls == [(True, True)]


def join(a, b):
    return [(min(x[0], y[0]), max(x[1], y[1])) for x, y in zip(a, b)]


def show(bv):
    return "[" + ", ".join(bounds.fmt_iv(b) for b in bv) + "]"


# --------------------------------------------------------------------------------------------------------- fe64
def check_fe64(ctx, P, cfg="K0", rule="fe-bounds"):
    B_ = "curve25519::fe::fe64::Fe"
    nl = 5
    inl = lambda n: n.endswith("::mul128") or n.endswith("::shl128") or n.endswith("from_bytes::load") or n.endswith("Fe::square") or n.endswith("carry_full") or n.endswith("carry_final")
    prod = [
        ("<&%s as core::ops::Add>::add" % B_, 2, None, None), ("<&%s as core::ops::Sub>::sub" % B_, 2, None, None), ("<&%s as core::ops::Neg>::neg" % B_, 1, None, None),
        ("<&%s as core::ops::Mul>::mul" % B_, 2, None, None), ("%s::square" % B_, 1, None, None), ("%s::square_and_double" % B_, 1, None, None),
        ("%s::mul_small" % B_, 1, {"S0": 121666}, None), ("%s::mul_small" % B_, 1, {"S0": 9}, None), ("%s::negate_mut" % B_, 1, None, None),
        ("%s::square_repeatdly" % B_, 1, None, [None, ssa.C(2, "usize")]),
    ]
    cons = [("%s::to_packed" % B_, 1), ("%s::is_negative" % B_, 1), ("%s::is_nonzero" % B_, 1), ("%s::to_bytes" % B_, 1)]
    ops = []
    for path, nargs, params, args in prod:
        fn = P.fn_opt(path)
        if fn is None:
            ctx.lost(rule, path, "producer not found in %s" % cfg)
            return
        op = Op(P, fn, nl, inl, params=params, args=args, tag=("<%s>" % params["S0"]) if params else "")
        if not op.outs and path.endswith("square_and_double") and _is_doubled_square(P, fn):
            op.doubled = Op(P, P.fn("%s::square" % B_), nl, inl)
        elif not op.outs:
            ctx.fail(rule, path, "cannot see the limbs %s produces" % path, where=fn.where(), key="%s:%s:outs" % (rule, path))
            return
        ops.append((op, nargs))
    # seed: from_bytes and the constants
    fb = P.fn("%s::from_bytes" % B_)
    fbo = Op(P, fb, nl, inl)
    o, fails, wraps, unk = fbo.run({})
    cb, ncons = const_limb_bounds(P, "fe64", nl)
    ctx.check(bool(o) and not fails and not wraps and ncons >= 5 + 264 * 3, rule, "fe64::from_bytes", "from_bytes limbs within %s; %d constant field elements within %s" % (show(o[0]) if o else "?", ncons, show(cb)),
              "fe64 Fe::from_bytes overflows or the constants could not be read: %s %s (%d constants)" % ([(f[1], f[3]) for f in fails[:2]], [(w[0], bounds.fmt_iv(w[2])) for w in wraps[:2]], ncons), where=fb.where(), key="%s:fe64::from_bytes" % rule)
    if not o:
        return
    B = join(o[0], cb)
    stable = False
    why = None
    for it in range(MAXIT):
        nb = list(B)
        for op, nargs in ops:
            binds = {"arg1": B, "arg2": B}
            outs, fails, wraps, unk = op.run(binds)
            for ov in outs:
                nb = join(nb, ov)
        if nb == B:
            stable = True
            break
        if any(b[1] >= (1 << 64) for b in nb):
            why = "a limb bound exceeds 64 bits"
            B = nb
            break
        B = nb
    bad = []
    if stable:
        for op, nargs in ops:
            outs, fails, wraps, unk = op.run({"arg1": B, "arg2": B})
            for f in fails:
                bad.append("%s%s: %s can overflow %s (%s)" % (op.fn.path, op.tag, f[1], f[3], bounds.fmt_iv(f[2]) if f[2] else "?"))
            for w in wraps:
                bad.append("%s%s: %s does not fit %s (%s)" % (op.fn.path, op.tag, w[0], w[3], bounds.fmt_iv(w[2])))
        for path, nargs in cons:
            fn = P.fn_opt(path)
            if fn is None:
                continue
            r = ssa.Eval(P, fn, inline=inl, maxdepth=4).run()
            ev = bounds.Iv(fe_leaf({"arg1": B}))
            for f in bounds.assert_failures(r, ev):
                bad.append("%s: %s can overflow %s (%s)" % (path, f[1], f[3], bounds.fmt_iv(f[2]) if f[2] else "?"))
    ctx.check(stable and not bad, rule, "fe64:closed", "every producer maps limbs within B = %s to limbs within B (fixpoint after %d rounds over %d producers); under B no overflow assert fires and no narrowing loses bits" % (show(B), it + 1, len(ops)),
              "fe64 limb bounds are not a closed invariant: %s; bound vector reached %s; %s" % (why or ("stable" if stable else "no fixpoint within %d rounds (an operation lets limbs grow without a carry)" % MAXIT), show(B), "; ".join(bad[:4])),
              where=P.fn(prod[0][0]).where(), key="%s:fe64:closed" % rule)
    if stable and not bad:
        ctx.guard("encode", "fe64::to_packed", lambda: check_to_bytes(ctx, P, "fe64", cfg, B))
        ctx.guard("canonical-value", "fe64::to_packed", lambda: check_canonical_value64(ctx, P, B))
    return B


# --------------------------------------------------------------------------------------------------------- fe32
def check_fe32(ctx, P, cfg="K2", rule="fe-bounds", mul_level=3):
    """mul_level: how many TIGHT values may have been added / subtracted (without a carry) into one operand of a multiplying
    operation: LOOSE = mul_level x TIGHT.  The crate's own callers reach 3 (ge.rs: t3 = 2zz - (yy - xx)); `fe-use`
    (feuse.py) decides that no call site exceeds it."""
    B_ = "curve25519::fe::fe32::Fe"
    nl = 10
    inl = lambda n: n.endswith("::emul") or bool(re.search(r"::load_[34][iu]$", n)) or n.endswith("Fe::square")
    mulops = [("<&%s as core::ops::Mul>::mul" % B_, 2, None, None), ("%s::square" % B_, 1, None, None), ("%s::square_and_double" % B_, 1, None, None),
              ("%s::mul_small" % B_, 1, {"S0": 121666}, None), ("%s::mul_small" % B_, 1, {"S0": 9}, None), ("%s::square_repeatdly" % B_, 1, None, [None, ssa.C(2, "usize")])]
    addops = [("<&%s as core::ops::Add>::add" % B_, 2, None, None), ("<&%s as core::ops::Sub>::sub" % B_, 2, None, None), ("<&%s as core::ops::Neg>::neg" % B_, 1, None, None), ("%s::negate_mut" % B_, 1, None, None)]
    cons = [("%s::to_bytes" % B_, 1), ("%s::is_negative" % B_, 1), ("%s::is_nonzero" % B_, 1)]

    def mk(lst):
        out = []
        for path, nargs, params, args in lst:
            fn = P.fn_opt(path)
            if fn is None:
                ctx.lost(rule, path, "operation not found in %s" % cfg)
                return None
            op = Op(P, fn, nl, inl, params=params, args=args, tag=("<%s>" % params["S0"]) if params else "")
            if not op.outs and path.endswith("square_and_double") and _is_doubled_square(P, fn):
                op.doubled = Op(P, P.fn("%s::square" % B_), nl, inl)
            elif not op.outs:
                ctx.fail(rule, path, "cannot see the limbs %s produces" % path, where=fn.where(), key="%s:%s:outs" % (rule, path))
                return None
            out.append((op, nargs))
        return out
    M, A = mk(mulops), mk(addops)
    if M is None or A is None:
        return
    fb = P.fn("%s::from_bytes" % B_)
    fbo = Op(P, fb, nl, inl)
    o, fails, wraps, unk = fbo.run({})
    cb, ncons = const_limb_bounds(P, "fe32", nl)
    okfb = bool(o) and not fails and not wraps and ncons >= 5 + 264 * 3
    ctx.check(okfb, rule, "fe32::from_bytes", "from_bytes limbs within %s; %d constant field elements within %s" % (show(o[0]) if o else "?", ncons, show(cb)),
              "fe32 Fe::from_bytes overflows or the constants could not be read: %s %s (%d constants)" % ([(f[1], f[3], bounds.fmt_iv(f[2]) if f[2] else None) for f in fails[:2]], [(w[0], bounds.fmt_iv(w[2])) for w in wraps[:2]], ncons), where=fb.where(), key="%s:fe32::from_bytes" % rule)
    if not okfb:
        return
    sym = lambda bv: [(-max(abs(a), abs(b)), max(abs(a), abs(b))) for a, b in bv]
    T = sym(join(o[0], cb))
    # TIGHT = lfp of the multiplying operations applied to LOOSE(TIGHT) inputs; LOOSE(T) = add/sub of two TIGHT values
    stable = False
    L = T
    for it in range(MAXIT):
        L = T
        for lvl in range(1, mul_level):
            Lk = L
            for op, nargs in A:
                outs, fails, wraps, unk = op.run({"arg1": Lk, "arg2": T})
                for ov in outs:
                    L = join(L, ov)
                outs, fails, wraps, unk = op.run({"arg1": T, "arg2": Lk})
                for ov in outs:
                    L = join(L, ov)
            L = sym(L)
        nT = list(T)
        for op, nargs in M:
            outs, fails, wraps, unk = op.run({"arg1": L, "arg2": L})
            for ov in outs:
                nT = join(nT, ov)
        nT = sym(nT)
        if nT == T:
            stable = True
            break
        if any(b[1] >= (1 << 31) for b in nT):
            T = nT
            break
        T = nT
    bad = []
    if stable:
        for op, nargs in M:
            outs, fails, wraps, unk = op.run({"arg1": L, "arg2": L})
            for f in fails:
                bad.append("%s%s: %s can overflow %s (%s)" % (op.fn.path, op.tag, f[1], f[3], bounds.fmt_iv(f[2]) if f[2] else "?"))
            for w in wraps:
                bad.append("%s%s: %s does not fit %s (%s)" % (op.fn.path, op.tag, w[0], w[3], bounds.fmt_iv(w[2])))
        for op, nargs in A:
            outs, fails, wraps, unk = op.run({"arg1": L, "arg2": L})
            for f in fails:
                bad.append("%s: %s can overflow %s" % (op.fn.path, f[1], f[3]))
            for w in wraps:
                bad.append("%s: %s does not fit %s" % (op.fn.path, w[0], w[3]))
        for path, nargs in cons:
            fn = P.fn_opt(path)
            if fn is None:
                continue
            r = ssa.Eval(P, fn, inline=inl, maxdepth=4).run()
            ev = bounds.Iv(fe_leaf({"arg1": L}))
            for f in bounds.assert_failures(r, ev):
                bad.append("%s: %s can overflow %s (%s)" % (path, f[1], f[3], bounds.fmt_iv(f[2]) if f[2] else "?"))
    ctx.check(stable and not bad, rule, "fe32:contracts", "TIGHT = %s is closed under every multiplying operation applied to LOOSE = %s inputs (up to %d TIGHT values added / subtracted without a carry); no overflow assert fires, no i64 -> i32 narrowing loses bits (fixpoint after %d rounds)" % (show(T), show(L), mul_level, it + 1),
              "fe32 limb bounds do not satisfy the tight/loose contracts: %s; TIGHT reached %s; %s" % ("stable" if stable else "no fixpoint (a multiplying operation returns limbs that are not carried)", show(T), "; ".join(bad[:4])),
              where=P.fn(mulops[0][0]).where(), key="%s:fe32:contracts" % rule)
    if stable and not bad:
        ctx.guard("encode", "fe32::to_bytes", lambda: check_to_bytes(ctx, P, "fe32", cfg, L))
        # the contracts are only as good as the way the rest of the crate composes the operations
        from . import feuse
        ctx.guard("fe-use", "fe32 call sites", lambda: feuse.check(ctx, P, kmax=mul_level, floor_sites=150))
    return T, L


# --------------------------------------------------------------------------------------------------------- canonical encoding
def check_to_bytes(ctx, P, backend, cfg, B=None, rule="encode"):
    """Fe::to_bytes / to_packed: the canonical-reduction code, as far as its truth is in the shape of the arithmetic:

      identity   sum(out_digit_i 2^w_i) == H - p * (sum of the quotient symbols that are folded back with factor 19)
                 + 2^255 * (integer combination of the top-carry symbols)  as a polynomial identity over the input limbs:
                 every carry moves to the next digit, the top carry comes back times 19, the +19 / 2^255-19 constants of the
                 conditional subtraction are the right ones
      digits     under the input bounds of the backend every output digit is reduced where it is packed with
                 `(d_i >> a) | (d_j << b)`, and no overflow assert can fire
      bits       the output bytes / words are the consecutive bit-fields of those digits
    Not decided here: that the quotient the code folds back is floor(H / p) for every input — for fe64 that is the separate
    `canonical-value` rule (check_canonical_value64); for fe32 it rests on ref10's magnitude argument and is not decided."""
    from .. import limbpoly, termbits, intern
    from ..poly import Poly
    from ..spec import curve
    PMOD = (1 << 255) - 19
    path = "curve25519::fe::%s::Fe::%s" % (backend, "to_packed" if backend == "fe64" else "to_bytes")
    fn = P.fn(path)
    inl = (lambda n: n.endswith("carry_full") or n.endswith("carry_final")) if backend == "fe64" else (lambda n: False)
    r = ssa.Eval(P, fn, inline=inl, maxdepth=3).run()
    intern.Interner().canon_result(r)
    ret = r.ret
    if not isinstance(ret, ssa.Agg):
        ctx.fail(rule, path, "cannot see the output words", where=fn.where(), key="%s:%s" % (rule, path))
        return
    nl = 5 if backend == "fe64" else 10
    W = [51 * i for i in range(5)] if backend == "fe64" else list(curve.FE32_SHIFTS)
    widths = [51] * 5 if backend == "fe64" else [26, 25] * 5
    outw = 64 if backend == "fe64" else 8
    nout = 4 if backend == "fe64" else 32
    outs = [ret.get_elem(i) for i in range(nout)]

    def strip(t):
        while isinstance(t, tuple) and t and t[0] == "cast":
            t = t[1]
        return t
    finals = []
    dterms = []
    for k, ob in enumerate(outs):
        e = strip(ob)
        parts = [strip(e[2]), strip(e[3])] if (e[0] == "bin" and e[1] == "BitOr") else [e]
        for pt in parts:
            if pt[0] == "bin" and pt[1] in ("Shr", "Shl") and ssa.is_c(pt[3]):
                base, sh = strip(pt[2]), (pt[3][1] if pt[1] == "Shr" else -pt[3][1])
            else:
                base, sh = pt, 0
            finals.append((k, base, sh))
            if base not in dterms:
                dterms.append(base)
    enc_bad = []
    if len(dterms) == nl:
        for k, base, sh in finals:
            i = dterms.index(base)
            if sh != outw * k - W[i]:
                enc_bad.append((k, i, sh))
    ctx.check(len(dterms) == nl and not enc_bad, rule, path + ":bits", "output %s k = bits [%dk, %dk+%d) of sum(d_i 2^w_i) over the %d final digits" % ("word" if outw == 64 else "byte", outw, outw, outw, nl),
              "%s does not pack its %d final digits into consecutive output bits: %d digit terms, misplaced (word, digit, shift) %s" % (path, nl, len(dterms), enc_bad[:4]), where=fn.where(), key="%s:%s:bits" % (rule, path))
    if len(dterms) != nl or enc_bad:
        return
    # ---- identity
    names = {"arg1": "f"}

    def leaf(t):
        if t[0] == "load":
            m = re.match(r"^arg1\.0\[(\d+)\]$", t[1])
            if m:
                return "f_%s" % m.group(1)
        if t[0] == "elem" and isinstance(t[1], tuple) and t[1] and t[1][0] == "load" and t[1][1] == "arg1.0" and isinstance(t[2], int):
            return "f_%d" % t[2]
        return None
    LP = limbpoly.LimbPoly(leaf)
    tot = Poly()
    for i, t in enumerate(dterms):
        tot = tot + LP.val(t) * (1 << W[i])
    H = Poly()
    for i in range(nl):
        H = H + Poly.var("f_%d" % i) * (1 << W[i])
    diff = tot - H
    # admissible residue: integer combination of quotient symbols with coefficients that are multiples of p or of 2^255,
    # plus a constant that is a multiple of 2^255 — i.e. the residue vanishes modulo p up to 2^255 * (top-carry terms)
    bad_terms = []
    for mon, c in diff.items():
        if not mon:
            if c % (1 << 255) not in (0,) and c % PMOD != 0:
                bad_terms.append(("const", c))
            continue
        if len(mon) != 1 or mon[0][1] != 1 or not mon[0][0].startswith("Q"):
            bad_terms.append((mon, c))
            continue
        if c % PMOD != 0 and c % (1 << 255) != 0:
            bad_terms.append((mon[0][0], c))
    qchain_ok = True
    if backend == "fe32":
        # ref10 form: the quotient q is folded in as +19 q and the top carry is dropped: residue 19*Q_q - 2^255*Q_c9, which
        # vanishes modulo p exactly when q == carry9 (ref10's magnitude argument, not decided here).  Decided: the two
        # symbols are the only residue, and q is the carry-out of the limb chain started at (19*h9 + 2^24) >> 25.
        res19 = [(a, b) for a, b in bad_terms if b == 19]
        bad_terms = [(a, b) for a, b in bad_terms if b != 19]
        top = [mon[0][0] for mon, c in diff.items() if mon and c == -(1 << 255)]
        qchain_ok = len(res19) == 1 and len(top) == 1
        if qchain_ok:
            inv = {v: k for k, v in LP.qnames.items()}
            x, k = inv[res19[0][0]]
            for i in range(nl - 1, -1, -1):
                prev = None
                v = LP.val(x)
                want_k = widths[i]
                qs = [mon[0][0] for mon, c in v.items() if mon and mon[0][0].startswith("Q") and c == 1]
                rest = Poly({mon: c for mon, c in v.items() if not (mon and mon[0][0].startswith("Q"))})
                if k != want_k or len(qs) != 1 or rest != Poly.var("f_%d" % i):
                    qchain_ok = False
                    break
                inv = {v_: k_ for k_, v_ in LP.qnames.items()}
                x, k = inv[qs[0]]
            if qchain_ok:
                qchain_ok = k == 25 and LP.val(x) == Poly.var("f_9") * 19 + Poly.const(1 << 24)
        if not qchain_ok:
            bad_terms.append(("q-chain", 0))
    nq_p = sum(1 for mon, c in diff.items() if mon and c % PMOD == 0) + (1 if backend == "fe32" and qchain_ok else 0)
    nq_t = sum(1 for mon, c in diff.items() if mon and c % PMOD != 0 and c % (1 << 255) == 0)
    ctx.check(not bad_terms and not LP.unknown and nq_p >= 1 and nq_t >= 1, rule, path + ":identity", "sum(d_i 2^w_i) == H - p*(%d folded quotients) + 2^255*(%d top-carry terms): %d carry symbols cancel" % (nq_p, nq_t, len(LP.qnames) - nq_p - nq_t),
              "%s does not reduce its input modulo 2^255-19: after removing H the digits carry a residue that is neither a multiple of p nor of 2^255: %s%s" % (path, [(str(a)[:40], (b if abs(b) < (1 << 40) else "~2^%d" % b.bit_length())) for a, b in bad_terms[:4]], ("; unrecognised operation %s" % str(LP.unknown[0])[:80]) if LP.unknown else ""), where=fn.where(), key="%s:%s:identity" % (rule, path))
    # ---- digits reduced, no overflow
    if B is None:
        return
    lf = fe_leaf({"arg1": B})
    nparts = 0
    bad = []
    afail = []
    for ev in bounds.partitions(dterms, lf, maxsplits=0):
        nparts += 1
        for i, t in enumerate(dterms):
            v = ev.iv(t)
            if v[0] < 0 or v[1] >= (1 << widths[i]):
                bad.append((i, v))
        afail += bounds.assert_failures(r, ev)
    ctx.check(nparts >= 1 and not bad and not afail, rule, path + ":digits", "every output digit d_i is within [0, 2^w_i) under the backend's input bounds; no overflow assert can fire",
              "%s: output digits are not reduced where they are packed (a final carry step is missing or uses the wrong width), or an operation can overflow: %s; undischarged %s" % (path, [(i, bounds.fmt_iv(v)) for i, v in bad[:4]], [(f[1], bounds.fmt_iv(f[2]) if f[2] else None) for f in afail[:3]]),
              where=fn.where(), key="%s:%s:digits" % (rule, path))


# --------------------------------------------------------------------------------------------------------- canonical value (fe64)
def check_canonical_value64(ctx, P, B, rule="canonical-value"):
    """fe64 Fe::to_packed returns H mod p for EVERY limb vector within the closed invariant B: a piecewise-affine
    abstract interpretation of the VALUE through the sequence of helper stages.

      helper contracts (derived from the helpers' own MIR terms, not assumed):
        carry_full :  sum(out_i 2^(51 i)) == V - p * Q  with Q the top carry of an exact carry chain whose remainder digits are
                      all masked to 51 bits, hence Q = floor(V / 2^255);     carry_final:  V mod 2^255  likewise
      composition (from to_packed's MIR: which helper output / constant feeds which helper input):
        the value is tracked as a set of pieces  V = V0 + k  on sub-intervals of the input range; every stage splits the
        pieces by its quotient.  At the end every piece must satisfy  k == 0 (mod p)  and  0 <= V0 + k < p."""
    from .. import limbpoly, intern
    from ..poly import Poly
    PMOD = (1 << 255) - 19
    T = "curve25519::fe::fe64::Fe::to_packed"
    fn = P.fn(T)
    helpers = {}
    bad = []
    for h in ("carry_full", "carry_final"):
        hf = P.fn_opt("%s::%s" % (T, h))
        if hf is None:
            ctx.lost(rule, T + "::" + h, "helper not found")
            return
        # sub-helpers of a carry helper (a shared chain) are inlined; the two named helpers themselves are the rule's units
        _ah = ssa.auto_inline(P, hf)
        r = ssa.Eval(P, hf, inline=lambda n: _ah(n) and not (n.endswith("::carry_full") or n.endswith("::carry_final")), auto=False).run()
        intern.Interner().canon_result(r)
        ret = r.ret
        if not isinstance(ret, ssa.Agg):
            ctx.fail(rule, T + "::" + h, "cannot see the five output digits", where=hf.where(), key="%s:%s:shape" % (rule, h))
            return
        outs = [ret.get_elem(i) for i in range(5)]

        def leaf(t):
            if t[0] == "load":
                m = re.match(r"^arg1\[(\d)\]$", t[1])
                if m:
                    return "t_%s" % m.group(1)
            if t[0] == "elem" and isinstance(t[1], tuple) and t[1] and t[1][0] == "load" and t[1][1] == "arg1" and isinstance(t[2], int):
                return "t_%d" % t[2]
            return None
        LP = limbpoly.LimbPoly(leaf)
        tot = Poly()
        for i, o in enumerate(outs):
            tot = tot + LP.val(o) * (1 << (51 * i))
        V = Poly()
        for i in range(5):
            V = V + Poly.var("t_%d" % i) * (1 << (51 * i))
        diff = tot - V
        # exactly one residual symbol: the top carry, with coefficient -p (fold back times 19) or -2^255 (dropped)
        want = -PMOD if h == "carry_full" else -(1 << 255)
        okid = not LP.unknown and len(diff) == 1
        qsym = None
        if okid:
            (mon, c), = diff.items()
            okid = len(mon) == 1 and mon[0][1] == 1 and c == want
            qsym = mon[0][0] if okid else None
        # the remainder digits are masked to 51 bits (so the top carry is floor(V / 2^255))
        inv = {v: k for k, v in LP.qnames.items()}
        okmask = okid
        if okid:
            x, k = inv[qsym]
            okmask = k == 51
            for i, o in enumerate(outs):
                core = o
                if i == 0 and h == "carry_full":
                    # (t0 & MASK) + 19 * Q
                    v0 = LP.val(o) - Poly.var(qsym) * 19
                    okmask = okmask and v0 == Poly.var("t_0") - Poly.var(LP.qnames.get((_strip(_find_masked(o)), 51), "?")) * (1 << 51) if _find_masked(o) is not None else False
                else:
                    okmask = okmask and isinstance(core, tuple) and core[0] == "bin" and core[1] == "BitAnd" and any(ssa.is_c(z) and z[1] == (1 << 51) - 1 for z in core[2:4])
        helpers[h] = (hf, r, outs, okid and okmask)
        if not (okid and okmask):
            bad.append("%s: value identity %s, 51-bit remainder digits %s (residue %s)" % (h, okid, okmask, diff.show()[:120]))
    if bad:
        ctx.fail(rule, T, "the carry helpers of Fe::to_packed are not exact carry chains with the top carry folded back times 19 / dropped: %s" % "; ".join(bad), where=fn.where(), key="%s:%s:helpers" % (rule, T))
        return
    # ---- composition from to_packed's own MIR (the helper calls stay opaque here: their contracts were derived above)
    r = ssa.Eval(P, fn, inline=lambda n: False, auto=False).run()
    stages = []   # (helper, source stage index or None for the input, per-digit constants)
    call_ids = {}
    okc = True
    why = ""
    for (bb, name, args, val) in r.calls:
        short = name.split("::")[-1]
        if short not in helpers:
            continue
        arr = None
        if isinstance(val, tuple) and val and val[0] == "call":
            av = r.argvals.get(val[3])
            arr = av[0] if av else None
        if arr is None:
            okc, why = False, "argument of %s is not visible" % short
            break
        src = set()
        consts = []
        for i in range(5):
            if isinstance(arr, ssa.Agg):
                e = arr.get_elem(i)
            else:
                e = ("elem", arr, i)      # the array is an unmodified whole value (a call result or *self)
            c = 0
            while isinstance(e, tuple) and e[0] == "bin" and e[1] == "Add" and ssa.is_c(e[3]):
                c += e[3][1]
                e = e[2]
            if isinstance(e, tuple) and e[0] == "elem" and isinstance(e[1], tuple) and e[1][0] == "call" and e[2] == i:
                src.add(("stage", call_ids.get(e[1][3])))
            elif isinstance(e, tuple) and e[0] == "load" and re.match(r"^arg1\.0\[%d\]$" % i, e[1]):
                src.add(("input", None))
            elif isinstance(e, tuple) and e[0] == "elem" and isinstance(e[1], tuple) and e[1][0] == "load" and e[1][1] in ("arg1.0", "arg1") and e[2] == i:
                src.add(("input", None))
            elif isinstance(e, tuple) and e[0] == "elem" and isinstance(e[1], tuple) and e[1][0] == "elem" and isinstance(e[1][1], tuple) and e[1][1][0] == "load" and e[1][1][1] == "arg1" and e[2] == i:
                src.add(("input", None))
            else:
                src.add(("?", str(e)[:60]))
            consts.append(c)
        if len(src) != 1 or list(src)[0][0] == "?" or (list(src)[0][0] == "stage" and list(src)[0][1] is None):
            okc, why = False, "digit sources of %s are mixed / not recognised: %s" % (short, sorted(src, key=str)[:3])
            break
        if isinstance(val, tuple) and val and val[0] == "call":
            call_ids[val[3]] = len(stages)
        stages.append((short, list(src)[0], consts))
    if not okc or not stages or stages[-1][0] != "carry_final":
        ctx.fail(rule, T, "cannot follow the values through Fe::to_packed: %s" % (why or "the last stage is not carry_final"), where=fn.where(), key="%s:%s:compose" % (rule, T))
        return
    # ---- piecewise-affine value analysis
    Vmax = sum(B[i][1] << (51 * i) for i in range(5))
    pieces_of = {}     # stage index -> list of (lo, hi, k)   with current value = V0 + k on V0 in [lo, hi]
    inp = [(0, Vmax, 0)]
    for si, (h, src, consts) in enumerate(stages):
        cur = inp if src[0] == "input" else pieces_of[src[1]]
        cadd = sum(c << (51 * i) for i, c in enumerate(consts))
        out = []
        for lo, hi, k in cur:
            k2 = k + cadd
            qlo, qhi = (lo + k2) >> 255, (hi + k2) >> 255
            for q in range(qlo, qhi + 1):
                a = max(lo, (q << 255) - k2)
                b = min(hi, ((q + 1) << 255) - 1 - k2)
                if a <= b:
                    out.append((a, b, k2 - (PMOD if h == "carry_full" else (1 << 255)) * q))
        pieces_of[si] = out
        if len(out) > 4096:
            ctx.fail(rule, T, "value analysis does not converge (too many pieces)", where=fn.where(), key="%s:%s:pieces" % (rule, T))
            return
    final = pieces_of[len(stages) - 1]
    viol = []
    for lo, hi, k in final:
        if k % PMOD != 0 or lo + k < 0 or hi + k >= PMOD:
            viol.append((lo, hi, k))
    chain = " -> ".join(st[0] + ("+c" if any(st[2]) else "") for st in stages)
    msg = ""
    if viol:
        lo, hi, k = viol[0]
        if k % PMOD == 0:
            msg = "for H in %s the result is H - %d*p, which is not below p" % (bounds.fmt_iv((lo, hi)), (-k) // PMOD)
        else:
            msg = "for H in %s the result is not congruent to H modulo p (offset %d mod p)" % (bounds.fmt_iv((lo, hi)), k % PMOD)
    ctx.check(not viol, rule, T, "to_packed(H) == H mod p on every one of the %d value pieces of H in %s (stages: %s)" % (len(final), bounds.fmt_iv((0, Vmax)), chain),
              "Fe::to_packed does not return the canonical representative for every limb vector the field code can produce: %s (stages: %s)" % (msg, chain),
              where=fn.where(), key="%s:%s" % (rule, T))


def _strip(t):
    while isinstance(t, tuple) and t and t[0] == "cast":
        t = t[1]
    return t


def _find_masked(o):
    """in  (x & MASK) + 19 * q   return x"""
    if isinstance(o, tuple) and o[0] == "bin" and o[1] == "Add":
        for a in o[2:4]:
            if isinstance(a, tuple) and a[0] == "bin" and a[1] == "BitAnd":
                for x, m in ((a[2], a[3]), (a[3], a[2])):
                    if ssa.is_c(m) and m[1] == (1 << 51) - 1:
                        return x
    return None
