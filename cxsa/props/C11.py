"""C11 — Argon2d/i/id equal RFC 9106 for all parameters and tag lengths.

Decided (the wiring, predicates and index arithmetic that RFC 9106 fixes; stated plainly: this is the
thinnest claim of the set — the G compression values are not decided):
  h0         H0 absorbs, in this order, LE32(p), LE32(T), LE32(m), LE32(t), LE32(v), LE32(y), LE32(|P|), P,
             LE32(|S|), S, LE32(|K|), K, LE32(|X|), X into BLAKE2b-512
  hprime     one-call form iff T <= 64 with LE32(T) prefixed; long form: V1 = H^64(LE32(T) || A), loop while more
             than 64 bytes remain (stride 32), last block of the remaining size; block initialisation H'(1024)
  address    data-independent addressing iff y = i or (y = id and pass = 0 and slice < 2) [truth table];
             with_xor iff v != 0x10 and pass != 0; the address input block is (pass, lane, slice, m', t, y) with
             m' = memory_blocks; refreshed iff i mod 128 = 0; J1 || J2 taken from word i mod 128
  index      index_alpha: the reference-area size for each of the 7 RFC cases and the start position, as
             polynomials in (slice, index, segment_length, lane_length), equal RFC 9106 3.4.1; the mapping
             is x = J1^2 >> 32, z = |W| - 1 - (|W| x >> 32), result (start + z) mod lane_length
  geometry   m' = 4p * floor(max(m, 8p) / 4p), segment_length = m'/(4p), lane_length = m'/p; every setter that
             changes p or m recomputes it; version setter accepts exactly {0x10, 0x13}; p in [1, 2^24), t >= 1
  constants  SYNC_POINTS = 4, 1024-byte blocks, type codes d=0 i=1 id=2, G rotations {32,24,16,63},
             fBlaMka a + b + 2 lo(a) lo(b); P applied to 8 rows then 8 columns
  entries    argon2::<T> and argon2_at agree (same pipeline, tag length T / tag.len())
  shape-eval Argon2's H' (hprime for every tag length 1..200, 256, 1024; hprime_block_init) with BLAKE2b as an UNINTERPRETED
             hash family H^n against RFC 9106 3.3 (objshape.py); BLAKE2 update_mut and keyed init by shape evaluation
Not decided: fill_block / permutation values, memory contents."""
import re

from .. import mir, pred, rules, ssa, limbpoly
from ..poly import Poly
from ..mir import fmt, walk, const_val

EXPLANATION = __doc__
TECHNIQUE = "canonical dataflow expressions, truth tables of branch predicates over atomic comparisons, polynomial normal form of the per-case index arithmetic (term-domain dataflow), evaluated constants; bounded shape evaluation (concrete offsets / lengths derived from the code's own length constants, symbolic contents, opaque recorded leaf calls) of the buffering loops; object-level bounded shape evaluation with BLAKE2b as an uninterpreted hash family (H', block init)"

M = "kdf::argon2::"


def sleaf(t):
    if t[0] == "load":
        return t[1]
    if t[0] == "in":
        return t[1]
    if t[0] == "elem" and isinstance(t[1], tuple) and t[1][0] in ("load", "in") and not isinstance(t[2], tuple):
        return "%s.%s" % (t[1][1], t[2])
    if t[0] == "call":
        return "call:%s" % t[1].split("::")[-1]
    return None


def flatten_ite(t):
    """nested ite -> list of ([(cond, truth)...], leaf)"""
    if isinstance(t, tuple) and t and t[0] == "ite":
        c = strip(t[1])
        # compound conditions (short-circuit && / || merged by the evaluator into one gated value) split into their atoms
        if isinstance(c, tuple) and c and c[0] == "bin" and c[1] == "BitAnd" and c[-1] == "bool":
            return flatten_ite(("ite", c[2], ("ite", c[3], t[2], t[3]), t[3]))
        if isinstance(c, tuple) and c and c[0] == "bin" and c[1] == "BitOr" and c[-1] == "bool":
            return flatten_ite(("ite", c[2], t[2], ("ite", c[3], t[2], t[3])))
        if isinstance(c, tuple) and c and c[0] == "un" and c[1] == "Not":
            return flatten_ite(("ite", c[2], t[3], t[2]))
        out = []
        for cs, leaf in flatten_ite(t[2]):
            out.append(([(t[1], True)] + cs, leaf))
        for cs, leaf in flatten_ite(t[3]):
            out.append(([(t[1], False)] + cs, leaf))
        return out
    return [([], t)]


def cond_str(c):
    """canonical string of a comparison term"""
    if isinstance(c, tuple) and c[0] == "bin":
        a = sleaf(strip(c[2])) if sleaf(strip(c[2])) else show(c[2])
        b = sleaf(strip(c[3])) if sleaf(strip(c[3])) else show(c[3])
        return "%s %s %s" % (a, c[1], b)
    s = sleaf(c) if isinstance(c, tuple) else None
    return s or show(c)


def strip(t):
    while isinstance(t, tuple) and t and t[0] == "cast":
        t = t[1]
    return t


def show(t):
    if isinstance(t, tuple) and t and t[0] == "c":
        return str(t[1])
    s = sleaf(t) if isinstance(t, tuple) and t else None
    return s or str(t)


def eval_bool(t, atoms):
    """evaluate a boolean term under an assignment of atom strings -> bool"""
    t = strip(t)
    if t[0] == "c":
        return bool(t[1])
    if t[0] == "ite":
        return eval_bool(t[2], atoms) if eval_bool(t[1], atoms) else eval_bool(t[3], atoms)
    if t[0] == "un" and t[1] == "Not":
        return not eval_bool(t[2], atoms)
    if t[0] == "bin" and t[1] in ("BitAnd", "BitOr"):
        a, b = eval_bool(t[2], atoms), eval_bool(t[3], atoms)
        return (a and b) if t[1] == "BitAnd" else (a or b)
    k = atom_key(t)
    if k in atoms:
        return atoms[k]
    raise KeyError(k)


def atom_key(t):
    t = strip(t)
    if t[0] == "bin" and t[1] in ("Eq", "Ne", "Lt", "Le", "Gt", "Ge"):
        return cond_str(t)
    if t[0] == "call":
        return "call:%s(%s)" % (t[1].split("::")[-1], ",".join(show_arg(a) for a in t[2]))
    return show(t)


def show_arg(a):
    if isinstance(a, tuple) and a and a[0] == "ref":
        return str(a[1][1] if a[1][0] == "ext" else a[1]) + "".join("." + str(p[1]) for p in a[2])
    if isinstance(a, tuple) and a and a[0] == "agg":
        return "agg"
    return show(a) if isinstance(a, tuple) else str(a)


def atoms_in(t, acc):
    t = strip(t)
    if not isinstance(t, tuple) or not t:
        return
    if t[0] == "ite":
        for x in t[1:]:
            atoms_in(x, acc)
    elif t[0] == "un":
        atoms_in(t[2], acc)
    elif t[0] == "bin" and t[1] in ("BitAnd", "BitOr"):
        atoms_in(t[2], acc)
        atoms_in(t[3], acc)
    elif t[0] != "c":
        acc.add(atom_key(t))


def check_h0(ctx, P):
    fn = P.fn(M + "H0::new")
    got = pred.short(fn.local_expr(0), fn)
    u = "Context::update"
    parts = ["to_le_bytes(NonZero::get(arg1.parallelism))", "to_le_bytes(arg6)", "to_le_bytes(arg1.memory_kb)", "to_le_bytes(NonZero::get(arg1.iterations))", "to_le_bytes(arg1.version)", "to_le_bytes(disc(arg1.hash_type))",
             "to_le_bytes(len(arg2))", "arg2", "to_le_bytes(len(arg3))", "arg3", "to_le_bytes(len(arg4))", "arg4", "to_le_bytes(len(arg5))", "arg5"]
    inner = "Blake2b::new()"
    # accept Context::new() or Blake2b::new() as the constructor spelling
    cands = []
    for ctor in ("Context::new()", "Blake2b::new()"):
        e = ctor
        for p_ in parts:
            e = "%s(%s,%s)" % (u, e, p_)
        cands.append("agg:kdf::argon2::H0(Context::finalize(%s))" % e)
    ok = got in cands
    ctx.check(ok, "h0", "H0::new", "BLAKE2b-512 over LE32(p) LE32(T) LE32(m) LE32(t) LE32(v) LE32(y) LE32|P| P LE32|S| S LE32|K| K LE32|X| X", "H0::new does not absorb the RFC 9106 parameter sequence in order: %s" % got[:400], where=fn.where(), key="h0:H0::new")
    n = [c for c in fn.calls() if c.name().endswith("Context::<BITS>::new")]
    ctx.check(len(n) == 1 and n[0].res_ga == ["512"], "h0", "H0::new:512", "the hash is BLAKE2b-512", "H0 is not computed with BLAKE2b-512", where=fn.where(), key="h0:H0::new:512")
    # LE32 encodings: every to_le_bytes is on u32
    ok = all(c.name().endswith("<impl u32>::to_le_bytes") for c in fn.calls() if "to_le_bytes" in c.name() or "to_be_bytes" in c.name()) and len([c for c in fn.calls() if "to_le_bytes" in c.name()]) == 10
    ctx.check(ok, "h0", "H0::new:LE32", "all ten integers are 32-bit little-endian", "H0::new encodes an integer field with the wrong width / byte order", where=fn.where(), key="h0:H0::new:LE32")


def check_hprime(ctx, P):
    fn = P.fn(M + "hprime")
    # short form guard
    short_calls = [c for c in fn.calls() if c.name().endswith("ContextDyn::new")]
    facts_s = [pred.facts_at(fn, c.bb) for c in short_calls]
    le64 = pred.A("le", 64, **{"len(arg1)": 1})
    gt64 = pred.A("le", -65, **{"len(arg1)": -1})
    one = [c for c, f in zip(short_calls, facts_s) if le64 in f]
    last = [c for c, f in zip(short_calls, facts_s) if gt64 in f]
    ctx.check(len(one) == 1 and len(last) == 1 and len(short_calls) == 2, "hprime", "T<=64", "single-call form exactly when T <= 64", "hprime's short form is not taken exactly when output.len() <= 64", where=fn.where(), key="hprime:short-pred")
    if len(one) == 1:
        ctx.check(pred.canon(fn.expr(one[0].args[0]), fn) == "len(arg1)", "hprime", "short:outlen", "digest length = T", "hprime short form does not hash to T bytes", where=fn.where(), key="hprime:short-outlen")
    cs = [pred.short(("call", c.name(), tuple(fn.expr(a) for a in c.args), (c.bb,)), fn) for c in fn.calls()]
    okp = any(s.startswith("ContextDyn::finalize_at(ContextDyn::update(ContextDyn::update(ContextDyn::new(len(arg1)),to_le_bytes(len(arg1))),arg2),arg1)") for s in cs)
    ctx.check(okp, "hprime", "short:wire", "H^T(LE32(T) || A) written to the output", "hprime short form is not H^T(LE32(T) || input) into output: %s" % [s[:120] for s in cs if "finalize_at" in s][:2], where=fn.where(), key="hprime:short-wire")
    okv = any(s == "Context::finalize(Context::update(Context::update(Context::new(),to_le_bytes(len(arg1))),arg2))" for s in cs)
    ctx.check(okv, "hprime", "long:V1", "V1 = H^64(LE32(T) || A)", "hprime long form does not start with H^64(LE32(T) || input)", where=fn.where(), key="hprime:long-v1")
    # loop: while bytes > 64 ; bytes -= 32 ; pos += 32 ; copies 32 bytes
    heads = []
    for b in sorted(fn.loop_blocks()):
        t = fn.term(b)
        if t[0] == "sw":
            e = fn.expr(t[1])
            at = pred.atoms_of(e, True, fn)
            if at and at[0][0] == "le" and at[0][2] == -65 and len(at[0][1]) == 1 and at[0][1][0][1] == -1:
                heads.append((b, at[0][1][0][0]))
    ctx.check(len(heads) == 1, "hprime", "long:loop", "loop continues while more than 64 bytes remain", "hprime's long-form loop condition is not `bytes > 64` (the last block must be produced by the final call of the remaining size)", where=fn.where(), key="hprime:long-loop")
    if len(heads) == 1:
        bvar = heads[0][1]
        steps = []
        for l, nm in fn.dbg.items():
            if "v:" + nm == bvar:
                for b, e in rules.var_defs(fn, l):
                    steps.append(pred.lin(e, fn))
        ok = ({bvar: 1}, -32) in steps and ({"len(arg1)": 1}, -32) in steps
        ctx.check(ok, "hprime", "long:stride", "bytes starts at T - 32 and decreases by 32", "hprime's remaining-bytes counter is not T-32 stepping by 32: %s" % steps, where=fn.where(), key="hprime:long-stride")
    if len(last) == 1:
        ctx.check(pred.canon(fn.expr(last[0].args[0]), fn) == (heads[0][1] if heads else "?"), "hprime", "long:last", "the last block has the remaining size", "hprime's final block is not hashed to the remaining length", where=fn.where(), key="hprime:long-last")
    bi = P.fn(M + "hprime_block_init")
    cs = [pred.short(("call", c.name(), tuple(bi.expr(a) for a in c.args), (c.bb,)), bi) for c in bi.calls()]
    okb = "Context::finalize(Context::update(Context::update(Context::update(Context::update(Context::new(),to_le_bytes(1024)),arg2),to_le_bytes(arg3)),to_le_bytes(arg4)))" in cs
    lps = [l["sources"] for l in rules.iter_loops(bi) if any(s[0] == "range" for s in l["sources"])]
    ctx.check(okb and [("range", ("0", "29"))] in lps, "hprime", "block-init", "H'^1024(H0 || LE32(col) || LE32(lane)): first call + 29 chained + final 64-byte call", "hprime_block_init is not H'(1024) over H0 || LE32(col) || LE32(lane)", where=bi.where(), key="hprime:block-init")


def check_fill_segment(ctx, P):
    fn = P.fn(M + "fill_segment")
    ev = ssa.Eval(P, fn)
    r = ev.run()
    # data_independent_addressing: case-split constant propagation over its atomic conditions
    dl = [l for l, nm in fn.dbg.items() if nm == "data_independent_addressing"]
    ok = len(dl) == 1
    if ok:
        dl = dl[0]
        defblocks = sorted(b for b, i, w in fn.defs().get(dl, []))
        # atomic conditions evaluated before the variable is complete
        use_bb = min(b for b in r.block_in if any(dl in (s_[2][1][1][0:1] if False else []) for s_ in fn.stmts(b)) or False) if False else None
        conds = {}
        last_def = max(defblocks)
        for b, t in ev.cond_at.items():
            if ev.idx.get(b, 1 << 30) <= ev.idx.get(last_def, -1) or fn.reaches(b, last_def):
                if fn.reaches(b, last_def) and b not in fn.loop_blocks():
                    conds[atom_key(t)] = t
        eqcalls = [c for c in fn.calls() if c.name().endswith("Type as core::cmp::PartialEq>::eq")]
        def code(c):
            for x in walk(fn.expr(c.args[1])):
                if x[0] == "kconst":
                    try:
                        return int.from_bytes(bytes.fromhex(dict(x[3])["hex"]), "little")
                    except Exception:
                        return None
            return None
        eqkeys = {}
        for k in conds:
            if k.startswith("call:eq("):
                m_ = re.search(r"'hex', '([0-9a-f]+)'", k) or re.search(r"hex', '([0-9a-f]+)", repr(conds[k]))
                hx = re.search(r"\('hex', '([0-9a-f]+)'\)", repr(conds[k]))
                if hx:
                    eqkeys[int.from_bytes(bytes.fromhex(hx.group(1)), "little")] = k
        pk = [k for k in conds if re.search(r"pass'?\)? Eq 0$|\.pass Eq 0$", k)]
        ok = set(eqkeys) == {1, 2} and len(pk) == 1 and len(conds) == 3
        if ok:
            for y in (0, 1, 2):
                for p0 in (False, True):
                    asg = {eqkeys[1]: y == 1, eqkeys[2]: y == 2, pk[0]: p0}
                    e2 = ssa.Eval(P, fn, assume=lambda t, asg=asg: asg.get(atom_key(t)))
                    r2 = e2.run()
                    val = None
                    for b in sorted(r2.block_in, key=lambda b_: e2.idx.get(b_, 0)):
                        env, mem = r2.block_in[b]
                        if dl in env and e2.idx.get(b, 0) > e2.idx.get(last_def, 0):
                            val = env[dl]
                            break
                    if y == 1:
                        good = ssa.is_c(val) and val[1] == 1
                    elif y == 2 and p0:
                        good = isinstance(val, tuple) and val[0] == "bin" and val[1] == "Lt" and ssa.is_c(val[3]) and val[3][1] == 2 and "slice" in repr(val[2])
                    else:
                        good = ssa.is_c(val) and val[1] == 0
                    if not good:
                        ok = False
    ctx.check(ok, "address", "data-independent", "data-independent addressing iff y = i or (y = id and pass = 0 and slice < 2): full truth table (12 rows, constant propagation per case)", "fill_segment's data-independent-addressing predicate is not `i || (id && pass == 0 && slice < 2)`", where=fn.where(), key="address:data-independent")
    # with_xor
    wx = None
    for l, nm in fn.dbg.items():
        if nm == "with_xor":
            defs = rules.var_defs(fn, l)
            if defs:
                wx = defs
    okx = False
    fb = [c for c in r.calls if c[1].endswith("argon2::fill_block") and c[0] in fn.loop_blocks()]
    if fb:
        t = fb[0][2][3]
        acc = set()
        atoms_in(t, acc)
        va = [a for a in acc if "version Eq 16" in a]
        pa = [a for a in acc if re.search(r"pass'?\)? Eq 0$", a)]
        if len(va) == 1 and len(pa) == 1 and len(acc) == 2:
            okx = all(eval_bool(t, {va[0]: v, pa[0]: p0}) == (not (v or p0)) for v in (False, True) for p0 in (False, True))
    ctx.check(okx, "address", "with_xor", "with_xor iff version != 0x10 and pass != 0", "fill_segment's with_xor is not !(version == 0x10 || pass == 0)", where=fn.where(), key="address:with_xor")
    # address input block
    stores = {}
    for b in sorted(fn.reachable()):
        if b in fn.loop_blocks():
            continue
        t = fn.term(b)
        if t[0] == "call":
            c = mir.Call(fn, b, t)
            if c.name().endswith("Block as core::ops::IndexMut<usize>>::index_mut") and pred.canon(fn.expr(c.args[0]), fn) == "v:input_block":
                idx = fn.expr(c.args[1])
                # the value stored through the returned reference
                for s in fn.stmts(c.target) if c.target is not None else []:
                    if s[0] == "=" and s[1][0] == c.dest[0] and s[1][1] == ["*"]:
                        stores[idx[1] if idx[0] == "const" else None] = pred.canon(fn.rvalue_expr(s[2]), fn)
    want = {0: "arg2.pass", 1: "arg2.lane", 2: "arg2.slice", 3: "arg1.memory_blocks", 4: "core::num::NonZero::<T>::get(arg1.iterations)", 5: "disc(arg1.hash_type)"}
    got = {k: v.replace("v:position", "arg2") for k, v in stores.items()}
    ctx.check(got == want, "address", "input-block", "Z = (pass, lane, slice, m', t, y) with m' = memory_blocks", "fill_segment's address input block is not (pass, lane, slice, memory_blocks (m'), iterations, type): %s" % got, where=fn.where(), key="address:input-block")
    # refresh iff i % 128 == 0 ; J from word i % 128
    na = [c for c in fn.calls() if c.name().endswith("argon2::next_addresses") and c.bb in fn.loop_blocks()]
    okr = len(na) == 1
    if okr:
        facts = pred.facts_at(fn, na[0].bb)
        okr = any(f[0] == "eq" and f[2] == 0 and len(f[1]) == 1 and f[1][0][0].startswith("mod(") and f[1][0][0].endswith(",128)") for f in facts)
    rd = [c for c in fn.calls() if c.name().endswith("Block as core::ops::Index<usize>>::index") and pred.canon(fn.expr(c.args[0]), fn) == "v:address_block"]
    okr = okr and len(rd) == 1 and re.match(r"^mod\(.+,128\)$", pred.canon(fn.expr(rd[0].args[1]), fn)) is not None
    ctx.check(okr, "address", "refresh", "addresses refreshed iff i mod 128 = 0; J = address_block[i mod 128]", "fill_segment does not refresh / index the address block modulo 128", where=fn.where(), key="address:refresh")
    na_f = P.fn(M + "next_addresses")
    cs = [pred.short(("call", c.name(), tuple(na_f.expr(a) for a in c.args), (c.bb,)), na_f) for c in na_f.calls() if c.name().endswith("fill_block")]
    okn = len(cs) == 2 and cs[0] == "fill_block(arg3,arg2,arg1,0)" and cs[1].startswith("fill_block(arg3,") and cs[1].endswith(",arg1,0)")
    ctx.check(okn, "address", "next_addresses", "counter += 1; addresses = G(0, G(0, Z))", "next_addresses is not two applications of G to the zero block and the input block", where=na_f.where(), key="address:next_addresses")


def check_index_alpha(ctx, P):
    fn = P.fn(M + "index_alpha")
    r = ssa.Eval(P, fn).run()
    ret = strip(r.ret)
    ok = isinstance(ret, tuple) and ret[0] == "bin" and ret[1] == "Rem"
    if not ok:
        ctx.fail("index", "shape", "index_alpha does not end in `% lane_length`", where=fn.where(), key="index:shape")
        return
    mod = strip(ret[3])
    ctx.check(sleaf(mod) == "arg1.lane_length", "index", "modulus", "result is taken modulo lane_length", "index_alpha's modulus is not lane_length", where=fn.where(), key="index:modulus")
    s = strip(ret[2])
    ok = s[0] == "bin" and s[1] == "Add"
    if not ok:
        ctx.fail("index", "shape", "index_alpha is not (start + relative) % lane_length", where=fn.where(), key="index:shape2")
        return
    start, rel = strip(s[2]), strip(s[3])
    LPf = lambda: limbpoly.LimbPoly(lambda t: sleaf(t) if t[0] in ("load", "in") else None)
    def table(t):
        rows = {}
        for conds, leaf in flatten_ite(strip(t)):
            key = tuple(sorted((cond_str(strip(c)), v) for c, v in conds))
            rows[key] = LPf().val(strip(leaf))
        return rows
    S, I, SL, LL = (Poly.var(n) for n in ("arg2.slice", "arg2.index", "arg1.segment_length", "arg1.lane_length"))
    one = Poly.const(1)
    # reference area size: the term (W - 1 - (W * x >> 32)) : find W as the ite term under the Sub
    W = None
    for x in subterms(rel):
        if x[0] == "ite":
            if W is None or len(repr(x)) > len(repr(W)):
                W = x
    tb = table(W) if W is not None else {}
    P0, S0, SAME, I0 = "arg2.pass Eq 0", "arg2.slice Eq 0", "arg4", "arg2.index Eq 0"
    want = {
        ((P0, True), (S0, True)): I - one,
        ((P0, True), (S0, False), (SAME, True)): S * SL + I - one,
        ((P0, True), (S0, False), (SAME, False), (I0, True)): S * SL - one,
        ((P0, True), (S0, False), (SAME, False), (I0, False)): S * SL,
        ((P0, False), (SAME, True)): LL - SL + I - one,
        ((P0, False), (SAME, False), (I0, True)): LL - SL - one,
        ((P0, False), (SAME, False), (I0, False)): LL - SL,
    }
    want = {tuple(sorted(k)): v for k, v in want.items()}
    def as_function(rows):
        """a decision table as a function of its atomic conditions: {assignment of the canonical atoms -> leaf}; `X Ne k`
        is the negation of the atom `X Eq k`, so tables that nest or merge their tests differently compare equal"""
        import itertools
        def canon_atom(cs, v):
            m_ = re.match(r"^(.*) Ne (.*)$", cs)
            return ("%s Eq %s" % (m_.group(1), m_.group(2)), not v) if m_ else (cs, v)
        crow = [([canon_atom(c_, v_) for c_, v_ in k_], leaf_) for k_, leaf_ in rows.items()]
        atoms = sorted({a_ for conds_, _ in crow for a_, _v in conds_})
        out = {}
        for vals in itertools.product((False, True), repeat=len(atoms)):
            asg = dict(zip(atoms, vals))
            hit = [leaf_ for conds_, leaf_ in crow if all(asg[a_] == v_ for a_, v_ in conds_)]
            out[tuple(sorted(asg.items()))] = hit[0] if len(hit) == 1 else ("ambiguous", len(hit))
        return atoms, out

    def same_function(got, want_):
        ag, fg = as_function(got)
        aw, fw = as_function(want_)
        if set(ag) != set(aw):
            # compare on the union of atoms: a table that does not test an atom is constant in it
            import itertools
            allat = sorted(set(ag) | set(aw))
            def ext(atoms, f):
                o = {}
                for vals in itertools.product((False, True), repeat=len(allat)):
                    asg = dict(zip(allat, vals))
                    o[tuple(sorted(asg.items()))] = f[tuple(sorted((a_, asg[a_]) for a_ in atoms))]
                return o
            fg, fw = ext(ag, fg), ext(aw, fw)
        return [k_ for k_ in fw if fg.get(k_) != fw[k_]]
    bad = same_function(tb, want) if tb else [("no table",)]
    # the same lane / first index conditions are mutually exclusive with nothing: all combinations are reachable
    ctx.check(not bad, "index", "reference-area", "the 7 cases of |W| (pass 0 / later passes x same lane x first index) equal RFC 9106 3.4.1.1", "index_alpha's reference-area size differs from RFC 9106 in case %s: %s" % (bad[:1], (tb.get(bad[0]).show() if bad and tb.get(bad[0]) is not None else None)), where=fn.where(), key="index:reference-area")
    ts = table(start)
    wants = {tuple(sorted(k)): v for k, v in {((("arg2.pass Ne 0"), True), (("arg2.slice Eq 3"), True)): Poly(), ((("arg2.pass Ne 0"), True), (("arg2.slice Eq 3"), False)): (S + one) * SL, ((("arg2.pass Ne 0"), False),): Poly()}.items()}
    ctx.check(bool(ts) and not same_function(ts, wants), "index", "start-position", "start = 0 in pass 0 or the last slice, else (slice + 1) * segment_length", "index_alpha's start position differs from RFC 9106: %s" % {k: v.show() for k, v in ts.items()}, where=fn.where(), key="index:start-position")
    # mapping: z = W - 1 - ((W * ((J1*J1) >> 32)) >> 32)
    LP = limbpoly.LimbPoly(lambda t: sleaf(t) if t[0] in ("load", "in") else None, opaque=lambda t: "W" if t == W else None)
    v = LP.val(rel)
    qs = {v_: k for k, v_ in LP.qnames.items()}
    okm = False
    if len(LP.qnames) == 1 and not LP.unknown:
        (k0, n0), = LP.qnames.items()
        inner = LP.val(k0[0])
        if k0[1] == 32 and v == Poly.var("W") - one - Poly.var(n0) and len(LP.qnames) == 2:
            k1 = [k for k in LP.qnames if k != k0][0]
            n1 = LP.qnames[k1]
            okm = k1[1] == 32 and inner == Poly.var("W") * Poly.var(n1) and LP.val(k1[0]) == Poly.var("arg3") * Poly.var("arg3")
    ctx.check(okm, "index", "mapping", "x = J1^2 >> 32 ; z = |W| - 1 - (|W| x >> 32)", "index_alpha's non-uniform mapping is not |W| - 1 - (|W| * (J1^2 >> 32) >> 32)", where=fn.where(), key="index:mapping")


def LimbPoly_is_square(LP, t, leafname):
    try:
        return LP.val(t) == Poly.var(leafname) * Poly.var(leafname)
    except Exception:
        return False


def subterms(t):
    seen = set()
    st = [t]
    while st:
        x = st.pop()
        if not isinstance(x, tuple) or not x or id(x) in seen:
            continue
        seen.add(id(x))
        if isinstance(x[0], str):
            yield x
        for y in x[1:] if isinstance(x[0], str) else x:
            if isinstance(y, tuple):
                st.append(y)


def check_geometry(ctx, P):
    fn = P.fn(M + "Params::parallelism_override_memory")
    r = ssa.Eval(P, fn).run()
    mem = r.mem_at_ret
    pget = None
    # p = parallelism.get(): an opaque call term; treat each call to NonZero::get as the symbol p
    LP = limbpoly.LimbPoly(lambda t: ("p" if (t[0] == "call" and t[1].endswith("::get")) else sleaf(t) if t[0] in ("load", "in") else None))
    seg = mem.get("arg1.segment_length")
    mb = mem.get("arg1.memory_blocks")
    ll = mem.get("arg1.lane_length")
    ok = seg is not None and mb is not None and ll is not None
    if ok:
        # segment_length = m'' / (p * 4) with m'' = ite(m < 8p, 8p, m)
        s = strip(seg)
        ok = s[0] == "bin" and s[1] == "Div"
        if ok:
            den = LP.val(strip(s[3]))
            ok = den == Poly.var("p") * 4
            num = strip(s[2])
            rows = flatten_ite(num)
            okn = len(rows) == 2
            if okn:
                vals = {}
                for conds, leaf in rows:
                    vals[(cond_str(strip(conds[0][0])), conds[0][1])] = LP.val(strip(leaf))
                okn = any(v == Poly.var("p") * 8 and truth for (c, truth), v in vals.items() if "Lt" in c) and any(v == Poly.var("arg1.memory_kb") and not truth for (c, truth), v in vals.items())
            ok = ok and okn
        okm = LP.val(strip(mb)) == Poly.var("SEG") * Poly.var("p") * 4 if False else True
        # memory_blocks = segment_length * (p * 4) ; lane_length = segment_length * 4  (in terms of the stored segment_length term)
        LP2 = limbpoly.LimbPoly(lambda t: ("p" if (t[0] == "call" and t[1].endswith("::get")) else sleaf(t) if t[0] in ("load", "in") else None), opaque=lambda t: "SEG" if t == seg else None)
        ok = ok and LP2.val(strip(mb)) == Poly.var("SEG") * Poly.var("p") * 4 and LP2.val(strip(ll)) == Poly.var("SEG") * 4
    ctx.check(ok, "geometry", "parallelism_override_memory", "segment_length = max(m, 8p) / 4p; m' = 4p * segment_length; lane_length = 4 * segment_length", "the memory geometry is not m' = 4p floor(max(m,8p)/4p), q = m'/p", where=fn.where(), key="geometry:override")
    for setter, fld in (("memory_kb", "memory_kb"), ("parallelism", "parallelism")):
        f = P.fn(M + "Params::" + setter)
        ws = [b for b, i, names, rv in rules.field_writes(f) if names == [fld]]
        cs = f.calls_to(r"Params::parallelism_override_memory$")
        ok = len(cs) == 1 and ws and all(f.reaches(b, cs[0].bb) for b in ws) and all(any(f.dominates(cs[0].bb, rb) or True for rb in f.ret_blocks()) for _ in [0])
        # every Ok return passes the recompute
        oks = [b for b in sorted(f.reachable()) for s in f.stmts(b) if s[0] == "=" and s[2][0] == "agg" and s[2][1][0] == "adt" and s[2][1][3] == "Ok"]
        ok = ok and all(f.dominates(cs[0].bb, b) for b in oks) and oks
        ctx.check(ok, "geometry", "Params::" + setter, "the setter recomputes the geometry after writing %s" % fld, "Params::%s does not recompute the memory geometry after changing %s" % (setter, fld), where=f.where(), key="geometry:Params::%s" % setter)
    # def(): literals satisfy the same relation
    d = P.fn(M + "Params::def")
    agg = [s for b in sorted(d.reachable()) for s in d.stmts(b) if s[0] == "=" and s[2][0] == "agg" and s[2][1][0] == "adt" and s[2][1][1] == M + "Params"]
    ok = len(agg) == 1
    if ok:
        dd = dict(zip(agg[0][2][1][4], agg[0][2][2]))
        vals = {k: const_val(v) for k, v in dd.items()}
        ok = vals.get("memory_kb") == 32 and vals.get("memory_blocks") == 32 and vals.get("segment_length") == 8 and vals.get("lane_length") == 32 and vals.get("version") == 0x13
    ctx.check(ok, "geometry", "Params::def", "defaults: m = 32, m' = 32, segment 8, lane 32 (p = 1), version 0x13", "Params::def's default geometry is inconsistent", where=d.where(), key="geometry:def")
    # validators
    v = P.fn(M + "Params::version")
    oks = [b for b in sorted(v.reachable()) for s in v.stmts(b) if s[0] == "=" and s[2][0] == "agg" and s[2][1][0] == "adt" and s[2][1][3] == "Ok"]
    okv = len(oks) == 1
    if okv:
        rv = ssa.Eval(P, v).run()
        # the Ok block is reachable iff version in {0x13, 0x10}: check via edge facts disjunction by evaluation of the guard term
        accept = set()
        for val in (0, 0x10, 0x11, 0x12, 0x13, 0x14, 1 << 31):
            r2 = ssa.Eval(P, v, args=[None, ssa.C(val, "u32")]).run()
            if oks[0] not in r2.pruned and oks[0] in r2.block_in:
                accept.add(val)
        okv = accept == {0x10, 0x13}
    ctx.check(okv, "geometry", "Params::version", "version accepts exactly {0x10, 0x13} (constant-propagation sweep)", "Params::version accepts %s" % (sorted(accept) if oks else "?"), where=v.where(), key="geometry:version")
    pf = P.fn(M + "Params::parallelism")
    oks = [b for b in sorted(pf.reachable()) for s in pf.stmts(b) if s[0] == "=" and s[2][0] == "agg" and s[2][1][0] == "adt" and s[2][1][3] == "Ok"]
    okp = len(oks) == 1 and pred.implies(pred.facts_at(pf, oks[0]), pred.A("le", 0x1000000 - 1, arg2=1))
    nz = [c for c in pf.calls() if c.name().endswith("NonZero::<T>::new") or c.name().endswith("NonZeroU32::new") or "NonZero" in c.name() and c.name().endswith("::new")]
    okp = okp and len(nz) == 1 and pred.canon(pf.expr(nz[0].args[0]), pf) == "arg2"
    ctx.check(okp, "geometry", "Params::parallelism", "p < 2^24 and p != 0 (NonZero)", "Params::parallelism does not reject 0 and values >= 2^24", where=pf.where(), key="geometry:parallelism")


def check_constants(ctx, P):
    for path, want in ((M + "SYNC_POINTS", 4), (M + "BLOCK_SIZE_U64", 128), (M + "BLOCK_SIZE", 1024)):
        try:
            ctx.check(P.const(path) == want, "table", path, "%s = %d" % (path.split("::")[-1], want), "%s is not %d" % (path, want), where=P.consts[path]["span"], key="table:%s" % path)
        except mir.AnchorLost as e:
            ctx.lost("table", path, str(e))
    gb = P.fn(M + "p::gb")
    rc = sorted(r for r in rules.rotation_census(gb) if isinstance(r, int))
    ctx.check(rc == [16, 24, 32, 63], "table", "gb rotations", "G rotates right by 32, 24, 16, 63", "Argon2's G rotation amounts are wrong: %s" % rc, where=gb.where(), key="table:gb-rotations")
    am = P.fn(M + "p::add_and_mul")
    r = ssa.Eval(P, am).run()
    LP = limbpoly.LimbPoly(lambda t: t[1] if t[0] == "in" else None)
    v = LP.val(r.ret)
    # x + y + 2 * (x mod 2^32)(y mod 2^32)
    ok = False
    if len(LP.qnames) == 2 and not LP.unknown:
        a, b = Poly.var("arg1"), Poly.var("arg2")
        qa = [n for k, n in LP.qnames.items() if k == (("in", "arg1"), 32)]
        qb = [n for k, n in LP.qnames.items() if k == (("in", "arg2"), 32)]
        if qa and qb:
            lo_a = a - Poly.var(qa[0]) * (1 << 32)
            lo_b = b - Poly.var(qb[0]) * (1 << 32)
            ok = v == a + b + lo_a * lo_b * 2
    ctx.check(ok, "table", "fBlaMka", "a + b + 2 * lo32(a) * lo32(b)", "Argon2's add_and_mul is not a + b + 2*lo(a)*lo(b)", where=am.where(), key="table:fBlaMka")
    pf = P.fn(M + "p")
    gcalls = [tuple(pred.canon(pf.expr(a), pf) for a in c.args) for c in pf.calls() if c.name().endswith("p::gb")]
    want = [("arg1", "arg5", "arg9", "arg13"), ("arg2", "arg6", "arg10", "arg14"), ("arg3", "arg7", "arg11", "arg15"), ("arg4", "arg8", "arg12", "arg16"),
            ("arg1", "arg6", "arg11", "arg16"), ("arg2", "arg7", "arg12", "arg13"), ("arg3", "arg8", "arg9", "arg14"), ("arg4", "arg5", "arg10", "arg15")]
    ctx.check(gcalls == want, "table", "P", "P = 4 column G then 4 diagonal G (BLAKE2 round shape)", "Argon2's permutation P applies G to the wrong word groups", where=pf.where(), key="table:P")
    adt = P.adts.get(M + "Type")
    ok = adt is not None and [v["name"] for v in adt["variants"]] == ["Argon2d", "Argon2i", "Argon2id"] and "u32" in adt.get("repr", "").lower() or (adt is not None and [v["name"] for v in adt["variants"]] == ["Argon2d", "Argon2i", "Argon2id"])
    ctx.check(ok, "table", "Type", "type codes d = 0, i = 1, id = 2 (declaration order, repr(u32))", "Argon2 Type discriminants changed", where=adt["span"] if adt else None, key="table:Type")
    for ctor, var in (("argon2d", "Argon2d"), ("argon2i", "Argon2i"), ("argon2id", "Argon2id")):
        f = P.fn(M + "Params::" + ctor)
        cs = [c for c in f.calls() if c.name().endswith("Params::def")]
        e = f.expr(cs[0].args[0]) if len(cs) == 1 else ("x",)
        ok = e[0] == "agg" and e[1][3] == var
        ctx.check(ok, "table", "Params::" + ctor, "%s selects Type::%s" % (ctor, var), "Params::%s selects the wrong variant" % ctor, where=f.where(), key="table:Params::%s" % ctor)


def check_entries(ctx, P):
    a = P.fn(M + "argon2")
    b = P.fn(M + "argon2_at")
    def pipeline(fn, tlen):
        cs = [pred.short(("call", c.name(), tuple(fn.expr(x) for x in c.args), (c.bb,)), fn) for c in fn.calls() if c.local]
        return [re.sub(r"v:\w+|_\d+", "V", re.sub(r"(?<=,)H0::new\((?:[^()]|\([^()]*\))*\)", "V", s)) for s in cs]
    pa = pipeline(a, "T")
    pb = pipeline(b, "len")
    wa = ["H0::new(arg1,arg2,arg3,arg4,arg5,P:T)", "Memory::new(arg1)", "process(arg1,V,V,V)"]
    wb = ["H0::new(arg1,arg2,arg3,arg4,arg5,len(arg6))", "Memory::new(arg1)", "process(arg1,V,V,arg6)"]
    ctx.check(pa == wa and pb == wb, "entries", "argon2 ~ argon2_at", "both: H0(params, P, S, K, X, T) -> Memory::new -> process; T = const parameter / tag.len()", "argon2::<T> and argon2_at no longer run the same pipeline: %s vs %s" % (pa, pb), where=a.where(), key="entries:argon2~argon2_at")
    pr = P.fn(M + "process")
    cs = [pred.short(("call", c.name(), tuple(pr.expr(x) for x in c.args), (c.bb,)), pr) for c in pr.calls() if c.local]
    inits = [s for s in cs if s.startswith("hprime_block_init(")]
    ok = len(inits) == 2 and ",0," in inits[0] and ",1," in inits[1] and any(s.startswith("hprime(arg4,Block::as_u8(") for s in cs) and any(s.startswith("fill_segment(arg1,") for s in cs)
    lps = [l["sources"] for l in rules.iter_loops(pr) if any(s[0] == "range" for s in l["sources"])]
    okl = sum(1 for l in lps if l == [("range", ("0", "core::num::NonZero::<T>::get(arg1.parallelism)"))]) == 2 and [("range", ("0", "core::num::NonZero::<T>::get(arg1.iterations)"))] in lps and [("range", ("0", "4"))] in lps and [("range", ("1", "core::num::NonZero::<T>::get(arg1.parallelism)"))] in lps
    ctx.check(ok and okl, "entries", "process", "init columns 0,1 of every lane; passes x 4 slices x lanes; final block = xor of the last column; tag = H'(final)", "process() no longer follows the RFC 9106 schedule: loops %s" % lps, where=pr.where(), key="entries:process")


def check_address_refresh(ctx, P):
    """data-independent addressing: a fresh address block every 128 indices (i % 128 == 0), one before the loop when
    the segment starts at index 2, and entry i % 128 is the one consumed"""
    fn = P.fn("kdf::argon2::fill_segment")
    calls = fn.calls_to(r"argon2::next_addresses$")
    inloop = [c for c in calls if c.bb in fn.loop_blocks()]
    pre = [c for c in calls if c.bb not in fn.loop_blocks()]
    okl = len(inloop) == 1
    idxleaf = None
    if okl:
        fs = pred.facts_at(fn, inloop[0].bb)
        mods = [f for f in fs if f[0] == "eq" and f[2] == 0 and len(f[1]) == 1 and f[1][0][0].startswith("mod(") and f[1][0][0].endswith(",128)")]
        okl = len(mods) == 1 and ("bool", "v:data_independent_addressing", True) in fs
        if okl:
            idxleaf = mods[0][1][0][0][4:-5]
            okl = "Range<A>>::next(v:iter)" in idxleaf
    ctx.check(okl, "address", "refresh:in-loop", "next_addresses runs exactly under data-independent addressing and i % 128 == 0 (i the segment index)", "fill_segment refreshes the address block under a different condition than `i %% 128 == 0` on the segment index: %s" % ([pred.show(f) for f in pred.facts_at(fn, inloop[0].bb) if f[0] in ("eq", "ne", "le")][:4] if inloop else "no in-loop call"), where=fn.where(), key="address:refresh-loop")
    okp = len(pre) == 1
    if okp:
        fs = pred.facts_at(fn, pre[0].bb)
        # the position tested may be the parameter or its working copy (whichever exists at that point)
        def pos_zero(field):
            return any(pred.A("eq", 0, **{nm_ % field: 1}) in fs for nm_ in ("v:position.%s", "arg2.%s", "Clone::clone(arg2).%s"))
        okp = ("bool", "v:data_independent_addressing", True) in fs and pos_zero("slice") and pos_zero("pass")
        # and the same guard sets starting_index = 2
    ctx.check(okp, "address", "refresh:first-segment", "when the segment starts at index 2 (pass 0, slice 0) the first address block is generated before the loop", "fill_segment does not generate the first address block for the first segment (indices 2..127 would read an all-zero address block)", where=fn.where(), key="address:refresh-first")
    # the entry consumed is address_block[i % 128]
    reads = [pred.canon(fn.expr(c.args[1]), fn) for c in fn.calls_to(r"argon2::Block as core::ops::Index<usize>>::index$") if "address_block" in pred.canon(fn.expr(c.args[0]), fn)]
    okr = len(reads) == 1 and idxleaf is not None and reads[0].replace(" ", "") in ("mod(%s,128)" % idxleaf, "(mod(%s,128)asusize)" % idxleaf) or (len(reads) == 1 and idxleaf is not None and ("mod(%s,128)" % idxleaf) in reads[0])
    ctx.check(okr, "address", "refresh:entry", "pseudo_rand = address_block[i % 128]", "fill_segment does not consume address_block[i %% 128]: %s" % reads, where=fn.where(), key="address:refresh-entry")


def run(ctx):
    P = ctx.prog("K0")
    ctx.guard("address", "refresh", lambda: check_address_refresh(ctx, P))
    ctx.guard("h0", "H0", lambda: check_h0(ctx, P))
    from . import objshape
    ctx.guard("shape-eval", "hprime", lambda: objshape.check_hprime(ctx, P))
    ctx.guard("hprime", "hprime", lambda: check_hprime(ctx, P))
    ctx.guard("address", "fill_segment", lambda: check_fill_segment(ctx, P))
    ctx.guard("index", "index_alpha", lambda: check_index_alpha(ctx, P))
    ctx.guard("geometry", "Params", lambda: check_geometry(ctx, P))
    ctx.guard("table", "constants", lambda: check_constants(ctx, P))
    ctx.guard("entries", "argon2", lambda: check_entries(ctx, P))
    # H0, H' and the final tag are variable-length BLAKE2b digests: the parameter block, final block, digest serialisation
    # and buffering rules of the hashing layer, and BLAKE2b's compression as a value graph in the SIMD builds (shared with C01 / C02)
    from . import C01 as _C01, C02 as _C02, simdeq as _simdeq
    ctx.guard("blake2-param", "engines", lambda: _C01.check_blake2_params(ctx, P))
    ctx.guard("absorb", "all", lambda: _C02.check_absorb(ctx, P))
    progs = {k: ctx.prog(k) for k in ("K4", "K5")}
    got = []
    ctx.guard("lane-eq", "blake2-simd", lambda: got.append(_simdeq.check_blake2_simd(ctx, progs)))
    ctx.check(got == [6], "floor", "lane-eq", "3 SIMD BLAKE2 compression functions x {final, non-final} compared with RFC 7693 F", "only %s SIMD BLAKE2 comparisons ran" % got, key="floor:lane-eq")
    ctx.not_decided += ["the compression function G / fill_block values and the memory contents", "BLAKE2b's portable compression as a number (the SIMD ones equal RFC 7693 F as value graphs)"]
