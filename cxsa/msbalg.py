"""MSB algebra: exact decision of branch-free word predicates built from two unsigned operands.

A 64-bit operand is split into its top bit and its low 63 bits.  Everything such formulas observe is
  A = msb(a), B = msb(b), LO = sign(low(a) - low(b)), ZA = [low(a) = 0], ZB = [low(b) = 0]
(a finite set of 'orderings').  Over the consistent assignments of these atoms the abstract value of
every term — its msb, and enough about its low part to know borrows — is computed exactly:
  msb(x - y) = msb(x) ^ msb(y) ^ [low(x) < low(y)]        msb(x op y) = msb(x) op msb(y)  (bitwise op)
  (x >> 63) is the bit msb(x);  small values combine as Booleans.
The result is a complete truth table, compared with the specification's (a < b, a == b, a == 0...)."""
from . import ssa


def classes(unary=False, narrow=False):
    out = []
    for A in ((0,) if narrow else (0, 1)):
        for ZA in (0, 1):
            if unary:
                out.append({"A": A, "ZA": ZA, "B": 0, "ZB": 1, "LO": 0 if ZA else 1})
                continue
            for B in ((0,) if narrow else (0, 1)):
                for ZB in (0, 1):
                    for LO in (-1, 0, 1):
                        if LO == 0 and ZA != ZB:
                            continue
                        if LO < 0 and ZB:
                            continue
                        if LO > 0 and ZA:
                            continue
                        out.append({"A": A, "B": B, "ZA": ZA, "ZB": ZB, "LO": LO})
    return out


class V:
    """abstract value in one class: msb in {0,1,None}; low in {'a','b','0','a^b',('c',v),None}; small = exact small int or None"""
    __slots__ = ("msb", "low", "small")

    def __init__(self, msb, low, small=None):
        self.msb = msb
        self.low = low
        self.small = small


def lowzero(l, c):
    if l == "a":
        return bool(c["ZA"])
    if l == "b":
        return bool(c["ZB"])
    if l == "0":
        return True
    if l == "a^b":
        return c["LO"] == 0
    if isinstance(l, tuple) and l[0] == "c":
        return l[1] == 0
    return None


def borrow(lx, ly, c):
    """[low(x) < low(y)]"""
    if lx == ly and lx is not None:
        return False
    if (lx, ly) == ("a", "b"):
        return c["LO"] < 0
    if (lx, ly) == ("b", "a"):
        return c["LO"] > 0
    if ly == "0":
        return False
    if lx == "0":
        z = lowzero(ly, c)
        return None if z is None else (not z)
    if isinstance(lx, tuple) and isinstance(ly, tuple):
        return lx[1] < ly[1]
    return None


def ev(t, c, leaf):
    """abstract value of term t in class c"""
    lf = leaf(t)
    if lf is not None:
        if lf == "a":
            return V(c["A"], "a")
        if lf == "b":
            return V(c["B"], "b")
        if lf == "a8":       # zero-extended narrow operand
            return V(0, "a")
        if lf == "b8":
            return V(0, "b")
    k = t[0]
    if k == "c":
        v = t[1] & ((1 << 64) - 1)
        return V((v >> 63) & 1, ("c", v & ((1 << 63) - 1)) if v & ((1 << 63) - 1) else "0", small=v if v < 4 else None)
    if k == "cast":
        return ev(t[1], c, leaf)
    if k == "bin":
        op = t[1]
        x = ev(t[2], c, leaf)
        y = ev(t[3], c, leaf) if not (op in ("Shr", "Shl")) else None
        if op == "Shr" and ssa.is_c(t[3]) and t[3][1] == 63:
            if x.msb is None:
                return V(None, None)
            return V(0, "0" if x.msb == 0 else ("c", 1), small=x.msb)
        if op in ("BitXor", "BitOr", "BitAnd"):
            f = {"BitXor": lambda p, q: p ^ q, "BitOr": lambda p, q: p | q, "BitAnd": lambda p, q: p & q}[op]
            m = None if (x.msb is None or y.msb is None) else f(x.msb, y.msb)
            sm = None if (x.small is None or y.small is None) else f(x.small, y.small)
            low = None
            if op == "BitXor":
                if {x.low, y.low} == {"a", "b"}:
                    low = "a^b"
                elif y.low == "0":
                    low = x.low
                elif x.low == "0":
                    low = y.low
            if sm is not None:
                low = "0" if sm == 0 else ("c", sm)
            return V(m, low, sm)
        if op in ("Sub", "SubUnchecked"):
            if x.small is not None and y.small is not None:
                v = (x.small - y.small) & ((1 << 64) - 1)
                return V((v >> 63) & 1, "0" if (v & ((1 << 63) - 1)) == 0 else ("c", v & ((1 << 63) - 1)), small=v if v < 4 else None)
            b = borrow(x.low, y.low, c)
            if b is None or x.msb is None or y.msb is None:
                return V(None, None)
            return V(x.msb ^ y.msb ^ int(b), None)
        if op in ("Add",):
            if x.small is not None and y.small is not None:
                v = x.small + y.small
                return V(0, "0" if v == 0 else ("c", v), small=v if v < 4 else None)
    return V(None, None)


def truth_table(t, leaf, unary=False, narrow=False):
    """{class (as sorted tuple) -> value of the small result or None}"""
    out = []
    for c in classes(unary, narrow):
        v = ev(t, c, leaf)
        out.append((c, v.small))
    return out
