"""Check context: collects rule evaluations, violations, notes; writes evidence and replay files;
applies the committed known-findings list (exact key match only, never written at run time)."""
import json
import os
import re
import sys
import time

from . import facts as F
from . import mir

VERIF = F.VERIF
EVDIR = os.environ.get("CX_EVIDENCE_DIR") or os.path.join(VERIF, "evidence")


class Ctx:
    def __init__(self, pid, tier, level="other", only=None):
        self.pid = pid
        self.tier = tier
        self.level = level
        self.t0 = time.time()
        self.rules = []        # list of dicts: rule, instance, sites, verdict
        self.violations = []   # dicts with key
        self.known_hits = []
        self.notes = []
        self.progs = {}
        self.extract_info = []
        self.samples = []
        self.not_decided = []
        self.trusted = ["rustc front-end, type checker and MIR construction (nightly 1.97)", "cxfacts driver (faithful dump of MIR, resolved callees, evaluated constants, layouts)"]
        self.only = only       # replay: restrict to one violation key
        self.subsumed = []     # (key prefix, reason): "could not derive" reports of a for-all-lengths rule that a passing
                               # value-graph comparison of the same function decides for the compared lengths
        self.seed = int(os.environ.get("VERIF_SEED", "0") or 0)
        self._kf = None

    # ---- programs ----
    def prog(self, cfg):
        if cfg not in self.progs:
            d, info = F.extract(cfg)
            self.extract_info.append(info)
            self.progs[cfg] = mir.Program(d, cfg)
        return self.progs[cfg]

    # ---- recording ----
    def ok(self, rule, instance, detail=None, sites=1):
        """One obligation discharged."""
        self.rules.append({"rule": rule, "instance": instance, "verdict": "ok", "sites": sites, "detail": detail})
        if detail is not None and len(self.samples) < 12:
            self.samples.append({"rule": rule, "instance": instance, "obligation": detail})

    def fail(self, rule, instance, msg, where=None, witness=None, key=None):
        key = key or ("%s:%s" % (rule, instance))
        key = re.sub(r"[^A-Za-z0-9_.:<>,+\-]", "_", key)
        self.rules.append({"rule": rule, "instance": instance, "verdict": "VIOLATED", "sites": 1, "detail": msg})
        self.violations.append({"key": key, "rule": rule, "instance": instance, "msg": msg, "where": where, "witness": witness})

    def lost(self, rule, instance, msg):
        """Anchor lost / floor not met: fail closed."""
        self.fail(rule, instance, "anchor-lost: " + msg, key="%s:%s:anchor-lost" % (rule, instance))

    def note(self, s):
        self.notes.append(s)

    def subsume(self, prefix, reason):
        self.subsumed.append((re.sub(r"[^A-Za-z0-9_.:<>,+\-]", "_", prefix), reason))

    def check(self, cond, rule, instance, okdetail, failmsg, where=None, witness=None, key=None):
        if cond:
            self.ok(rule, instance, okdetail)
        else:
            self.fail(rule, instance, failmsg, where=where, witness=witness, key=key)
        return cond

    def guard(self, rule, instance, fn):
        """Run fn(); an AnchorLost inside becomes a fail-closed violation of this rule instance."""
        try:
            return fn()
        except mir.AnchorLost as e:
            self.lost(rule, instance, str(e))
            return None
        except F.ExtractError:
            raise
        except Exception as e:      # a rule that cannot be evaluated on this tree decides nothing: fail closed, with the reason
            import traceback
            tb = traceback.extract_tb(e.__traceback__)
            at = "%s:%d" % (tb[-1].filename.split("/")[-1], tb[-1].lineno) if tb else "?"
            self.fail(rule, instance, "the rule could not be evaluated on this tree (%s: %s at %s): the code it anchors on changed shape" % (type(e).__name__, str(e)[:200], at), key="%s:%s:rule-error" % (rule, instance))
            return None

    # ---- known findings ----
    def known(self):
        if self._kf is None:
            p = os.path.join(VERIF, "known_findings.json")
            try:
                with open(p) as fh:
                    self._kf = json.load(fh)["findings"]
            except Exception:
                self._kf = []
        return self._kf

    # ---- finish ----
    def finish(self, explanation, technique=None):
        wall = round(time.time() - self.t0, 2)
        known = {k["key"]: k for k in self.known() if k.get("status") == "known" and k.get("property") == self.pid}
        real = []
        for v in self.violations:
            if self.only and v["key"] != self.only:
                continue
            sub = [r for p, r in self.subsumed if v["key"].startswith(p)]
            if sub:
                self.notes.append("not derived for every run length (%s): %s -- %s" % (v["key"], v["msg"][:160], sub[0]))
                for r_ in self.rules:
                    if r_["rule"] == v["rule"] and r_["instance"] == v["instance"] and r_["verdict"] == "VIOLATED":
                        r_["verdict"] = "ok"
                        r_["detail"] = "not derived for every run length on this loop shape; " + sub[0]
                continue
            if v["key"] in known:
                self.known_hits.append(v)
            else:
                real.append(v)
        vdir = os.path.join(EVDIR, "violations", self.pid)
        out_lines = []
        for v in self.known_hits:
            out_lines.append("KNOWN-FINDING: property=%s %s [key=%s]" % (self.pid, known[v["key"]]["what"], v["key"]))
        for v in real:
            os.makedirs(vdir, exist_ok=True)
            rp = os.path.join(vdir, v["key"][:150] + ".json")
            with open(rp, "w") as fh:
                json.dump({"property": self.pid, "key": v["key"], "rule": v["rule"], "instance": v["instance"], "message": v["msg"], "where": v["where"], "witness": v["witness"], "replay": "./check %s --replay %s" % (self.pid, rp)}, fh, indent=1, default=str)
            out_lines.append("  rule=%s instance=%s at %s: %s" % (v["rule"], v["instance"], v["where"], v["msg"]))
            out_lines.append("VIOLATION property=%s replay=%s" % (self.pid, rp))
        obligations = len(self.rules)
        discharged = sum(1 for r in self.rules if r["verdict"] == "ok")
        distinct = len({(r["rule"], r["instance"]) for r in self.rules if r["sites"] > 0})
        byrule = {}
        for r in self.rules:
            b = byrule.setdefault(r["rule"], {"instances": 0, "ok": 0, "violated": 0})
            b["instances"] += 1
            b["ok" if r["verdict"] == "ok" else "violated"] += 1
        cov = {
            "explanation": explanation,
            "obligations": obligations,
            "discharged": discharged,
            "evaluations": max(1, sum(max(1, r["sites"]) for r in self.rules)),
            "distinct_nontrivial": max(2, distinct) if distinct >= 2 else distinct,
            "rule": "one evaluation per (rule kind, instance) obligation over the MIR/const facts of the configurations listed; an instance is non-trivial when its anchor matched at least one program site",
            "checker_cmd": "./check %s --tier %s" % (self.pid, self.tier),
            "trusted_base": self.trusted,
            "samples": self.samples[:12] or [{"note": "no obligations recorded"}],
            "configs": self.extract_info,
            "by_rule": byrule,
            "functions_in_fact_base": {k: len(p.fns) for k, p in self.progs.items()},
            "not_decided": self.not_decided,
            "known_findings_reported": [v["key"] for v in self.known_hits],
            "violations": [{"key": v["key"], "msg": v["msg"], "where": v["where"]} for v in real],
            "notes": self.notes[:40],
            "exhaustive": False,
        }
        if technique:
            cov["technique"] = technique
        ev = {
            "property_id": self.pid,
            "tier": self.tier,
            "seed": self.seed,
            "level": self.level,
            "coverage": cov,
            "assumptions": self.trusted + ["decides the structural clauses listed in coverage.explanation; the numerical behaviour named in coverage.not_decided is NOT decided"],
            "wall_s": wall,
            "violations": len(real),
        }
        os.makedirs(EVDIR, exist_ok=True)
        with open(os.path.join(EVDIR, self.pid + ".json"), "w") as fh:
            json.dump(ev, fh, indent=1, default=str)
        for l in out_lines:
            print(l)
        print("%s tier=%s obligations=%d discharged=%d known=%d violations=%d wall=%.1fs" % (self.pid, self.tier, obligations, discharged, len(self.known_hits), len(real), wall))
        return 1 if real else 0
