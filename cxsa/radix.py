"""Radix-weight consistency analysis on ssa terms (a units-of-measure style static check).

Every integer value in limb arithmetic stands for `value * 2^e` of the represented number.  The
analysis assigns each term the set of exponents e it can consistently stand for:
  loads of limb i           e = radix position of the limb (given by the configuration)
  x + y, x - y, x | y, x ^ y, select    operands must share an exponent  (else INCONSISTENT)
  x >> k  ->  e + k          x << k  ->  e - k (or e: a genuine doubling)
  x * y   ->  e(x) + e(y)    x * const k  ->  e(x), or e(x) - log(k) when k = 2^a * c^b is a
                             representation change (2^M == c  (mod p):  M=130,c=5 / M=255,c=19)
  constants, single-bit values (x >> width-1), masks derived from them   ->  any exponent
A carry added into the wrong limb, a missing `* 5` / `* 19` fold, or limbs packed at the wrong
shift make some addition's operand sets disjoint.  Value scaling errors are not detected."""
from . import ssa

TOP = None  # any exponent


def isect(a, b):
    if a is TOP:
        return b
    if b is TOP:
        return a
    return a & b


class Weights:
    def __init__(self, load_weight, M, c, width_of=None):
        self.load_weight = load_weight   # fn(term) -> exponent or None
        self.M = M
        self.c = c
        self.memo = {}
        self.problems = []

    def const_log(self, k):
        """k = 2^a * c^b  ->  a + M*b, else None"""
        if k <= 0:
            return None
        b = 0
        while k % self.c == 0:
            k //= self.c
            b += 1
        if k & (k - 1):
            return None
        return k.bit_length() - 1 + self.M * b

    def w(self, t, depth=0):
        if not isinstance(t, tuple) or not t:
            return TOP
        key = id(t)
        if t in self.memo:
            return self.memo[t]
        r = self._w(t, depth)
        self.memo[t] = r
        return r

    def _w(self, t, depth):
        k = t[0]
        if k == "c":
            return TOP
        lw = self.load_weight(t)
        if lw is not None:
            return frozenset([lw])
        if k == "cast":
            return self.w(t[1], depth + 1)
        if k == "bin":
            op, a, b, ty = t[1], t[2], t[3], t[4]
            width = ssa.WIDTH.get(ty, 64)
            if op in ("Add", "Sub", "BitOr", "BitXor", "AddUnchecked", "SubUnchecked"):
                wa, wb = self.w(a, depth + 1), self.w(b, depth + 1)
                r = isect(wa, wb)
                if r is not TOP and not r:
                    self.problems.append((t, wa, wb))
                    return TOP
                return r
            if op == "BitAnd":
                wa, wb = self.w(a, depth + 1), self.w(b, depth + 1)
                if wa is TOP:
                    return wb
                if wb is TOP:
                    return wa
                r = wa & wb
                return r if r else wa
            if op in ("Shr", "ShrUnchecked"):
                if ssa.is_c(b):
                    wa = self.w(a, depth + 1)
                    inner_w = self._term_width(a, width)
                    if b[1] >= inner_w - 1:
                        return TOP          # a single (sign / carry) bit
                    if wa is TOP:
                        return TOP
                    return frozenset(e + b[1] for e in wa)
                return TOP
            if op in ("Shl", "ShlUnchecked"):
                if ssa.is_c(b):
                    wa = self.w(a, depth + 1)
                    if wa is TOP:
                        return TOP
                    return frozenset([e - b[1] for e in wa] + ([e for e in wa] if b[1] <= 2 else []))
                return TOP
            if op in ("Mul", "MulUnchecked"):
                if ssa.is_c(a):
                    a, b = b, a
                if ssa.is_c(b):
                    wa = self.w(a, depth + 1)
                    if wa is TOP:
                        return TOP
                    lg = self.const_log(b[1])
                    out = set(wa)
                    if lg is not None:
                        out |= {e - lg for e in wa}
                    return frozenset(out)
                wa, wb = self.w(a, depth + 1), self.w(b, depth + 1)
                if wa is TOP or wb is TOP:
                    return TOP
                return frozenset(x + y for x in wa for y in wb)
            if op in ("Eq", "Ne", "Lt", "Le", "Gt", "Ge"):
                return TOP
            return TOP
        if k == "un":
            return self.w(t[2], depth + 1) if t[1] in ("Not", "Neg") else TOP
        if k == "ite":
            wa, wb = self.w(t[2], depth + 1), self.w(t[3], depth + 1)
            r = isect(wa, wb)
            if r is not TOP and not r:
                self.problems.append((t, wa, wb))
                return TOP
            return r
        if k == "rotr":
            return TOP
        return TOP

    def _term_width(self, t, default):
        if isinstance(t, tuple) and t:
            if t[0] == "bin":
                return ssa.WIDTH.get(t[4], default)
            if t[0] == "cast":
                return ssa.WIDTH.get(t[2], default)
            if t[0] == "c":
                return ssa.WIDTH.get(t[2], default)
        return default


def show(t, d=0):
    if isinstance(t, ssa.Agg):
        return "{..}"
    if not isinstance(t, tuple) or not t:
        return str(t)
    if d > 5:
        return "…"
    if t[0] == "c":
        return hex(t[1]) if isinstance(t[1], int) and abs(t[1]) > 255 else str(t[1])
    if t[0] == "bin":
        return "(%s %s %s)" % (show(t[2], d + 1), t[1], show(t[3], d + 1))
    if t[0] == "load":
        return t[1]
    if t[0] == "ld":
        return "%s32(%s+%s)" % (t[1], t[3], show(t[4], d + 1))
    if t[0] == "cast":
        return "(%s as %s)" % (show(t[1], d + 1), t[2])
    if t[0] == "ite":
        return "ite(%s, %s, %s)" % (show(t[1], d + 1), show(t[2], d + 1), show(t[3], d + 1))
    return "%s(…)" % t[0]
