"""Length constants of a function: every integer constant of type usize (and every value a `usize` is switched on) in the
MIR of a function, its closures and -- optionally -- the crate-local helpers it calls.

Bounded shape evaluation decides a buffering / comparison loop for a finite set of (offset, length) shapes.  A realistic
defect that the chosen shapes would step over special-cases a length ("only the first 16 bytes", "runs of 32 blocks take
another path"): such code has to NAME that length, as a usize constant.  So the shape set is derived from the code on
every run: each length constant c contributes c-1, c, c+1 (in the rule's unit), and a constant too large to evaluate
withdraws the rule's authority to subsume the for-all-lengths structural rule (its report then stands)."""
import re


def usize_consts(P, fn, follow=None, depth=2, _seen=None):
    out = set()
    _seen = _seen if _seen is not None else set()
    if fn.id in _seen:
        return out
    _seen.add(fn.id)

    def op(o):
        if isinstance(o, list) and o and o[0] == "k" and isinstance(o[1], dict):
            v, t = o[1].get("v"), o[1].get("t")
            if t == "usize" and isinstance(v, int) and not isinstance(v, bool):
                out.add(v)

    def rv(r):
        if not isinstance(r, list):
            return
        for x in r:
            if isinstance(x, list):
                if x and x[0] == "k":
                    op(x)
                else:
                    rv(x)
    for b in sorted(fn.reachable()):
        if fn.diverges(b):
            continue
        for s in fn.stmts(b):
            if s[0] == "=":
                rv(s[2])
                for p in s[1][1]:
                    if isinstance(p, list) and p and p[0] in ("c", "s"):
                        for x in p[1:]:
                            if isinstance(x, int) and not isinstance(x, bool):
                                out.add(x)
        t = fn.term(b)
        if t[0] == "sw" and t[4] in ("usize", "u64", "u32"):
            for v, _ in t[2]:
                if isinstance(v, int):
                    out.add(v)
        if t[0] == "call":
            for a in t[2]:
                op(a)
            ga = (t[1][1].get("ga") or []) if t[1][0] == "k" else []
            for g in ga:
                if isinstance(g, str) and re.match(r"^\d+$", g):
                    out.add(int(g))
    for g in P.closures_of(fn):
        out |= usize_consts(P, g, follow, depth, _seen)
    if follow is not None and depth > 0:
        for c in fn.calls():
            if c.local and re.search(follow, c.name()):
                for g in P.by_path.get(c.name(), []):
                    out |= usize_consts(P, g, follow, depth - 1, _seen)
    return out


def around(consts, unit=1, lo=0, hi=1 << 30):
    """the counts (in units of `unit`) around every length constant: floor(c/unit)-1 .. floor(c/unit)+2; constants whose
    count exceeds `hi` are returned separately (too large to evaluate)"""
    out = set()
    big = []
    for c in sorted(consts):
        n = c // unit
        if n == 0:
            continue
        if n > hi:
            big.append(c)
            continue
        for x in (n - 1, n, n + 1, n + 2):
            if lo <= x <= hi:
                out.add(x)
    return out, big
