"""Fact base: runs the cxfacts driver over /repo's *current working tree* for a build
configuration and loads the JSON it writes.

Facts are cached under /verif/.cache keyed by a SHA-256 over every file that can influence
the build (src/**, Cargo.toml, Cargo.lock, build.rs) plus the configuration flags and the
driver binary: any edit to the tree changes the key and forces a fresh extraction, so a
cache hit is exactly "rustc would see the same input".  VERIF_NOCACHE=1 disables the cache.
"""
import hashlib
import json
import os
import shutil
import subprocess
import tempfile
import time

VERIF = os.path.dirname(os.path.dirname(os.path.abspath(__file__)))
REPO = os.environ.get("CX_REPO", "/repo")
DRIVER = os.path.join(VERIF, "driver", "target", "release", "cxfacts")
CACHE = os.environ.get("CX_CACHE_DIR") or os.path.join(VERIF, ".cache")

# build configurations (DESIGN §2.2)
CONFIGS = {
    "K0": {"name": "dbg", "rustflags": "", "features": []},
    "K1": {"name": "rel", "rustflags": "-C overflow-checks=off -C debug-assertions=off", "features": []},
    "K2": {"name": "force32", "rustflags": "", "features": ["force-32bits"]},
    "K3": {"name": "sse41", "rustflags": "-C target-feature=+sse4.1", "features": []},
    "K4": {"name": "avx", "rustflags": "-C target-feature=+avx", "features": []},
    "K5": {"name": "avx2", "rustflags": "-C target-feature=+avx2", "features": []},
    "K6": {"name": "portable", "rustflags": "-C target-feature=-sse2", "features": []},
    "K7": {"name": "force32-rel", "rustflags": "-C overflow-checks=off -C debug-assertions=off", "features": ["force-32bits"]},
}


def nightly_sysroot():
    return subprocess.check_output(["rustc", "+nightly", "--print", "sysroot"], text=True).strip()


_tree_hash = None


def tree_hash():
    global _tree_hash
    if _tree_hash is not None:
        return _tree_hash
    h = hashlib.sha256()
    paths = []
    for root, dirs, files in os.walk(os.path.join(REPO, "src")):
        dirs.sort()
        for f in sorted(files):
            paths.append(os.path.join(root, f))
    for extra in ("Cargo.toml", "Cargo.lock", "build.rs"):
        p = os.path.join(REPO, extra)
        if os.path.exists(p):
            paths.append(p)
    for p in paths:
        h.update(os.path.relpath(p, REPO).encode())
        h.update(b"\0")
        with open(p, "rb") as fh:
            h.update(fh.read())
        h.update(b"\0")
    if os.path.exists(DRIVER):
        st = os.stat(DRIVER)
        h.update(("%d:%d" % (st.st_size, int(st.st_mtime))).encode())
    _tree_hash = h.hexdigest()
    return _tree_hash


def base_env():
    env = dict(os.environ)
    env["CARGO_NET_OFFLINE"] = "true"
    env.pop("RUSTC_WRAPPER", None)
    return env


def extract(cfg, crate_dir=None, crate="cryptoxide", use_cache=True):
    """Return (facts dict, info dict) for build configuration `cfg` of the crate at crate_dir."""
    crate_dir = crate_dir or REPO
    c = CONFIGS[cfg]
    key = None
    if use_cache and crate_dir == REPO and not os.environ.get("VERIF_NOCACHE"):
        key = hashlib.sha256((tree_hash() + cfg + json.dumps(c, sort_keys=True)).encode()).hexdigest()[:32]
        cp = os.path.join(CACHE, key + ".json")
        if os.path.exists(cp):
            try:
                with open(cp) as fh:
                    d = json.load(fh)
                return d, {"cfg": cfg, "cached": True, "wall_s": 0.0}
            except (OSError, ValueError):
                pass
    t0 = time.time()
    tmp = tempfile.mkdtemp(prefix="cxfacts-")
    try:
        out = os.path.join(tmp, "facts.json")
        env = base_env()
        env["LD_LIBRARY_PATH"] = nightly_sysroot() + "/lib:" + env.get("LD_LIBRARY_PATH", "")
        env["RUSTFLAGS"] = ("-Zmir-opt-level=0 --cap-lints allow " + c["rustflags"]).strip()
        env["RUSTC_WORKSPACE_WRAPPER"] = DRIVER
        env["CARGO_TARGET_DIR"] = os.path.join(tmp, "tgt")
        env["CXFACTS_OUT"] = out
        env["CXFACTS_CRATE"] = crate
        run_id = "%s-%d" % (cfg, int(t0 * 1000))
        env["CXFACTS_RUN"] = run_id
        cmd = ["cargo", "+nightly", "check", "--offline", "--lib"]
        if c["features"]:
            cmd += ["--features", ",".join(c["features"])]
        p = subprocess.run(cmd, cwd=crate_dir, env=env, stdout=subprocess.PIPE, stderr=subprocess.STDOUT, text=True)
        if p.returncode != 0 or not os.path.exists(out):
            raise ExtractError(cfg, p.stdout[-4000:])
        with open(out) as fh:
            d = json.load(fh)
        if d.get("run") != run_id:
            raise ExtractError(cfg, "stale fact file (run id mismatch)")
        if key:
            os.makedirs(CACHE, exist_ok=True)
            # keep the cache small: drop entries older than the 60 newest
            def _mt(path):
                try:
                    return os.path.getmtime(path)
                except OSError:           # removed by a concurrently running check
                    return 0.0
            ents = sorted((os.path.join(CACHE, f) for f in os.listdir(CACHE)), key=_mt)
            for old in ents[:-60]:
                try:
                    os.remove(old)
                except OSError:
                    pass
            tmpc = os.path.join(CACHE, key + ".tmp%d" % os.getpid())
            shutil.copyfile(out, tmpc)
            os.replace(tmpc, os.path.join(CACHE, key + ".json"))
        return d, {"cfg": cfg, "cached": False, "wall_s": round(time.time() - t0, 2)}
    finally:
        shutil.rmtree(tmp, ignore_errors=True)


class ExtractError(Exception):
    def __init__(self, cfg, log):
        Exception.__init__(self, "fact extraction failed for %s" % cfg)
        self.cfg = cfg
        self.log = log


def build_check(features=(), rustflags="", toolchain=None, crate_dir=None):
    """R-BUILD: type-check the crate with its own lint levels.  Returns (ok, log)."""
    crate_dir = crate_dir or REPO
    tmp = tempfile.mkdtemp(prefix="cxbuild-")
    try:
        env = base_env()
        env["CARGO_TARGET_DIR"] = os.path.join(tmp, "tgt")
        if rustflags:
            env["RUSTFLAGS"] = rustflags
        else:
            env.pop("RUSTFLAGS", None)
        cmd = ["cargo"] + (["+" + toolchain] if toolchain else []) + ["check", "--offline", "--lib"]
        if features:
            cmd += ["--features", ",".join(features)]
        p = subprocess.run(cmd, cwd=crate_dir, env=env, stdout=subprocess.PIPE, stderr=subprocess.STDOUT, text=True)
        return p.returncode == 0, p.stdout[-6000:]
    finally:
        shutil.rmtree(tmp, ignore_errors=True)
