"""Interval domain on ssa terms with wrap detection (R-INV building block).

iv(t) returns (lo, hi) of the mathematical value of t given leaf intervals; every operation whose
mathematical result can leave the range of its type is recorded in `wraps` (for wrapping_* ops the
value then wraps: the interval becomes the full type range)."""
from . import ssa


def ty_range(ty):
    w = ssa.WIDTH.get(ty)
    if w is None:
        return None
    if ty == "bool":
        return (0, 1)
    if ssa.is_signed(ty):
        return (-(1 << (w - 1)), (1 << (w - 1)) - 1)
    return (0, (1 << w) - 1)


class Intervals:
    def __init__(self, leaf, override=None):
        self.leaf = leaf              # leaf(term) -> (lo, hi) or None
        self.override = override or {}
        self.wraps = []
        self.unknown = []
        self.memo = {}

    def iv(self, t):
        if t in self.override:
            return self.override[t]
        if t in self.memo:
            return self.memo[t]
        r = self._iv(t)
        self.memo[t] = r
        return r

    def _fit(self, t, lo, hi, ty):
        r = ty_range(ty)
        if r is None:
            return (lo, hi)
        if lo < r[0] or hi > r[1]:
            self.wraps.append((t, (lo, hi), ty))
            return r
        return (lo, hi)

    def _iv(self, t):
        if not isinstance(t, tuple) or not t:
            self.unknown.append(t)
            return (-(1 << 200), 1 << 200)
        lf = self.leaf(t)
        if lf is not None:
            return lf
        k = t[0]
        if k == "c":
            return (t[1], t[1])
        if k == "cast":
            lo, hi = self.iv(t[1])
            r = ty_range(t[2])
            if r is None:
                return (lo, hi)
            if lo >= r[0] and hi <= r[1]:
                return (lo, hi)
            # truncating / reinterpreting cast
            w = ssa.WIDTH[t[2]]
            if ssa.is_signed(t[2]) and lo >= 0 and hi < (1 << w):
                # unsigned -> signed same width reinterpretation
                return r
            if not ssa.is_signed(t[2]) and lo >= -(1 << (w - 1)) and hi < 0:
                return ((1 << w) + lo, (1 << w) + hi)
            if not ssa.is_signed(t[2]) and lo < 0 <= hi and lo >= -(1 << (w - 1)):
                return r
            return r
        if k == "bin":
            op, a, b, ty = t[1], t[2], t[3], t[4]
            la, ha = self.iv(a)
            lb, hb = self.iv(b)
            if op in ("Add", "AddUnchecked"):
                return self._fit(t, la + lb, ha + hb, ty)
            if op in ("Sub", "SubUnchecked"):
                return self._fit(t, la - hb, ha - lb, ty)
            if op in ("Mul", "MulUnchecked"):
                c = [la * lb, la * hb, ha * lb, ha * hb]
                return self._fit(t, min(c), max(c), ty)
            if op in ("Shr", "ShrUnchecked") and lb == hb and lb >= 0:
                return (la >> lb, ha >> lb)
            if op in ("Shl", "ShlUnchecked") and lb == hb and lb >= 0:
                return self._fit(t, la << lb, ha << lb, ty)
            if op == "BitAnd":
                if lb == hb and lb >= 0 and la >= 0:
                    return (0, min(ha, hb))
                if la == ha and la >= 0 and lb >= 0:
                    return (0, min(ha, hb))
                if la >= 0 and lb >= 0:
                    return (0, min(ha, hb))
            if op in ("BitOr", "BitXor") and la >= 0 and lb >= 0:
                m = max(ha, hb)
                return (0, (1 << m.bit_length()) - 1)
            if op in ("Eq", "Ne", "Lt", "Le", "Gt", "Ge"):
                return (0, 1)
            r = ty_range(ty)
            return r if r else (-(1 << 200), 1 << 200)
        if k == "ite":
            l1, h1 = self.iv(t[2])
            l2, h2 = self.iv(t[3])
            return (min(l1, l2), max(h1, h2))
        if k == "un" and t[1] == "Not":
            r = ty_range(t[3])
            return r if r else (0, 1)
        self.unknown.append(t)
        return (-(1 << 200), 1 << 200)
