"""Predicate normalisation: branch conditions -> canonical linear atoms.

An atom is (rel, coeffs, bound) with coeffs a sorted tuple of (leaf, coefficient):
    rel 'le':  sum(coeff*leaf) <= bound        rel 'eq': == bound        rel 'ne': != bound
Integer semantics (a < b  ==  a - b <= -1).  Any equivalent way of writing a comparison of
linear integer terms yields the same atom; an off-by-one yields a different bound.
Leaves are canonical strings built from argument positions and field names, never from
MIR local numbers of temporaries."""
from .mir import fmt

LEN_FNS = ("core::slice::<impl [T]>::len", "alloc::vec::Vec::<T, A>::len", "core::str::<impl str>::len")
EMPTY_FNS = ("core::slice::<impl [T]>::is_empty", "alloc::vec::Vec::<T, A>::is_empty")
TRANSPARENT_CALLS = ("core::ops::Deref::deref", "<alloc::vec::Vec<T, A> as core::ops::Deref>::deref", "core::convert::AsRef::as_ref", "<[T] as core::convert::AsRef<[T]>>::as_ref",
                     "core::slice::<impl [T]>::as_ref", "<alloc::vec::Vec<T, A> as core::ops::DerefMut>::deref_mut")


def canon(e, fn=None):
    """Canonical, refactor-stable string for a leaf expression."""
    if not isinstance(e, tuple):
        return str(e)
    k = e[0]
    if k == "const":
        return str(e[1])
    if k == "arg":
        return "arg%d" % e[1]
    if k == "param":
        return "P:" + e[1]
    if k == "var":
        if fn is not None and e[1] in fn.dbg:
            return "v:" + fn.dbg[e[1]]
        return "_%d" % e[1]
    if k == "deref":
        return canon(e[1], fn)
    if k == "ref":
        return canon(e[2], fn)
    if k == "field":
        return canon(e[1], fn) + "." + (e[3] if e[3] != "" else str(e[2]))
    if k == "cast":
        return canon(e[2], fn)
    if k == "un" and e[1] == "PtrMetadata":
        return "len(%s)" % canon(e[2], fn)
    if k == "call":
        if e[1] in LEN_FNS:
            return "len(%s)" % canon(e[2][0], fn)
        if ("ops::Index" in e[1]) and (e[1].endswith("::index") or e[1].endswith("::index_mut")) and len(e[2]) == 2:
            rng = e[2][1]
            if rng[0] == "agg":
                kind = str(rng[1])
                b = canon(e[2][0], fn)
                if "RangeFull" in kind:
                    return b
                if "RangeFrom" in kind:
                    return "%s[%s..]" % (b, canon(rng[2][0], fn))
                if "RangeTo" in kind:
                    return "%s[..%s]" % (b, canon(rng[2][0], fn))
                if "core::ops::Range" in kind and len(rng[2]) == 2:
                    return "%s[%s..%s]" % (b, canon(rng[2][0], fn), canon(rng[2][1], fn))
        if e[1] in TRANSPARENT_CALLS or e[1].endswith("Result::<T, E>::unwrap") or "TryFrom<" in e[1] and e[1].endswith("::try_from") or e[1] == "core::convert::TryFrom::try_from":
            return canon(e[2][0], fn)
        return "%s(%s)" % (_callname(e[1]), ",".join(canon(a, fn) for a in e[2]))
    if k == "bin":
        if e[1] in ("Add", "Sub", "Mul", "AddUnchecked", "SubUnchecked", "MulUnchecked", "Shl"):
            l, c = lin(e, fn)
            if not (len(l) == 1 and c == 0 and list(l.values()) == [1] and list(l.keys())[0].startswith("(")):
                return "lin{%s%+d}" % ("".join("%+d*%s" % (v, n) for n, v in sorted(l.items())), c)
        if e[1] == "Rem" and e[3][0] == "const":
            return "mod(%s,%d)" % (canon(e[2], fn), e[3][1])
        if e[1] == "BitAnd":
            for a, b in ((e[2], e[3]), (e[3], e[2])):
                if b[0] == "const" and b[1] > 0 and (b[1] & (b[1] + 1)) == 0:
                    return "mod(%s,%d)" % (canon(a, fn), b[1] + 1)
        if e[1] in ("BitOr", "BitXor", "BitAnd", "Eq", "Ne"):
            a, b = sorted([canon(e[2], fn), canon(e[3], fn)])
            return "(%s %s %s)" % (a, e[1], b)
        return "(%s %s %s)" % (canon(e[2], fn), e[1], canon(e[3], fn))
    if k == "un":
        return "%s(%s)" % (e[1], canon(e[2], fn))
    if k == "rep":
        return "[%s; %s]" % (canon(e[1], fn), e[2])
    if k == "agg":
        return "agg:%s(%s)" % (e[1][1] if len(e[1]) > 1 else e[1][0], ",".join(canon(a, fn) for a in e[2]))
    if k == "index":
        return "%s[%s]" % (canon(e[1], fn), canon(e[2], fn))
    if k == "cindex":
        return "%s[%d]" % (canon(e[1], fn), e[2])
    if k == "kconst":
        v = repr(e[3])
        if e[3] is not None and len(v) <= 120:
            return "K%s" % v.replace(" ", "")
        return "K:%s" % (e[1],)
    if k == "downcast":
        return "%s?%s" % (canon(e[1], fn), e[3])
    if k == "disc":
        return "disc(%s)" % canon(e[1], fn)
    return fmt(e)


def lin(e, fn=None):
    """Linear form of an integer expression: (dict leaf->coeff, const)."""
    if not isinstance(e, tuple):
        return ({str(e): 1}, 0)
    k = e[0]
    if k == "const":
        return ({}, e[1])
    if k == "cast" and e[1] == "IntToInt":
        return lin(e[2], fn)
    if k == "bin" and e[1] in ("Add", "Sub", "AddUnchecked", "SubUnchecked"):
        a, ca = lin(e[2], fn)
        b, cb = lin(e[3], fn)
        sgn = 1 if e[1].startswith("Add") else -1
        out = dict(a)
        for kk, v in b.items():
            out[kk] = out.get(kk, 0) + sgn * v
        return ({kk: v for kk, v in out.items() if v != 0}, ca + sgn * cb)
    if k == "bin" and e[1] in ("Mul", "MulUnchecked"):
        a, ca = lin(e[2], fn)
        b, cb = lin(e[3], fn)
        if not a:
            return ({kk: v * ca for kk, v in b.items() if v * ca != 0}, ca * cb)
        if not b:
            return ({kk: v * cb for kk, v in a.items() if v * cb != 0}, ca * cb)
    if k == "bin" and e[1] == "Shl":
        b, cb = lin(e[3], fn)
        if not b and 0 <= cb < 64:
            a, ca = lin(e[2], fn)
            m = 1 << cb
            return ({kk: v * m for kk, v in a.items()}, ca * m)
    if k == "call" and e[1].startswith("core::mem::size_of::<"):
        sz = {"usize": 8, "isize": 8, "u64": 8, "i64": 8, "u32": 4, "i32": 4, "u16": 2, "u8": 1, "u128": 16}.get(e[1][len("core::mem::size_of::<"):-1])
        if sz is not None:
            return ({}, sz)
    if k == "call" and e[1].endswith("cmp::min") and len(e[2]) == 2:
        a, b = sorted([canon(e[2][0], fn), canon(e[2][1], fn)])
        return ({"min(%s,%s)" % (a, b): 1}, 0)
    if k == "bin" and e[1] in ("Add", "Sub", "Mul", "AddUnchecked", "SubUnchecked", "MulUnchecked", "Shl"):
        return ({"(%s %s %s)" % (canon(e[2], fn), e[1], canon(e[3], fn)): 1}, 0)
    return ({canon(e, fn): 1}, 0)


def _mk(rel, coeffs, const):
    # sum(coeffs) + const  rel  0   ->  sum(coeffs) rel -const
    items = tuple(sorted((k, v) for k, v in coeffs.items() if v != 0))
    bound = -const
    if rel in ("eq", "ne") and items and items[0][1] < 0:
        items = tuple((k, -v) for k, v in items)
        bound = -bound
    return (rel, items, bound)


def cmp_atom(op, a, b, truth=True, fn=None):
    """Atom for (a op b) == truth."""
    la, ca = lin(a, fn)
    lb, cb = lin(b, fn)
    d = dict(la)
    for k, v in lb.items():
        d[k] = d.get(k, 0) - v
    c = ca - cb
    neg = {k: -v for k, v in d.items()}
    if not truth:
        op = {"Lt": "Ge", "Le": "Gt", "Gt": "Le", "Ge": "Lt", "Eq": "Ne", "Ne": "Eq"}[op]
    if op == "Le":
        return _mk("le", d, c)
    if op == "Lt":
        return _mk("le", d, c + 1)
    if op == "Ge":
        return _mk("le", neg, -c)
    if op == "Gt":
        return _mk("le", neg, -c + 1)
    if op == "Eq":
        return _mk("eq", d, c)
    if op == "Ne":
        return _mk("ne", d, c)
    return None


def atoms_of(e, truth, fn=None):
    """Conjunction of atoms equivalent to (bool expr e) == truth, or None if e is not a
    comparison this normaliser understands."""
    if not isinstance(e, tuple):
        return None
    k = e[0]
    if k == "bin" and e[1] in ("Lt", "Le", "Gt", "Ge", "Eq", "Ne"):
        a = cmp_atom(e[1], e[2], e[3], truth, fn)
        return [a] if a else None
    if k == "un" and e[1] == "Not":
        return atoms_of(e[2], not truth, fn)
    if k == "call" and e[1] in EMPTY_FNS:
        return [cmp_atom("Eq", ("un", "PtrMetadata", e[2][0]), ("const", 0), truth, fn)]
    if k == "call" and e[1].endswith("::eq") and len(e[2]) == 2:
        a, b = e[2]
        return [cmp_atom("Eq", _unref(a), _unref(b), truth, fn)]
    if k == "call" and e[1].endswith("::ne") and len(e[2]) == 2:
        a, b = e[2]
        return [cmp_atom("Ne", _unref(a), _unref(b), truth, fn)]
    if k == "const":
        return []
    if k == "bin" and e[1] == "BitAnd" and truth:
        a = atoms_of(e[2], True, fn)
        b = atoms_of(e[3], True, fn)
        if a is not None and b is not None:
            return a + b
    return None


def _unref(e):
    while isinstance(e, tuple) and e[0] == "ref":
        e = e[2]
    return e


def facts_at(fn, bb):
    """All atoms known to hold on entry to block bb (from dominating branch edges / asserts)."""
    out = []
    for e, val, origin in fn.edge_facts(bb):
        if isinstance(val, bool):
            a = atoms_of(e, val, fn)
            if a:
                out.extend(a)
            else:
                out.append(("bool", canon(e, fn), val))
        else:
            kind, vals = val
            if kind == "in" and len(vals) == 1:
                out.append(cmp_atom("Eq", e, ("const", vals[0]), True, fn))
            elif kind == "in":
                out.append(("in", canon(e, fn), tuple(sorted(vals))))
            else:
                for v in vals:
                    out.append(cmp_atom("Ne", e, ("const", v), True, fn))
    return out


def implies(known, want):
    """Does the conjunction `known` imply atom `want`?  (Syntactic, same coefficient vector.)"""
    for k in known:
        if k == want:
            return True
        if k[0] in ("le", "eq", "ne") and want[0] in ("le", "eq", "ne") and k[1] == want[1]:
            if want[0] == "le" and k[0] == "le" and k[2] <= want[2]:
                return True
            if want[0] == "le" and k[0] == "eq" and k[2] <= want[2]:
                return True
            if want[0] == "ne" and k[0] == "eq" and k[2] != want[2]:
                return True
            if want[0] == "ne" and k[0] == "le" and k[2] < want[2]:
                return True
        # eq with flipped sign
        if want[0] == "le" and k[0] == "eq":
            negk = tuple((n, -v) for n, v in k[1])
            if negk == want[1] and -k[2] <= want[2]:
                return True
        if want[0] == "le" and k[0] == "le":
            pass
    # le from two-sided: want eq, known has le both sides
    if want[0] == "eq":
        up = ("le", want[1], want[2])
        lo = ("le", tuple((n, -v) for n, v in want[1]), -want[2])
        if implies(known, up) and implies(known, lo) and ("eq" != "eq" or True):
            # careful: implies() on 'le' never recurses into this branch
            return True
    return False


def show(atom):
    if atom is None:
        return "?"
    if atom[0] in ("le", "eq", "ne"):
        terms = " + ".join(("%s" % n if v == 1 else "%d*%s" % (v, n)) for n, v in atom[1]) or "0"
        return "%s %s %d" % (terms, {"le": "<=", "eq": "==", "ne": "!="}[atom[0]], atom[2])
    return str(atom)


def A(rel, bound, **coeffs):
    """Build a spec-side atom: A('le', 64, **{'arg1.offset': 1})"""
    items = tuple(sorted((k, v) for k, v in coeffs.items() if v != 0))
    if rel in ("eq", "ne") and items and items[0][1] < 0:
        items = tuple((k, -v) for k, v in items)
        bound = -bound
    return (rel, items, bound)


def atom(rel, bound, coeffs):
    return A(rel, bound, **coeffs)


_SHORT = [False]


def _callname(name):
    if not _SHORT[0]:
        return name
    import re as _re
    name = _re.sub(r"#.*$", "", name)
    parts = [x for x in name.split("::") if x and not _re.match(r"^<[A-Za-z0-9_, ]+>$", x)]
    tail = parts[-1]
    if len(parts) >= 2:
        prev = parts[-2]
        prev = prev.split(" as ")[-1]
        prev = prev.lstrip("<&").split("<")[0].rstrip(">")
        prev = prev.split("::")[-1]
        if _re.match(r"^[A-Z]", prev):
            return prev + "::" + tail
    return tail


def short(e, fn=None):
    """canon() with call paths shortened to `Type::method` / `function` — for wiring rules that
    compare whole dataflow expressions such as `Ge::to_bytes(Ge::scalarmult_base(nonce))`."""
    _SHORT[0] = True
    try:
        return canon(e, fn)
    finally:
        _SHORT[0] = False
