"""Bit-provenance domain on expression trees (R-BITS / R-KBITS for straight-line shift/mask code).

A value of width w is a list of w bit descriptors, least significant first:
    0 | 1            known constant bit
    (base, k)        exactly bit k of the byte string `base` read little-endian (bit k of byte k//8)
    None             unknown
Exact for constants, LE loads from constant windows, shifts by constants, masks, OR with disjoint
support, integer casts.  Anything else is None."""
from . import pred, rules
from .mir import walk

WIDTH = {"u8": 8, "u16": 16, "u32": 32, "u64": 64, "u128": 128, "usize": 64, "i8": 8, "i16": 16, "i32": 32, "i64": 64, "i128": 128, "isize": 64, "bool": 8}


def const_bits(v, w):
    v &= (1 << w) - 1
    return [(v >> i) & 1 for i in range(w)]


def _fit(bits, w):
    if len(bits) >= w:
        return bits[:w]
    return bits + [0] * (w - len(bits))


def eval_bits(fn, e, w, env=None):
    """Bit descriptors of expression e at width w.  env maps canonical leaf names to bit lists."""
    env = env or {}
    k = e[0]
    if k == "const":
        return const_bits(e[1], w)
    cnm = None
    if k in ("var", "arg", "field", "index", "cindex", "deref"):
        cnm = pred.canon(e, fn)
        if cnm in env:
            return _fit(list(env[cnm]), w)
    if k == "cast" and e[1] == "IntToInt":
        src_w = WIDTH.get(_type_of_cast_src(fn, e), None)
        inner = eval_bits(fn, e[2], src_w or w, env)
        signed = False
        return _fit(inner, w)
    if k == "call":
        nm = e[1]
        if nm in ("cryptoutil::read_u32_le", "cryptoutil::read_u64_le", "cryptoutil::read_u32_be", "cryptoutil::read_u64_be") or nm.endswith("::from_le_bytes") or nm.endswith("::from_be_bytes"):
            n = 64 if "u64" in nm else 32
            if nm.endswith("_bytes"):
                n = WIDTH.get(nm.split("<impl ")[1].split(">")[0], 32) if "<impl " in nm else 32
            win = rules.window(fn, e[2][0])
            if win and win[2] is not None and not win[1][0] and not win[2][0] and (win[2][1] - win[1][1]) * 8 == n:
                o = win[1][1]
                if nm.endswith("_le") or nm.endswith("from_le_bytes"):
                    bits = [(win[0], 8 * o + j) for j in range(n)]
                else:
                    nb = n // 8
                    bits = [(win[0], 8 * (o + nb - 1 - j // 8) + j % 8) for j in range(n)]
                return _fit(bits, w)
            return [None] * w
        if nm.endswith("::wrapping_shr") or nm.endswith("::wrapping_shl"):
            pass
        return [None] * w
    if k == "bin":
        op = e[1]
        if op in ("Shr", "ShrUnchecked", "Shl", "ShlUnchecked"):
            amt = _strip(e[3])
            if amt[0] != "const":
                return [None] * w
            a = eval_bits(fn, e[2], w, env)
            s = amt[1]
            if op.startswith("Shr"):
                return _fit(a[s:], w)
            return _fit([0] * s + a, w)
        if op == "BitAnd":
            a = eval_bits(fn, e[2], w, env)
            b = eval_bits(fn, e[3], w, env)
            out = []
            for x, y in zip(a, b):
                if x == 0 or y == 0:
                    out.append(0)
                elif x == 1:
                    out.append(y)
                elif y == 1:
                    out.append(x)
                elif x == y:
                    out.append(x)
                else:
                    out.append(None)
            return out
        if op == "BitOr":
            a = eval_bits(fn, e[2], w, env)
            b = eval_bits(fn, e[3], w, env)
            out = []
            for x, y in zip(a, b):
                if x == 1 or y == 1:
                    out.append(1)
                elif x == 0:
                    out.append(y)
                elif y == 0:
                    out.append(x)
                elif x == y:
                    out.append(x)
                else:
                    out.append(None)
            return out
        if op == "BitXor":
            a = eval_bits(fn, e[2], w, env)
            b = eval_bits(fn, e[3], w, env)
            out = []
            for x, y in zip(a, b):
                if x == 0:
                    out.append(y)
                elif y == 0:
                    out.append(x)
                elif x in (0, 1) and y in (0, 1):
                    out.append(x ^ y)
                else:
                    out.append(None)
            return out
    if k == "un" and e[1] == "Not":
        a = eval_bits(fn, e[2], w, env)
        return [1 - x if x in (0, 1) else None for x in a]
    return [None] * w


def _strip(e):
    while isinstance(e, tuple) and e[0] == "cast":
        e = e[2]
    return e


def _type_of_cast_src(fn, e):
    # best effort: infer from the inner expression
    inner = e[2]
    if inner[0] == "const":
        return inner[2]
    if inner[0] == "call":
        nm = inner[1]
        if "u32" in nm:
            return "u32"
        if "u64" in nm:
            return "u64"
        if "u8" in nm:
            return "u8"
    if inner[0] == "cast":
        return inner[3]
    if inner[0] in ("index", "cindex", "field", "deref", "var", "arg"):
        return None
    return None


def show(bits):
    out = []
    for b in bits:
        if b in (0, 1):
            out.append(str(b))
        elif b is None:
            out.append("?")
        else:
            out.append("%s.%d" % (b[0], b[1]))
    return "[" + " ".join(out) + "]"
