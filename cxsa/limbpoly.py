"""Limb-polynomial domain (R-POLY for multi-precision arithmetic).

val(t) maps an ssa term to a polynomial with integer coefficients that equals the mathematical value
of t *provided no intermediate operation overflows / truncates* (those provisos are the separate
interval obligations).  Carry splitting is exact:
        x >> k        ->  Q(x,k)                       (a fresh symbol per distinct (x, k))
        x & (2^k - 1) ->  val(x) - 2^k * Q(x,k)
so after summing the output limbs with their radix weights all Q symbols must cancel modulo the
field prime (2^M = c) — which happens exactly when every carry is added to the right limb with the
right factor.  The remaining polynomial is compared with the specification (f+g, f*g, ...)."""
from . import ssa
from .poly import Poly


class LimbPoly:
    def __init__(self, leaf, opaque=None, narrow=False):
        self.leaf = leaf          # leaf(term) -> symbol name or None
        self.opaque = opaque      # opaque(term) -> symbol name or None  (whole sub-terms treated as symbols)
        self.narrow = narrow      # model narrowing unsigned casts exactly:  (x as uN) = x - 2^N * Q(x, N)
        self.memo = {}
        self.qnames = {}
        self.assumed = []
        self.unknown = []

    def q(self, x, k):
        key = (x, k)
        if key not in self.qnames:
            self.qnames[key] = "Q%d" % len(self.qnames)
        return Poly.var(self.qnames[key])

    def val(self, t):
        if t in self.memo:
            return self.memo[t]
        r = self._val(t)
        self.memo[t] = r
        return r

    def _val(self, t):
        if not isinstance(t, tuple) or not t:
            self.unknown.append(t)
            return Poly.var("?%d" % len(self.unknown))
        if self.opaque is not None:
            o = self.opaque(t)
            if o is not None:
                return Poly.var(o)
        lf = self.leaf(t)
        if lf is not None:
            return Poly.var(lf)
        k = t[0]
        if k == "c":
            return Poly.const(t[1])
        if k == "cast":
            if self.narrow:
                wo = ssa.WIDTH.get(t[2])
                inner = t[1]
                wi = None
                if isinstance(inner, tuple) and inner:
                    if inner[0] == "bin":
                        wi = ssa.WIDTH.get(inner[4])
                    elif inner[0] == "cast":
                        wi = ssa.WIDTH.get(inner[2])
                if wo and wi and wo < wi and not ssa.is_signed(t[2]):
                    x = self._strip_cast(inner)
                    return self.val(inner) - self.q(x, wo) * (1 << wo)
            return self.val(t[1])
        if k == "un" and t[1] == "Neg":
            return Poly() - self.val(t[2])
        if k == "bin":
            op, a, b = t[1], t[2], t[3]
            if op in ("Add", "AddUnchecked"):
                return self.val(a) + self.val(b)
            if op in ("Sub", "SubUnchecked"):
                return self.val(a) - self.val(b)
            if op in ("Mul", "MulUnchecked"):
                return self.val(a) * self.val(b)
            if op in ("Shl", "ShlUnchecked") and ssa.is_c(b):
                W_ = ssa.WIDTH.get(t[4]) if len(t) > 4 else None
                if self.narrow and W_ and 0 < b[1] < W_ and not ssa.is_signed(t[4]) and W_ <= 32:
                    # a left shift in a narrow unsigned word drops the bits shifted out:  (x << k) mod 2^W = (x mod 2^(W-k)) * 2^k
                    xs_ = self._strip_cast(a)
                    return (self.val(xs_) - self.q(xs_, W_ - b[1]) * (1 << (W_ - b[1]))) * (1 << b[1])
                return self.val(a) * (1 << b[1])
            if op in ("Shr", "ShrUnchecked") and ssa.is_c(b):
                # (v << a) >> b  with b > a   ==  v >> (b - a)
                if isinstance(a, tuple) and a and a[0] == "bin" and a[1] in ("Shl", "ShlUnchecked") and ssa.is_c(a[3]) and b[1] > a[3][1]:
                    return self.q(self._strip_cast(a[2]), b[1] - a[3][1])
                return self.q(self._strip_cast(a), b[1])
            if op == "BitAnd":
                for x, m in ((a, b), (b, a)):
                    if ssa.is_c(m) and m[1] > 0 and (m[1] & (m[1] + 1)) == 0:
                        kbits = m[1].bit_length()
                        xs = self._strip_cast(x)
                        if self.narrow and isinstance(xs, tuple) and xs[0] == "bin" and xs[1] == "BitOr":
                            # (lo | (hi << k)) & (2^w - 1)  with lo < 2^k (digit proviso):  lo + 2^k * (hi mod 2^(w-k))
                            for lo_, sh_ in ((xs[2], xs[3]), (xs[3], xs[2])):
                                sh_ = self._strip_cast(sh_)
                                if isinstance(sh_, tuple) and sh_[0] == "bin" and sh_[1] in ("Shl", "ShlUnchecked") and ssa.is_c(sh_[3]) and 0 < sh_[3][1] < kbits:
                                    k_ = sh_[3][1]
                                    hi_ = self._strip_cast(sh_[2])
                                    self.assumed.append(("packed-low-part-below-2^k", lo_, k_))
                                    return self.val(lo_) + (self.val(hi_) - self.q(hi_, kbits - k_) * (1 << (kbits - k_))) * (1 << k_)
                        return self.val(xs) - self.q(xs, kbits) * (1 << kbits)
            if op == "BitOr":
                # disjoint-support OR used for limb packing: treated as addition (proviso: supports disjoint)
                self.assumed.append(("or-as-add", t))
                return self.val(a) + self.val(b)
        self.unknown.append(t)
        return Poly.var("?%d" % len(self.unknown))

    def _strip_cast(self, t):
        while isinstance(t, tuple) and t and t[0] == "cast":
            t = t[1]
        return t


def reduce_mod(poly, M, c, syms_weight=None):
    """Coefficients modulo p = 2^M - c."""
    p = (1 << M) - c
    return poly.mod(p)


def weighted_sum(polys, weights):
    acc = Poly()
    for pl, w in zip(polys, weights):
        acc = acc + pl * w
    return acc
