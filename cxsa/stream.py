"""Path-sensitive abstract interpretation of buffering code over a *shape* domain.

Contents of buffers are abstracted away entirely; what is tracked is the arithmetic of lengths,
indices and slice windows as linear forms over symbols (initial field values, slice lengths,
const-generic parameters), one abstract state per CFG path (trace partitioning), with

  * branch conditions and succeeded asserts / bounds checks added to the path's fact set,
  * loops widened to fresh symbols, with a Houdini fixpoint over the templates
        x == x0, x - y == x0 - y0, x >= x0, x <= u, x < u
    giving the inductive loop invariant,
  * entailment between linear facts decided by Fourier-Motzkin elimination (rational relaxation:
    a proved entailment is sound for the integers; failure to prove is reported, never assumed).

On top runs a ghost *stream monitor* (see StreamSpec) with two counters, the input cursor c and the
pending-byte count q, that turns "every input byte is absorbed exactly once, in order, in whole
blocks" into obligations on the events of each path.  Nothing is executed: the only inputs are the
MIR facts of the function being analysed.
"""
import re
from fractions import Fraction
from math import gcd

from . import mir


# ----------------------------------------------------------------------------- linear forms
class Lin:
    __slots__ = ("t", "c", "_h")

    def __init__(self, t=None, c=0):
        self.t = {k: v for k, v in (t or {}).items() if v != 0}
        self.c = c
        self._h = None

    @staticmethod
    def sym(s):
        return Lin({s: 1}, 0)

    @staticmethod
    def const(c):
        return Lin({}, c)

    def is_const(self):
        return not self.t

    def __add__(self, o):
        o = as_lin(o)
        t = dict(self.t)
        for k, v in o.t.items():
            t[k] = t.get(k, 0) + v
        return Lin(t, self.c + o.c)

    def __neg__(self):
        return Lin({k: -v for k, v in self.t.items()}, -self.c)

    def __sub__(self, o):
        return self + (-as_lin(o))

    def scale(self, n):
        return Lin({k: v * n for k, v in self.t.items()}, self.c * n)

    def key(self):
        return (tuple(sorted(self.t.items())), self.c)

    def __eq__(self, o):
        return isinstance(o, Lin) and self.key() == o.key()

    def __hash__(self):
        if self._h is None:
            self._h = hash(self.key())
        return self._h

    def syms(self):
        return set(self.t)

    def subst(self, m):
        out = Lin({}, self.c)
        for k, v in self.t.items():
            out = out + (m[k].scale(v) if k in m else Lin({k: v}, 0))
        return out

    def __repr__(self):
        parts = []
        for k, v in sorted(self.t.items()):
            parts.append(("%s" % k) if v == 1 else ("-%s" % k) if v == -1 else "%d*%s" % (v, k))
        if self.c or not parts:
            parts.append(str(self.c))
        return " + ".join(parts).replace("+ -", "- ")


def as_lin(x):
    if isinstance(x, Lin):
        return x
    if isinstance(x, int):
        return Lin.const(x)
    raise TypeError("not linear: %r" % (x,))


# atoms: ('le', lin)  lin <= 0 ; ('eq', lin) ; ('ne', lin) ; ('opq', sym, polarity) ; ('true',) ; ('false',)
def a_le(a, b):
    return ("le", as_lin(a) - as_lin(b))


def a_lt(a, b):
    return ("le", as_lin(a) - as_lin(b) + 1)


def a_eq(a, b):
    return ("eq", as_lin(a) - as_lin(b))


def a_ne(a, b):
    return ("ne", as_lin(a) - as_lin(b))


def neg_atom(a):
    k = a[0]
    if k == "le":
        return ("le", (-a[1]) + 1)
    if k == "eq":
        return ("ne", a[1])
    if k == "ne":
        return ("eq", a[1])
    if k == "opq":
        return ("opq", a[1], not a[2])
    if k == "true":
        return ("false",)
    if k == "false":
        return ("true",)
    raise ValueError(a)


def show_atom(a):
    if a[0] in ("le", "eq", "ne"):
        return "%r %s 0" % (a[1], {"le": "<=", "eq": "==", "ne": "!="}[a[0]])
    return repr(a)


# ----------------------------------------------------------------------------- Fourier-Motzkin
def _norm(t, c):
    g = 0
    for v in t.values():
        g = gcd(g, abs(v))
    if g > 1:
        # integer tightening: sum(t) + c <= 0 with all coefficients divisible by g
        t = {k: v // g for k, v in t.items()}
        c = -((-c) // g)  # ceil(c / g)
    return t, c


def fm_infeasible(cons, limit=4000):
    """cons: list of (dict sym->int, int) meaning sum + c <= 0.  True iff (rationally, with integer
    tightening) infeasible.  Gives up (returns False) beyond `limit` constraints."""
    cur = []
    seen = set()
    for t, c in cons:
        t = {k: v for k, v in t.items() if v}
        t, c = _norm(t, c)
        if not t:
            if c > 0:
                return True
            continue
        kk = (tuple(sorted(t.items())), c)
        if kk not in seen:
            seen.add(kk)
            cur.append((t, c))
    while True:
        syms = {}
        for t, c in cur:
            for k, v in t.items():
                p, n = syms.get(k, (0, 0))
                syms[k] = (p + 1, n) if v > 0 else (p, n + 1)
        if not syms:
            return False
        # a symbol appearing with one sign only: drop its constraints
        x = min(syms, key=lambda k: (syms[k][0] * syms[k][1], k))
        pos = [(t, c) for t, c in cur if t.get(x, 0) > 0]
        negs = [(t, c) for t, c in cur if t.get(x, 0) < 0]
        rest = [(t, c) for t, c in cur if x not in t]
        new = []
        seen = set()
        for tp, cp in pos:
            for tn, cn in negs:
                a, b = tp[x], -tn[x]
                t = {}
                for k, v in tp.items():
                    t[k] = t.get(k, 0) + v * b
                for k, v in tn.items():
                    t[k] = t.get(k, 0) + v * a
                t = {k: v for k, v in t.items() if v}
                c = cp * b + cn * a
                t, c = _norm(t, c)
                if not t:
                    if c > 0:
                        return True
                    continue
                kk = (tuple(sorted(t.items())), c)
                if kk not in seen:
                    seen.add(kk)
                    new.append((t, c))
        cur = rest + new
        if len(cur) > limit:
            return False
        # drop dominated duplicates (same coefficients, weaker constant)
        best = {}
        for t, c in cur:
            kk = tuple(sorted(t.items()))
            if kk not in best or c > best[kk]:
                best[kk] = c
        cur = [(dict(k), c) for k, c in best.items()]


_ENT_CACHE = {}


class Facts:
    """An immutable-ish conjunction of atoms."""

    def __init__(self, atoms=()):
        self.atoms = tuple(atoms)
        self._cons = None

    def add(self, *atoms):
        new = [a for a in atoms if a[0] != "true" and a not in self.atoms]
        if not new:
            return self
        return Facts(self.atoms + tuple(new))

    def cons(self):
        if self._cons is None:
            cs = []
            nes = []
            for a in self.atoms:
                if a[0] == "le":
                    cs.append((a[1].t, a[1].c))
                elif a[0] == "eq":
                    cs.append((a[1].t, a[1].c))
                    n = -a[1]
                    cs.append((n.t, n.c))
                elif a[0] == "ne":
                    nes.append(a[1])
                elif a[0] == "false":
                    cs.append(({}, 1))
            # strengthen disequalities whose sign is known
            for _ in range(2):
                for l in list(nes):
                    if fm_infeasible(cs + [(l.t, l.c + 0)] + [((-l).t, (-l).c + 1)]) and False:
                        pass
                    # l >= 0 known  (i.e. cs & l <= -1 infeasible)  =>  l >= 1
                    if fm_infeasible(cs + [(l.t, l.c + 1)]):
                        n = (-l) + 1
                        cs.append((n.t, n.c))
                        nes.remove(l)
                    elif fm_infeasible(cs + [((-l).t, (-l).c + 1)]):
                        cs.append((l.t, l.c + 1))
                        nes.remove(l)
            self._cons = cs
        return self._cons

    def infeasible(self):
        op = {}
        for a in self.atoms:
            if a[0] == "opq":
                if op.get(a[1], a[2]) != a[2]:
                    return True
                op[a[1]] = a[2]
        return fm_infeasible(self.cons())

    def entails(self, atom):
        k = (self.atoms, atom)
        if k in _ENT_CACHE:
            return _ENT_CACHE[k]
        r = self._entails(atom)
        _ENT_CACHE[k] = r
        return r

    def _entails(self, atom):
        kind = atom[0]
        if kind == "true":
            return True
        if kind == "false":
            return self.infeasible()
        if kind == "opq":
            return atom in self.atoms
        cs = self.cons()
        l = atom[1]
        if kind == "le":
            n = (-l) + 1  # not(l <= 0) = l >= 1 = -l + 1 <= 0
            return fm_infeasible(cs + [(n.t, n.c)])
        if kind == "eq":
            n1 = (-l) + 1
            n2 = l + 1
            return fm_infeasible(cs + [(n1.t, n1.c)]) and fm_infeasible(cs + [(n2.t, n2.c)])
        if kind == "ne":
            if ("ne", l) in self.atoms or ("ne", -l) in self.atoms:
                return True
            return fm_infeasible(cs + [(l.t, l.c), ((-l).t, (-l).c)])
        return False


# ----------------------------------------------------------------------------- abstract values
# Lin | ('win', base, lo, hi) | ('ref', path) | ('bool', atom) | ('agg', name, {key: val}) |
# ('enum', variant_idx, {key: val}) | ('ovf', lin, kind, a, b) | ('opq', tag)
def is_win(v):
    return isinstance(v, tuple) and v and v[0] == "win"


class Violation(Exception):
    pass


class State:
    __slots__ = ("store", "facts", "events", "open")

    def __init__(self, store, facts, events=(), open_=()):
        self.store = store
        self.facts = facts
        self.events = events
        self.open = open_

    def copy(self):
        return State(dict(self.store), self.facts, self.events, self.open)


class StreamSpec:
    """What the ghost monitor needs to know about one absorbing function.
      data     root name of the input slice ('arg2')
      buf      store path (tuple) of the block buffer, e.g. ('arg1', 'buffer')
      pend     store path of the pending-byte counter, e.g. ('arg1', 'buffer_idx')
      block    Lin: block size B
      sinks    list of (regex on callee, index of the block argument or None = whole buffer, multi)
      strict   BLAKE2 discipline: a block is only compressed (as non-final) while input remains,
               the buffer may hold a full block (q <= B), and q > 0 after a non-empty update
      getters  {regex on callee: Lin} pure accessors with a known symbolic value
      pre      extra atoms assumed on entry
    """

    def __init__(self, **kw):
        self.data = kw.get("data", "arg2")
        self.buf = tuple(kw["buf"]) if kw.get("buf") else None
        self.pend = tuple(kw["pend"]) if kw.get("pend") else None
        self.follow = kw.get("follow", [])  # [regex] calls that must follow each sink before the next sink / return
        self.block = kw["block"]
        self.sinks = kw.get("sinks", [])
        self.strict = kw.get("strict", False)
        self.getters = kw.get("getters", {})
        self.pre = kw.get("pre", [])
        self.params = kw.get("params", {})
        self.paired = kw.get("paired", [])  # [(regex, arg index, expected Lin)] calls that must precede each sink
        self.index_bounds = kw.get("index_bounds", True)  # every slice expression over a tracked window is an obligation


RANGE_FIELDS = {"core::ops::Range": ["start", "end"], "core::ops::RangeFrom": ["start"], "core::ops::RangeTo": ["end"], "core::ops::RangeInclusive": ["start", "end", "exhausted"], "core::ops::RangeToInclusive": ["end"], "core::ops::RangeFull": []}


def natural_loops(fn):
    """{head: set(body blocks)} from back edges (u -> h with h dominating u)."""
    succ = fn.cfg()[0]
    pred = fn.cfg()[1]
    loops = {}
    for u in fn.reachable():
        for h in succ[u]:
            if fn.dominates(h, u):
                body = loops.setdefault(h, {h})
                st = [u]
                while st:
                    x = st.pop()
                    if x in body:
                        continue
                    body.add(x)
                    st.extend(p for p in pred[x] if p in fn.reachable())
    return loops


class Interp:
    MAXPATHS = 4000

    def __init__(self, prog, fn, spec):
        self.P = prog
        self.fn = fn
        self.spec = spec
        self.loops = natural_loops(fn)
        self.nfresh = 0
        self.viol = []          # (rule, text, line)
        self.oblig = []         # discharged obligations (text)
        self.paths = 0
        self.loop_invs = {}
        self.unmodelled = []
        self.record = True
        self.positive = set()  # symbols known >= 0
        self._live = None
        self.nomod = {}

    # -------------------------------------------------------------- helpers
    def fresh(self, tag):
        self.nfresh += 1
        return "%s#%d" % (tag, self.nfresh)

    def fresh_lin(self, tag, st=None, unsigned=True):
        s = self.fresh(tag)
        if unsigned:
            self.positive.add(s)
        return Lin.sym(s)

    def param(self, name):
        if name in self.spec.params:
            return Lin.const(self.spec.params[name])
        self.positive.add("P:" + name)
        return Lin.sym("P:" + name)

    def pos_facts(self, facts, lin):
        """facts plus sym >= 0 for the unsigned symbols of lin (added lazily)."""
        return facts

    def base_facts(self):
        return Facts()

    def with_pos(self, st, v):
        if isinstance(v, Lin):
            add = []
            for s in v.syms():
                if s in self.positive:
                    a = ("le", -Lin.sym(s))
                    if a not in st.facts.atoms:
                        add.append(a)
            if add:
                st.facts = st.facts.add(*add)
        return v

    def const_val(self, k):
        d = k[1]
        if "param" in d:
            return self.param(d["param"])
        v = d.get("v")
        if isinstance(v, bool):
            return ("bool", ("true",) if v else ("false",))
        if isinstance(v, int):
            return Lin.const(v)
        if isinstance(v, dict):
            if v.get("k") == "zst":
                return ("opq", "unit")
            if v.get("k") == "adt" or "variant" in v:
                return ("enum", v.get("variant", v.get("variant_idx", 0)), {})
            if v.get("k") == "bytes":
                hx = v.get("hex", "")
                return ("win", "const:" + hx[:16], Lin.const(0), Lin.const(len(hx) // 2))
        return ("opq", "const:" + str(d.get("t", ""))[:30] + ":" + str(v)[:30])

    # ---- store access (flat: path tuple -> value)
    def get_path(self, st, path, ty=None):
        s = st.store
        if path in s:
            return s[path]
        sub = {k: v for k, v in s.items() if len(k) > len(path) and k[: len(path)] == path}
        if sub:
            out = {}
            for k, v in sub.items():
                if len(k) == len(path) + 1:
                    out[k[-1]] = v
                else:
                    out.setdefault(k[len(path)], None)
            for kk in list(out):
                if out[kk] is None:
                    out[kk] = self.get_path(st, path + (kk,))
            return ("agg", "?", out)
        # lazily materialise: unknown initial content of external memory / havoced memory
        v = self.default_val(st, path, ty)
        s[path] = v
        return v

    def default_val(self, st, path, ty):
        if ty:
            m = re.match(r"^&(?:mut )?\[\w+\]$", ty)
            if m:
                nm = "len(%s)" % ".".join(path)
                self.positive.add(nm)
                return ("win", ".".join(path), Lin.const(0), Lin.sym(nm))
        nm = ".".join(str(p) for p in path) + "@0"
        self.positive.add(nm)
        return Lin.sym(nm)

    def set_path(self, st, path, v):
        s = st.store
        for k in [k for k in s if len(k) > len(path) and k[: len(path)] == path]:
            del s[k]
        if isinstance(v, tuple) and v and v[0] == "agg":
            s.pop(path, None)
            for kk, vv in v[2].items():
                self.set_path(st, path + (kk,), vv)
            s[path + ("$agg",)] = ("opq", v[1])
        else:
            s[path] = v

    def havoc(self, st, path, why):
        s = st.store
        for k in [k for k in s if k[: len(path)] == path]:
            del s[k]
        tagp = ".".join(str(p) for p in path)
        s[path + ("$hv",)] = ("opq", self.fresh("hv:" + tagp))

    # ---- places
    def resolve(self, st, place):
        """-> ('path', tuple) | ('elem', base path/win, idx Lin) | ('val', value)"""
        local, projs = place
        cur = ("path", ("L%d" % local,))
        for p in projs:
            if p == "*":
                v = self.get_path(st, cur[1], self.fn.locals[local] if len(cur[1]) == 1 else None) if cur[0] == "path" else cur[1]
                if isinstance(v, tuple) and v and v[0] == "ref":
                    cur = ("path", v[1])
                elif is_win(v):
                    cur = ("val", v)
                else:
                    cur = ("val", ("opq", "deref"))
            elif p[0] == "f":
                key = p[2] if p[2] and not p[2].isdigit() else str(p[1])
                held = st.store.get(cur[1]) if cur[0] == "path" else None
                if cur[0] == "path" and not (isinstance(held, tuple) and held and held[0] in ("ovf", "enum", "agg")):
                    cur = ("path", cur[1] + (key,))
                else:
                    v = cur[1] if cur[0] != "path" else held
                    if isinstance(v, tuple) and v and v[0] in ("agg", "enum"):
                        cur = ("val", v[2].get(key, ("opq", "nofield")))
                    elif isinstance(v, tuple) and v and v[0] == "ovf":
                        cur = ("val", v[1] if p[1] == 0 else ("bool", ("ovfbit", v[2], v[3], v[4])))
                    else:
                        cur = ("val", ("opq", "field"))
            elif p[0] in ("i", "c"):
                if p[0] == "i":
                    idx = self.get_path(st, ("L%d" % p[1],))
                    idx = idx if isinstance(idx, Lin) else self.fresh_lin("idx")
                else:
                    idx = Lin.const(p[1])
                if cur[0] == "path":
                    base = self.get_path_noinit(st, cur[1])
                    if is_win(base):
                        cur = ("elem", base, idx)
                    else:
                        cur = ("elem", ("win", ".".join(cur[1]), Lin.const(0), None), idx)
                elif is_win(cur[1]):
                    cur = ("elem", cur[1], idx)
                else:
                    cur = ("val", ("opq", "index"))
            elif p[0] == "d":
                pass
            else:
                cur = ("val", ("opq", "proj"))
        return cur

    def get_path_noinit(self, st, path):
        return st.store.get(path)

    def read_place(self, st, place, ty=None, line=0):
        r = self.resolve(st, place)
        if r[0] == "path":
            p = r[1]
            if len(p) == 1 and p not in st.store and not any(k[:1] == p for k in st.store):
                return ("opq", "uninit:" + p[0])
            v = self.get_path(st, p, ty)
            # (T, bool) tuple field of a checked op
            return self.with_pos(st, v)
        if r[0] == "elem":
            self.event(st, ("read", r[1], r[2]), line)
            return ("opq", "elem")
        return r[1]

    def write_place(self, st, place, v, line=0):
        local, projs = place
        if not projs:
            self.set_path(st, ("L%d" % local,), v)
            return
        # split off the last projection
        r = self.resolve(st, place)
        if r[0] == "path":
            self.set_path(st, r[1], v)
        elif r[0] == "elem":
            self.event(st, ("write", r[1], r[2]), line)

    def operand(self, st, op, ty=None, line=0):
        if op[0] == "k":
            return self.const_val(op)
        return self.read_place(st, op[1], ty, line)

    # -------------------------------------------------------------- rvalues
    def lin_of(self, st, v, tag="v"):
        if isinstance(v, Lin):
            return v
        if isinstance(v, tuple) and v and v[0] == "bool":
            a = v[1]
            if a[0] == "true":
                return Lin.const(1)
            if a[0] == "false":
                return Lin.const(0)
        return self.fresh_lin(tag, unsigned=False)

    def rvalue(self, st, rv, dty, line):
        k = rv[0]
        if k in ("use",):
            return self.operand(st, rv[1], dty, line)
        if k == "cfd":
            return self.read_place(st, rv[1], dty, line)
        if k == "bin":
            return self.binop(st, rv[1], self.operand(st, rv[2], None, line), self.operand(st, rv[3], None, line), dty)
        if k == "un":
            a = self.operand(st, rv[2], None, line)
            if rv[1] == "Not" and isinstance(a, tuple) and a[0] == "bool":
                return ("bool", neg_atom(a[1])) if a[1][0] != "ovfbit" else ("opq", "notovf")
            if rv[1] == "Neg" and isinstance(a, Lin):
                return -a
            if rv[1] == "PtrMetadata" and is_win(a) and a[3] is not None:
                return a[3] - a[2]
            return self.fresh_lin("un", unsigned=False)
        if k == "cast":
            a = self.operand(st, rv[2], None, line)
            if isinstance(a, Lin) or is_win(a) or (isinstance(a, tuple) and a and a[0] == "ref"):
                if isinstance(a, tuple) and a[0] == "ref" and rv[3]:
                    m = re.match(r"^&(?:mut )?\[\w+\]$", rv[3])
                    if m:
                        # unsize of a reference to an array held at a store path
                        n = self.array_len_of(st, a[1])
                        if n is not None:
                            return ("win", ".".join(a[1]), Lin.const(0), n)
                return a
            if isinstance(a, tuple) and a and a[0] == "bool":
                return self.lin_of(st, a)
            return self.fresh_lin("cast", unsigned=False)
        if k in ("ref", "raw"):
            r = self.resolve(st, rv[2])
            if r[0] == "val":
                return r[1]
            if r[0] == "path":
                v = st.store.get(r[1])
                if is_win(v) and False:
                    return v
                if dty:
                    m = re.match(r"^[&*](?:mut |const )?\[(\w+); (\w+)\]$", dty)
                    if m:
                        n = Lin.const(int(m.group(2))) if m.group(2).isdigit() else self.param(m.group(2))
                        return ("win", ".".join(r[1]), Lin.const(0), n)
                return ("ref", r[1])
            if r[0] == "elem":
                return ("elemref", r[1], r[2])
        if k == "rep":
            return ("opq", "rep")
        if k == "agg":
            kind = rv[1]
            ops = [self.operand(st, o, None, line) for o in rv[2]]
            if kind[0] == "adt":
                names = kind[4] if len(kind) > 4 and kind[4] else RANGE_FIELDS.get(kind[1])
                keys = [(names[i] if names and i < len(names) and names[i] and not names[i].isdigit() else str(i)) for i in range(len(ops))]
                isenum = any(a["path"] == kind[1] and a.get("kind") == "enum" for a in self.P.adts.values()) if hasattr(self.P, "adts") else False
                if isenum or kind[1].startswith("core::option::Option"):
                    return ("enum", kind[2], dict(zip(keys, ops)))
                return ("agg", kind[1], dict(zip(keys, ops)))
            return ("agg", kind[0], {str(i): o for i, o in enumerate(ops)})
        if k == "disc":
            v = self.read_place(st, rv[1], None, line)
            if isinstance(v, tuple) and v and v[0] == "enum":
                return Lin.const(v[1])
            return self.fresh_lin("disc")
        return ("opq", "rv:" + k)

    def array_len_of(self, st, path):
        return None

    def binop(self, st, op, a, b, dty):
        wo = op.endswith("WithOverflow")
        base = op[: -len("WithOverflow")] if wo else op
        if base in ("Eq", "Ne", "Lt", "Le", "Gt", "Ge"):
            if isinstance(a, tuple) and a and a[0] == "bool" and isinstance(b, tuple) and b and b[0] == "bool":
                return ("bool", ("opq", self.fresh("boolcmp"), True))
            la, lb = self.lin_of(st, a), self.lin_of(st, b)
            self.with_pos(st, la)
            self.with_pos(st, lb)
            at = {"Eq": a_eq(la, lb), "Ne": a_ne(la, lb), "Lt": a_lt(la, lb), "Le": a_le(la, lb), "Gt": a_lt(lb, la), "Ge": a_le(lb, la)}[base]
            return ("bool", at)
        la = self.lin_of(st, a) if not (isinstance(a, tuple) and a and a[0] == "opq") else self.fresh_lin("o", unsigned=False)
        lb = self.lin_of(st, b) if not (isinstance(b, tuple) and b and b[0] == "opq") else self.fresh_lin("o", unsigned=False)
        r = None
        if base == "Add":
            r = la + lb
        elif base == "Sub":
            r = la - lb
        elif base == "Mul":
            if la.is_const():
                r = lb.scale(la.c)
            elif lb.is_const():
                r = la.scale(lb.c)
        elif base in ("Div", "Rem") and lb.is_const() and lb.c > 0:
            d = lb.c
            q = self.fresh_lin("quot")
            rem = la - q.scale(d)
            # 0 <= rem <= d-1   (operands are unsigned in every use analysed here)
            st.facts = st.facts.add(("le", -rem), ("le", rem - (d - 1)), ("le", -q))
            r = q if base == "Div" else rem
        elif base in ("BitAnd",) and (la.is_const() or lb.is_const()):
            r = self.fresh_lin("and")
            m = la.c if la.is_const() else lb.c
            st.facts = st.facts.add(("le", r - m))
        if r is None:
            r = self.fresh_lin("t_" + base, unsigned=False)
        if wo:
            return ("ovf", r, base, la, lb)
        return r

    # -------------------------------------------------------------- events / monitor
    GC = ("$c",)
    GQ = ("$q",)

    def event(self, st, ev, line):
        """ev: ('copy', dstwin, srcwin) | ('sink', win|None, callee, args) | ('read', win, idx) | ('write', win, idx)"""
        sp = self.spec
        bufname = ".".join(sp.buf) if sp.buf else "\0none"
        c = st.store[self.GC]
        q = st.store[self.GQ]
        F = st.facts
        kind = ev[0]

        def need(atom, text, rule):
            if F.entails(atom):
                if self.record:
                    self.oblig.append((rule, text, line))
                return True
            if self.record:
                self.viol.append((rule, text + "  [cannot derive %s from the path facts]" % show_atom(atom), line))
            return False

        def isbuf(w):
            return is_win(w) and w[1] == bufname

        def isdata(w):
            return is_win(w) and w[1] == sp.data

        if kind == "copy":
            dst, src = ev[1], ev[2]
            if isbuf(dst) and isdata(src):
                need(a_eq(dst[2], q), "copy into the buffer starts at the pending count (dst.lo == q)", "copy-dst")
                need(a_eq(src[2], c), "copy from the input starts at the cursor (src.lo == c)", "copy-src")
                need(a_eq(dst[3] - dst[2], src[3] - src[2]), "copy lengths agree", "copy-len")
                st.store[self.GQ] = dst[3]
                st.store[self.GC] = src[3]
                st.events = st.events + (("copy", repr(dst[2]), repr(dst[3]), repr(src[2]), repr(src[3]), line),)
            elif isbuf(dst) or isdata(src):
                if self.record:
                    self.viol.append(("copy-foreign", "a copy moves bytes between the stream and an untracked object (%s <- %s)" % (dst[1] if is_win(dst) else dst, src[1] if is_win(src) else src), line))
            return
        if kind in ("read", "write"):
            w, idx = ev[1], ev[2]
            if kind == "read" and isdata(w):
                need(a_eq(w[2] + idx, c), "element read from the input is at the cursor", "elem-src")
                st.store[self.GC] = c + 1
                st.events = st.events + (("read", repr(w[2] + idx), line),)
            elif kind == "write" and isbuf(w):
                need(a_eq(w[2] + idx, q), "element absorbed into the buffer at the pending count", "elem-dst")
                need(a_lt(w[2] + idx, sp.block), "element absorbed inside the block", "elem-bound")
                st.store[self.GQ] = q + 1
                st.events = st.events + (("write", repr(w[2] + idx), line),)
            elif kind == "read" and isbuf(w):
                pass
            return
        if kind == "sink":
            w = ev[1]
            B = sp.block
            if w is None or isbuf(w):
                if w is not None:
                    need(a_eq(w[2], 0), "buffer block starts at 0", "sink-buf-lo")
                    if w[3] is not None:
                        need(a_eq(w[3], B), "buffer block is one block long", "sink-buf-hi")
                need(a_eq(q, B), "the buffer is compressed only when exactly one block is pending (q == B)", "sink-buf-full")
                if sp.strict:
                    need(a_lt(c, st.store[("$L",)]), "BLAKE2: a buffered block is compressed as non-final only while input remains (c < len)", "sink-strict")
                st.store[self.GQ] = Lin.const(0)
                st.events = st.events + (("sink-buf", line),)
            elif isdata(w):
                multi = ev[3]
                need(a_eq(w[2], c), "direct block(s) start at the cursor", "sink-data-lo")
                need(a_eq(q, 0), "direct blocks are compressed only when nothing is pending (q == 0)", "sink-data-empty")
                ln = w[3] - w[2]
                if isinstance(multi, int) and not isinstance(multi, bool):
                    # the callee reads a fixed-size prefix of the window it is given
                    need(a_le(multi, ln), "batch function is given at least the %d bytes it reads" % multi, "sink-data-prefix")
                    w = ("win", w[1], w[2], w[2] + multi)
                elif multi:
                    okm = B.is_const() and all(v % B.c == 0 for v in ln.t.values()) and ln.c % B.c == 0
                    if okm:
                        if self.record:
                            self.oblig.append(("sink-data-mult", "direct run is a multiple of the block size", line))
                    else:
                        need(a_eq(ln, B), "direct run is a multiple of the block size", "sink-data-mult")
                else:
                    need(a_eq(ln, B), "direct block is exactly one block", "sink-data-len")
                st.store[self.GC] = w[3]
                if sp.strict:
                    need(a_lt(w[3], st.store[("$L",)]), "BLAKE2: a direct block is compressed as non-final only while input remains", "sink-strict")
                st.events = st.events + (("sink-data", repr(w[2]), repr(w[3]), line),)
            else:
                if self.record:
                    self.viol.append(("sink-foreign", "block function called on an untracked buffer %r" % (w,), line))
            for srx, rx in sp.follow:
                if st.store.get(("$need", rx)) is not None:
                    if self.record:
                        self.viol.append(("sink-follow", "a block was consumed without the following %s" % rx, line))
                if re.search(srx, ev[2]):
                    st.store[("$need", rx)] = ("opq", "pending")
            # pairing
            for rx, ai, want in sp.paired:
                pend = st.store.get(("$pair", rx))
                if pend is None or not (isinstance(pend, Lin) and F.entails(a_eq(pend, want))):
                    if self.record:
                        self.viol.append(("sink-paired", "block function not preceded by %s(%r)" % (rx, want), line))
                elif self.record:
                    self.oblig.append(("sink-paired", "block function preceded by %s(%r)" % (rx, want), line))
                st.store[("$pair", rx)] = ("opq", "used")
            return

    def at_exit(self, st, line):
        sp = self.spec
        F = st.facts
        c = st.store[self.GC]
        q = st.store[self.GQ]
        L = st.store[("$L",)]
        p = self.get_path(st, sp.pend) if sp.pend else None

        def need(atom, text, rule):
            if F.entails(atom):
                if self.record:
                    self.oblig.append((rule, text, line))
            elif self.record:
                self.viol.append((rule, text + "  [cannot derive %s; events on this path: %s]" % (show_atom(atom), list(st.events)), line))

        need(a_eq(c, L), "on return every input byte has been absorbed (c == len)", "exit-consumed")
        for srx, rx in sp.follow:
            if st.store.get(("$need", rx)) is not None and self.record:
                self.viol.append(("sink-follow", "the last block was consumed without the following %s" % rx, line))
        if sp.pend is None:
            return
        if isinstance(p, Lin):
            need(a_eq(p, q), "on return the pending counter equals the bytes buffered (field == q)", "exit-pending")
        elif self.record:
            self.viol.append(("exit-pending", "pending counter is not a tracked integer on return: %r" % (p,), line))
        if sp.strict:
            need(a_le(q, sp.block), "on return at most one block is pending (q <= B)", "exit-inv")
            q0 = st.store[("$q0",)]
            # non-empty input or pending data => something stays pending
            if not F.entails(a_eq(L, 0)):
                need(a_lt(0, q), "BLAKE2: after absorbing a non-empty piece the last block stays buffered (q > 0)", "exit-strict")
        else:
            need(a_lt(q, sp.block), "on return less than one block is pending (q < B)", "exit-inv")

    # -------------------------------------------------------------- calls
    def do_call(self, st, b, t):
        """returns list of states to continue with at t[4] (empty = diverges)"""
        fn = self.fn
        c = mir.Call(fn, b, t)
        nm = c.name()
        line = t[5]
        args = [self.operand(st, a, None, line) for a in c.args]
        dty = fn.locals[c.dest[0]] if not c.dest[1] else None

        def ret(v, s=None):
            s = s or st
            self.write_place(s, c.dest, v, line)
            return [s]

        if c.target is None:
            return []
        sp = self.spec
        for rx, val in sp.getters.items():
            if re.search(rx, nm):
                return ret(val)
        for srx, rx in sp.follow:
            if re.search(rx, nm):
                if st.store.get(("$need", rx)) is None and self.record:
                    self.viol.append(("sink-follow", "%s runs without a freshly consumed block" % rx, line))
                st.store.pop(("$need", rx), None)
                for a, op in zip(args, c.args):
                    self.havoc_arg(st, a, op)
                return ret(("opq", "unit"))
        for rx, ai, want in sp.paired:
            if re.search(rx, nm):
                st.store[("$pair", rx)] = args[ai] if ai < len(args) else ("opq", "?")
                for a, op in zip(args, c.args):
                    self.havoc_arg(st, a, op)
                return ret(("opq", "unit"))
        for rx, ai, multi in sp.sinks:
            if re.search(rx, nm):
                w = None
                if ai is not None:
                    w = args[ai]
                    if isinstance(w, tuple) and w and w[0] == "agg" and "0" in w[2]:
                        w = w[2]["0"]
                    if isinstance(w, tuple) and w and w[0] == "ref" and sp.buf and w[1] == sp.buf:
                        w = ("win", ".".join(sp.buf), Lin.const(0), None)
                    elif isinstance(w, tuple) and w and w[0] == "ref" and is_win(st.store.get(w[1])):
                        w = st.store.get(w[1])
                else:
                    # whole-state sinks take the buffer itself
                    w = None
                    tgt = [a for a in args if sp.buf and ((is_win(a) and a[1] == ".".join(sp.buf)) or (isinstance(a, tuple) and a and a[0] == "ref" and a[1] == sp.buf))]
                    if not tgt:
                        if self.record:
                            self.viol.append(("sink-foreign", "%s is not applied to the tracked state" % nm, line))
                self.event(st, ("sink", w, nm, multi), line)
                return ret(("opq", "unit"))
        if re.search(r"slice::<impl \[T\]>::len$", nm) and is_win(args[0]) and args[0][3] is not None:
            return ret(self.with_pos(st, args[0][3] - args[0][2]))
        if re.search(r"slice::<impl \[T\]>::is_empty$", nm) and is_win(args[0]) and args[0][3] is not None:
            return ret(("bool", a_eq(args[0][3] - args[0][2], 0)))
        if mir_index(nm) and is_win(args[0]) and isinstance(args[1], tuple) and args[1][0] == "agg":
            w = args[0]
            r = args[1]
            f = r[2]
            lo, hi = w[2], w[3]
            kind = r[1]
            nlo, nhi = lo, hi
            if "start" in f and isinstance(f["start"], Lin):
                nlo = lo + f["start"]
            if "end" in f and isinstance(f["end"], Lin):
                if kind.endswith("Inclusive"):
                    nhi = lo + f["end"] + 1
                else:
                    nhi = lo + f["end"]
            if kind.endswith("RangeFull"):
                pass
            # the index call panics unless lo <= start <= end <= hi: every slice expression of the buffering code is an
            # obligation (a split that makes update panic breaks "any split gives the one-shot digest" as surely as a wrong
            # digest does); past the call the bounds hold
            add = [(a_le(lo, nlo), "slice start is not negative")]
            if nhi is not None:
                add.append((a_le(nlo, nhi), "slice start <= end"))
                if hi is not None:
                    add.append((a_le(nhi, hi), "slice end within the sliced buffer"))
            if self.record and self.spec.index_bounds:
                for atom, text in add:
                    if st.facts.entails(atom):
                        self.oblig.append(("index-bounds", text, line))
                    else:
                        self.viol.append(("index-bounds", "%s cannot be shown for this slice expression (it panics otherwise)  [cannot derive %s from the path facts]" % (text, show_atom(atom)), line))
            st.facts = st.facts.add(*[a for a, _ in add])
            return ret(("win", w[1], nlo, nhi))
        if re.search(r"slice::<impl \[T\]>::split_at(_mut)?$", nm) and is_win(args[0]) and isinstance(args[1], Lin) and args[0][3] is not None:
            w = args[0]
            lo, hi = w[2], w[3]
            mid = lo + args[1]
            atom = a_le(mid, hi)
            if self.record and self.spec.index_bounds:
                if st.facts.entails(atom):
                    self.oblig.append(("index-bounds", "split point within the slice", line))
                else:
                    self.viol.append(("index-bounds", "split_at: the split point cannot be shown to lie within the slice (it panics otherwise)  [cannot derive %s from the path facts]" % show_atom(atom), line))
            st.facts = st.facts.add(a_le(lo, mid), atom)
            return ret(("agg", "tuple", {"0": ("win", w[1], lo, mid), "1": ("win", w[1], mid, hi)}))
        if re.search(r"copy_from_slice$", nm) and is_win(args[0]) and is_win(args[1]):
            d, s_ = args[0], args[1]
            if d[3] is not None and s_[3] is not None:
                st.facts = st.facts.add(a_eq(d[3] - d[2], s_[3] - s_[2]))  # panics otherwise
            self.event(st, ("copy", d, s_), line)
            return ret(("opq", "unit"))
        if re.search(r"^core::cmp::(min|max)$|Ord::(min|max)$", nm) and isinstance(args[0], Lin) and isinstance(args[1], Lin):
            a, bb = args
            mn = nm.endswith("min")
            s1 = st.copy()
            s2 = st.copy()
            s1.facts = s1.facts.add(a_le(a, bb))
            s2.facts = s2.facts.add(a_lt(bb, a))
            out = []
            for s, v in ((s1, a if mn else bb), (s2, bb if mn else a)):
                if not s.facts.infeasible():
                    out += ret(v, s)
            return out
        if re.search(r"slice::<impl \[T\]>::chunks(_exact)?$", nm) and is_win(args[0]) and isinstance(args[1], Lin):
            st.facts = st.facts.add(a_lt(0, args[1]))  # chunks(0) panics
            return ret(("agg", "Chunks", {"v": args[0], "chunk_size": args[1], "exact": Lin.const(1 if nm.endswith("exact") else 0)}))
        if re.search(r"slice::(iter::)?Chunks<'a, T> as core::iter::(traits::iterator::)?Iterator>::next$", nm) and isinstance(args[0], tuple) and args[0][0] == "ref":
            pth = args[0][1]
            v = self.get_path(st, pth + ("v",))
            cs = self.get_path(st, pth + ("chunk_size",))
            if is_win(v) and v[3] is not None and isinstance(cs, Lin):
                out = []
                ln = v[3] - v[2]
                sN = st.copy()
                sN.facts = sN.facts.add(a_le(ln, 0))
                if not sN.facts.infeasible():
                    out += ret(("enum", 0, {}), sN)
                for full in (True, False):
                    sS = st.copy()
                    sS.facts = sS.facts.add(a_lt(0, ln), a_le(cs, ln) if full else a_lt(ln, cs))
                    if sS.facts.infeasible():
                        continue
                    sz = cs if full else ln
                    self.set_path(sS, pth + ("v",), ("win", v[1], v[2] + sz, v[3]))
                    out += ret(("enum", 1, {"0": ("win", v[1], v[2], v[2] + sz)}), sS)
                return out
        if nm.endswith("IntoIterator>::into_iter") or nm.endswith("::into_iter"):
            return ret(args[0])
        if re.search(r"Iterator for core::ops::Range<A>>::next$|Range<usize> as .*Iterator>::next$", nm) and isinstance(args[0], tuple) and args[0][0] == "ref":
            pth = args[0][1]
            s0 = self.get_path(st, pth + ("start",))
            e0 = self.get_path(st, pth + ("end",))
            if isinstance(s0, Lin) and isinstance(e0, Lin):
                out = []
                sN = st.copy()
                sN.facts = sN.facts.add(a_le(e0, s0))
                if not sN.facts.infeasible():
                    out += ret(("enum", 0, {}), sN)
                sS = st.copy()
                sS.facts = sS.facts.add(a_lt(s0, e0))
                if not sS.facts.infeasible():
                    self.set_path(sS, pth + ("start",), s0 + 1)
                    out += ret(("enum", 1, {"0": s0}), sS)
                return out
        # unknown callee: havoc what it may write through, result unknown
        for a, op in zip(args, c.args):
            self.havoc_arg(st, a, op, nm, line)
        if dty and re.match(r"^(usize|u8|u16|u32|u64|u128)$", dty):
            return ret(self.fresh_lin("ret:" + nm.split("::")[-1]))
        if dty == "bool":
            return ret(("bool", ("opq", self.fresh("ret:" + nm.split("::")[-1]), True)))
        return ret(("opq", "ret:" + nm.split("::")[-1]))

    def havoc_arg(self, st, a, op, nm="", line=0):
        fn = self.fn
        sp = self.spec
        ty = fn.locals[op[1][0]] if op[0] in ("cp", "mv") and not op[1][1] else ""
        mut = ty.startswith("&mut") or ty.startswith("*mut")
        if not mut:
            return
        if isinstance(a, tuple) and a and a[0] == "ref":
            p = a[1]
            tracked = [x for x in (sp.buf, sp.pend) if x]
            for tp in tracked:
                if tp[: len(p)] == p or p[: len(tp)] == tp:
                    if self.record:
                        self.viol.append(("unmodelled-mut", "%s receives a mutable reference covering the tracked %s" % (nm, ".".join(tp)), line))
            self.havoc(st, p, nm)
        elif is_win(a) and sp.buf and a[1] == ".".join(sp.buf):
            if self.record:
                self.viol.append(("unmodelled-mut", "%s receives a mutable window of the tracked buffer" % nm, line))

    # -------------------------------------------------------------- execution
    def run_block(self, st, b):
        """execute statements of b; return list of (succ_bb, state)"""
        fn = self.fn
        for s in fn.stmts(b):
            if s[0] == "=":
                dty = fn.locals[s[1][0]] if not s[1][1] else None
                v = self.rvalue(st, s[2], dty, s[3])
                self.write_place(st, s[1], v, s[3])
        t = fn.term(b)
        k = t[0]
        if k == "goto":
            return [(t[1], st)]
        if k == "drop":
            return [(t[2], st)]
        if k == "ret":
            return [("ret", st)]
        if k == "unr":
            return []
        if k == "call":
            outs = self.do_call(st, b, t)
            return [(t[4], s) for s in outs]
        if k == "assert":
            v = self.operand(st, t[1], None, 0)
            exp = bool(t[2])
            if isinstance(v, tuple) and v and v[0] == "bool":
                a = v[1]
                if a[0] == "ovfbit":
                    if not exp and a[1] == "Sub":
                        st.facts = st.facts.add(a_le(a[3], a[2]))
                else:
                    st.facts = st.facts.add(a if exp else neg_atom(a))
            if st.facts.infeasible():
                return []
            return [(t[4], st)]
        if k == "sw":
            v = self.operand(st, t[1], None, 0)
            outs = []
            if isinstance(v, tuple) and v and v[0] == "bool":
                a = v[1]
                fb = [bb for val, bb in t[2] if val == 0]
                tb = t[3]
                if a[0] == "ovfbit":
                    a = ("opq", self.fresh("ovf"), True)
                for atom, tgt in ((a, tb), (neg_atom(a), fb[0] if fb else None)):
                    if tgt is None:
                        continue
                    s2 = st.copy()
                    s2.facts = s2.facts.add(atom)
                    if not s2.facts.infeasible():
                        outs.append((tgt, s2))
                return outs
            l = self.lin_of(st, v, "sw")
            self.with_pos(st, l)
            if l.is_const():
                tgt = t[3]
                for val, bb in t[2]:
                    if val == l.c:
                        tgt = bb
                return [(tgt, st)]
            for val, bb in t[2]:
                s2 = st.copy()
                s2.facts = s2.facts.add(a_eq(l, val))
                if not s2.facts.infeasible():
                    outs.append((bb, s2))
            s2 = st.copy()
            s2.facts = s2.facts.add(*[a_ne(l, val) for val, bb in t[2]])
            if not s2.facts.infeasible():
                outs.append((t[3], s2))
            return outs
        raise Violation("terminator %s" % k)

    def explore(self, b, st):
        """depth-first over paths; returns list of outcomes ('ret', st) | ('back', head, st)"""
        outs = []
        work = [(b, st, True)]
        while work:
            b, st, entering = work.pop()
            self.paths += 1
            if self.paths > self.MAXPATHS:
                raise Violation("path budget exceeded")
            if b == "ret":
                outs.append(("ret", st))
                continue
            if b in st.open:
                outs.append(("back", b, st))
                continue
            if b in self.loops and entering:
                for o in self.do_loop(b, st):
                    if o[0] == "cont":
                        work.append((o[1], o[2], True))
                    else:
                        outs.append(o)
                continue
            for nb, s2 in self.run_block(st, b):
                work.append((nb, s2, True))
        return outs

    # ---- loops
    def quantities(self, st, keys):
        """numeric components of the store entries named by keys: {(key, comp): Lin}"""
        out = {}
        for k in keys:
            v = st.store.get(k)
            if isinstance(v, Lin):
                out[(k, "v")] = v
            elif is_win(v):
                out[(k, "lo")] = v[2]
                if v[3] is not None:
                    out[(k, "hi")] = v[3]
        return out

    def do_loop(self, h, pre):
        body = self.loops[h]
        fn = self.fn
        # --- which store entries change around the loop: iterate trial runs with growing widening set
        M = {self.GC, self.GQ}
        saved = (self.record, self.nfresh)
        self.record = False
        inv = None
        for rnd in range(40):
            W, symmap = self.widen(pre, M, h)
            cands = self.candidates(pre, W, M) if inv is None else inv
            Wf = W.copy()
            Wf.facts = Wf.facts.add(*[c[1] for c in cands])
            Wf.open = pre.open + (h,)
            outs = self.run_body(h, Wf)
            grew = False
            for o in outs:
                if o[0] == "back" and o[1] == h:
                    s2 = o[2]
                    for k in set(s2.store) | set(W.store):
                        if k in M or k[0] in ("$pair", "$need"):
                            continue
                        if not self.same(W.store.get(k), s2.store.get(k)):
                            if self.live_key(k, h):
                                M.add(k)
                                grew = True
            # block-granular widening must be inductive: x' - x0 divisible by B on every back edge
            B = self.spec.block
            if B.is_const() and B.c > 1:
                for o in outs:
                    if o[0] == "back" and o[1] == h:
                        s2 = o[2]
                        for k in M:
                            v0, v2 = pre.store.get(k), s2.store.get(k)
                            comps = []
                            if isinstance(v0, Lin) and isinstance(v2, Lin):
                                comps = [("", v0, v2)]
                            elif is_win(v0) and is_win(v2):
                                comps = [(".lo", v0[2], v2[2])] + ([(".hi", v0[3], v2[3])] if v0[3] is not None and v2[3] is not None else [])
                            for comp, a0, a2 in comps:
                                if (k, comp) in self.nomod.get(h, ()):
                                    continue
                                dlt = a2 - a0
                                if not (all(cf % B.c == 0 for cf in dlt.t.values()) and dlt.c % B.c == 0):
                                    self.nomod.setdefault(h, set()).add((k, comp))
                                    grew = True
            if grew:
                inv = None
                continue
            # --- Houdini step
            keep = []
            for cand in cands:
                ok = True
                for o in outs:
                    if o[0] == "back" and o[1] == h:
                        s2 = o[2]
                        at = self.inst_cand(cand, s2)
                        if at is None or not s2.facts.entails(at):
                            ok = False
                            break
                if ok:
                    keep.append(cand)
            if len(keep) == len(cands):
                inv = keep
                break
            inv = keep
        self.record, _ = saved
        if inv is None:
            raise Violation("loop at bb%d: no stable widening" % h)
        # --- final run with the invariant, recording obligations
        W, symmap = self.widen(pre, M, h)
        Wf = W.copy()
        Wf.facts = Wf.facts.add(*[c[1] for c in self.reinst(inv, pre, W)])
        Wf.open = pre.open + (h,)
        self.loop_invs[h] = [c[0] for c in inv]
        outs = self.run_body(h, Wf)
        res = []
        for o in outs:
            if o[0] == "back" and o[1] == h:
                continue
            if o[0] == "exit":
                s2 = o[2]
                s2.open = pre.open
                res.append(("cont", o[1], s2))
            else:
                res.append(o)
        return res

    def live_key(self, k, h=None):
        if isinstance(k[0], str) and re.match(r"^L\d+$", k[0]):
            return int(k[0][1:]) in self.live_in(h)
        return True

    def live_in(self, h):
        if self._live is None:
            self._live = liveness(self.fn)
        return self._live.get(h, set())

    def same(self, a, b):
        if a is None or b is None:
            return a is b
        if isinstance(a, Lin) or isinstance(b, Lin):
            return a == b
        return a == b

    def run_body(self, h, st):
        """explore from the loop head with the loop open; paths leaving the body are returned as
        ('exit', bb, st); paths reaching h again as ('back', h, st)."""
        body = self.loops[h]
        outs = []
        work = [(h, st, False)]
        first = True
        while work:
            b, s, _ = work.pop()
            self.paths += 1
            if self.paths > self.MAXPATHS:
                raise Violation("path budget exceeded")
            if b == "ret":
                outs.append(("ret", s))
                continue
            if b == h and not first:
                outs.append(("back", h, s))
                continue
            if b in s.open and b != h:
                outs.append(("back", b, s))
                continue
            if b not in body:
                outs.append(("exit", b, s))
                continue
            if b in self.loops and b != h:
                for o in self.do_loop(b, s):
                    if o[0] == "cont":
                        work.append((o[1], o[2], True))
                    else:
                        outs.append(o)
                continue
            first = False
            for nb, s2 in self.run_block(s, b):
                work.append((nb, s2, True))
        return outs

    def widen(self, pre, M, h):
        W = pre.copy()
        symmap = {}
        for k in sorted(M, key=repr):
            v = pre.store.get(k)
            nm = ".".join(str(x) for x in k)
            def wsym(comp, x0):
                name = "w%d:%s%s" % (h, nm, comp)
                B = self.spec.block
                if B.is_const() and B.c > 1 and (k, comp) not in self.nomod.get(h, ()):
                    # x = x0 + B*k : keeps "advances in whole blocks" through the widening
                    return x0 + Lin.sym("k" + name[1:]).scale(B.c)
                return Lin.sym(name)
            if isinstance(v, Lin):
                W.store[k] = wsym("", v)
            elif is_win(v):
                lo = wsym(".lo", v[2])
                hi = wsym(".hi", v[3]) if v[3] is not None else None
                W.store[k] = ("win", v[1], lo, hi)
            elif v is None:
                W.store.pop(k, None)
            else:
                W.store[k] = ("opq", "w%d:%s" % (h, nm))
        return W, symmap

    def candidates(self, pre, W, M):
        """[(name, atom over W's symbols, builder)]: templates instantiated at the loop head."""
        q0 = self.quantities(pre, M)
        qw = self.quantities(W, M)
        names = sorted(set(q0) & set(qw), key=repr)
        cands = []

        def nm(k):
            return ".".join(str(x) for x in k[0]) + ("" if k[1] == "v" else "." + k[1])

        for k in names:
            cands.append(("%s == %r" % (nm(k), q0[k]), a_eq(qw[k], q0[k]), ("eq0", k, q0[k])))
            cands.append(("%s >= %r" % (nm(k), q0[k]), a_le(q0[k], qw[k]), ("ge0", k, q0[k])))
            cands.append(("%s <= %r" % (nm(k), q0[k]), a_le(qw[k], q0[k]), ("le0", k, q0[k])))
        for i, k1 in enumerate(names):
            for k2 in names[i + 1:]:
                d0 = q0[k1] - q0[k2]
                cands.append(("%s - %s == %r" % (nm(k1), nm(k2), d0), a_eq(qw[k1] - qw[k2], d0), ("diff", k1, k2, d0)))
        # bounds against loop-invariant quantities and other modified ones
        others = {}
        for k, v in pre.store.items():
            if k in M:
                continue
            if isinstance(v, Lin) and (v.t or v.c):
                others[repr(v)] = v
            elif is_win(v) and v[3] is not None:
                others[repr(v[3])] = v[3]
        others[repr(self.spec.block)] = self.spec.block
        for k in names:
            for u in others.values():
                if pre.facts.entails(a_lt(q0[k], u)):
                    cands.append(("%s < %r" % (nm(k), u), a_lt(qw[k], u), ("ltc", k, u)))
                if pre.facts.entails(a_le(q0[k], u)):
                    cands.append(("%s <= %r" % (nm(k), u), a_le(qw[k], u), ("lec", k, u)))
            for k2 in names:
                if k2 == k:
                    continue
                if pre.facts.entails(a_lt(q0[k], q0[k2])):
                    cands.append(("%s < %s" % (nm(k), nm(k2)), a_lt(qw[k], qw[k2]), ("ltq", k, k2)))
                if pre.facts.entails(a_le(q0[k], q0[k2])):
                    cands.append(("%s <= %s" % (nm(k), nm(k2)), a_le(qw[k], qw[k2]), ("leq", k, k2)))
        return cands

    def qval(self, st, k):
        v = st.store.get(k[0])
        if k[1] == "v":
            return v if isinstance(v, Lin) else None
        if is_win(v):
            return v[2] if k[1] == "lo" else v[3]
        return None

    def inst_cand(self, cand, st):
        b = cand[2]
        kind = b[0]
        x = self.qval(st, b[1])
        if x is None:
            return None
        if kind == "eq0":
            return a_eq(x, b[2])
        if kind == "ge0":
            return a_le(b[2], x)
        if kind == "le0":
            return a_le(x, b[2])
        if kind == "diff":
            y = self.qval(st, b[2])
            return None if y is None else a_eq(x - y, b[3])
        if kind == "ltc":
            return a_lt(x, b[2])
        if kind == "lec":
            return a_le(x, b[2])
        if kind in ("ltq", "leq"):
            y = self.qval(st, b[2])
            if y is None:
                return None
            return a_lt(x, y) if kind == "ltq" else a_le(x, y)
        return None

    def reinst(self, inv, pre, W):
        out = []
        for c in inv:
            at = self.inst_cand(c, W)
            if at is not None:
                out.append((c[0], at, c[2]))
        return out

    # -------------------------------------------------------------- entry
    def analyse(self):
        fn = self.fn
        sp = self.spec
        st = State({}, Facts())
        whole_blocks = sp.pend is None and sp.block.is_const()
        for i in range(1, fn.argc + 1):
            ty = fn.locals[i]
            root = "arg%d" % i
            if re.match(r"^&(?:mut )?\[\w+\]$", ty):
                ln = "len(%s)" % root
                self.positive.add(ln)
                lnv = Lin.sym(ln)
                if whole_blocks and root == sp.data:
                    # precondition of a block-run consumer: the slice is a whole number of blocks
                    self.positive.add("nblocks")
                    lnv = Lin.sym("nblocks").scale(sp.block.c)
                st.store[("L%d" % i,)] = ("win", root, Lin.const(0), lnv)
            elif re.match(r"^&(?:mut )?\[(\w+); (\w+)\]$", ty):
                m = re.match(r"^&(?:mut )?\[(\w+); (\w+)\]$", ty)
                n = Lin.const(int(m.group(2))) if m.group(2).isdigit() else self.param(m.group(2))
                st.store[("L%d" % i,)] = ("win", root, Lin.const(0), n)
            elif ty.startswith("&"):
                st.store[("L%d" % i,)] = ("ref", (root,))
            elif re.match(r"^(usize|u8|u16|u32|u64|u128)$", ty):
                self.positive.add(root)
                st.store[("L%d" % i,)] = Lin.sym(root)
            else:
                st.store[("L%d" % i,)] = ("opq", root)
        p0 = self.get_path(st, sp.pend) if sp.pend else Lin.const(0)
        L = Lin.sym("len(%s)" % sp.data)
        if whole_blocks:
            L = Lin.sym("nblocks").scale(sp.block.c)
        st.store[self.GC] = Lin.const(0)
        st.store[self.GQ] = p0
        st.store[("$q0",)] = p0
        st.store[("$L",)] = L
        st.facts = st.facts.add(("le", -p0), ("le", -L), *sp.pre)
        if sp.pend is None:
            st.facts = st.facts.add(("le", -Lin.sym("nblocks")))
        elif sp.strict:
            st.facts = st.facts.add(a_le(p0, sp.block))
        else:
            st.facts = st.facts.add(a_lt(p0, sp.block))
        for s in sp.block.syms():
            st.facts = st.facts.add(("le", -Lin.sym(s) + 1))
        outs = self.explore(0, st)
        nret = 0
        for o in outs:
            if o[0] == "ret":
                nret += 1
                self.at_exit(o[1], 0)
            else:
                self.viol.append(("loop-escape", "path ends on an unexpected back edge to bb%s" % o[1], 0))
        self.nret = nret
        return self


def _places(x, acc):
    """collect (local, projs) places and index locals mentioned in an operand / rvalue structure"""
    if isinstance(x, list):
        if len(x) == 2 and x[0] in ("cp", "mv") and isinstance(x[1], list):
            acc.append(x[1])
            return
        for y in x:
            _places(y, acc)


def liveness(fn):
    """live-in locals per block (a local is used by any read, borrow, or projected write)."""
    use = {}
    dfn = {}
    blocks = sorted(fn.reachable())
    for b in blocks:
        u, d = set(), set()

        def rd(l):
            if l not in d:
                u.add(l)

        def place_use(pl, is_def):
            l, projs = pl
            for p in projs:
                if isinstance(p, list) and p[0] == "i":
                    rd(p[1])
            if is_def and not projs:
                d.add(l)
            else:
                rd(l)

        for s in fn.stmts(b):
            if s[0] != "=":
                continue
            rv = s[2]
            acc = []
            _places(rv[1:], acc)
            if rv[0] in ("ref", "raw", "cfd", "disc"):
                place_use(rv[2] if rv[0] in ("ref", "raw") else rv[1], False)
            for pl in acc:
                place_use(pl, False)
            place_use(s[1], True)
        t = fn.term(b)
        acc = []
        if t[0] == "call":
            _places(t[1:3], acc)
            for pl in acc:
                place_use(pl, False)
            place_use(t[3], True)
        elif t[0] in ("sw", "assert"):
            _places(t[1:2], acc)
            for pl in acc:
                place_use(pl, False)
        elif t[0] == "drop":
            place_use(t[1], False)
        elif t[0] == "ret":
            rd(0)
        use[b], dfn[b] = u, d
    live = {b: set() for b in blocks}
    changed = True
    while changed:
        changed = False
        for b in reversed(blocks):
            out = set()
            for s_ in fn.succs(b):
                out |= live.get(s_, set())
            n = use[b] | (out - dfn[b])
            if n != live[b]:
                live[b] = n
                changed = True
    return live


def mir_index(name):
    return ("ops::Index" in name) and (name.endswith("::index") or name.endswith("::index_mut"))
