"""Program model over the cxfacts JSON: functions, CFG, dominators, resolved calls, def-use and
backward expression reconstruction.  Pure stdlib."""
import re
from collections import defaultdict


class AnchorLost(Exception):
    """A rule could not find the program element it is about: fail closed."""


def is_const(op):
    return op[0] == "k"


def const_val(op):
    """Integer value of a constant operand, or None."""
    if op[0] != "k":
        return None
    v = op[1].get("v")
    if isinstance(v, bool):
        return int(v)
    if isinstance(v, int):
        return v
    return None


def op_place(op):
    return op[1] if op[0] in ("cp", "mv") else None


class Call:
    __slots__ = ("fn", "bb", "raw", "func", "args", "dest", "target", "line", "exp", "callee", "res", "ga", "res_ga", "trait", "local", "res_id")

    def __init__(self, fn, bb, t):
        self.fn = fn
        self.bb = bb
        self.raw = t
        self.func = t[1]
        self.args = t[2]
        self.dest = t[3]
        self.target = t[4]
        self.line = t[5]
        self.exp = t[6]
        k = self.func[1] if self.func[0] == "k" else {}
        self.callee = k.get("fn")          # path as written (trait method for trait calls)
        self.res = k.get("res") or k.get("fn")  # resolved path when resolution succeeded
        rn = getattr(getattr(fn, "prog", None), "renames", None)
        if rn:
            for n_, o_ in rn.items():
                if self.callee and (self.callee == n_ or self.callee.startswith(n_ + "::")):
                    self.callee = o_ + self.callee[len(n_):]
                if self.res and (self.res == n_ or self.res.startswith(n_ + "::")):
                    self.res = o_ + self.res[len(n_):]
        self.ga = k.get("ga", [])
        self.res_ga = k.get("res_ga", self.ga)
        self.trait = k.get("trait")
        self.local = bool(k.get("res_local", k.get("fn_local", False)))
        self.res_id = k.get("res_id", k.get("fn_id") if k.get("fn_local") and "res" not in k else None)

    def name(self):
        return self.res or self.callee or "<indirect>"

    def __repr__(self):
        return "Call(%s @bb%d line %s)" % (self.name(), self.bb, self.line)


DIVERGING = re.compile(r"^(core|std)::(panicking|option::(expect|unwrap)_failed|result::unwrap_failed|slice::index::|str::slice_error|intrinsics::abort|hint::unreachable_unchecked|cell::panic)")


class Fn:
    def __init__(self, raw, prog):
        self.raw = raw
        self.prog = prog
        self.id = raw["id"]
        self.path = raw["path"]
        self.name = raw.get("name", "")
        self.blocks = raw["blocks"]
        self.argc = raw["argc"]
        self.locals = raw["locals"]
        self.vis = raw.get("vis")
        self.impl_trait = raw.get("impl_trait")
        self.self_ty = raw.get("self_ty")
        self.span = raw.get("span", "")
        self.kind = raw.get("kind")
        self._cfg = None
        self._calls = None
        self._defs = None
        self._dom = None
        self._pdom = None
        self._escaped = None
        self._retreach = None
        self.dbg = {}
        for nm, pl in raw.get("dbg", []):
            if not pl[1]:
                self.dbg.setdefault(pl[0], nm)
        # renamed local variables: when the function's MIR skeleton (locals, their types, block count) is exactly the pinned
        # tree's, a local keeps the debug name the rule base knows -- a rename of locals changes nothing else
        ent = (getattr(prog, "anchor_table", None) or {}).get(self.path)
        if ent and len(ent) >= 6 and self.kind != "Closure":
            import hashlib
            shape = "%d:%d:%s" % (len(self.locals), len(self.blocks), hashlib.sha1("|".join(self.locals).encode()).hexdigest()[:12])
            if shape == ent[4] and {str(k): v for k, v in self.dbg.items()} != ent[5] and set(str(k) for k in self.dbg) == set(ent[5]):
                self.dbg = {int(k): v for k, v in ent[5].items()}

    def __repr__(self):
        return "Fn(%s)" % self.path

    @property
    def file(self):
        return self.span.split(":")[0]

    @property
    def line(self):
        try:
            return int(self.span.split(":")[1])
        except Exception:
            return 0

    def where(self, line=None):
        return "%s:%s" % (self.file, line if line is not None else self.line)

    # ---------------- CFG ----------------
    def term(self, bb):
        return self.blocks[bb]["t"]

    def stmts(self, bb):
        return self.blocks[bb]["s"]

    def succs(self, bb):
        t = self.blocks[bb]["t"]
        k = t[0]
        if k == "goto":
            return [t[1]]
        if k == "sw":
            out = [b for _, b in t[2]] + [t[3]]
            seen = []
            for b in out:
                if b not in seen:
                    seen.append(b)
            return seen
        if k == "call":
            return [t[4]] if t[4] is not None else []
        if k == "assert":
            return [t[4]]
        if k == "drop":
            return [t[2]]
        return []

    def cfg(self):
        if self._cfg is None:
            n = len(self.blocks)
            succ = [[] for _ in range(n)]
            pred = [[] for _ in range(n)]
            for b in range(n):
                if self.blocks[b].get("cleanup"):
                    continue
                for s in self.succs(b):
                    succ[b].append(s)
                    pred[s].append(b)
            # reachable from entry
            reach = set()
            st = [0]
            while st:
                x = st.pop()
                if x in reach:
                    continue
                reach.add(x)
                st.extend(succ[x])
            self._cfg = (succ, pred, reach)
        return self._cfg

    def reachable(self):
        return self.cfg()[2]

    def ret_blocks(self):
        return [b for b in self.reachable() if self.blocks[b]["t"][0] == "ret"]

    def ret_reaching(self):
        """Blocks from which a normal return is reachable."""
        if self._retreach is None:
            succ, pred, reach = self.cfg()
            s = set()
            st = list(self.ret_blocks())
            while st:
                x = st.pop()
                if x in s:
                    continue
                s.add(x)
                st.extend(p for p in pred[x] if p in reach)
            self._retreach = s
        return self._retreach

    def rpo(self):
        succ, pred, reach = self.cfg()
        seen = set()
        order = []

        def dfs(b):
            stack = [(b, iter(succ[b]))]
            seen.add(b)
            while stack:
                x, it = stack[-1]
                adv = False
                for s in it:
                    if s not in seen:
                        seen.add(s)
                        stack.append((s, iter(succ[s])))
                        adv = True
                        break
                if not adv:
                    order.append(x)
                    stack.pop()

        dfs(0)
        order.reverse()
        return order

    def dominators(self):
        """Immediate dominators over reachable normal blocks (Cooper-Harvey-Kennedy)."""
        if self._dom is None:
            succ, pred, reach = self.cfg()
            order = self.rpo()
            idx = {b: i for i, b in enumerate(order)}
            idom = {0: 0}
            changed = True
            while changed:
                changed = False
                for b in order[1:]:
                    ps = [p for p in pred[b] if p in idom]
                    if not ps:
                        continue
                    new = ps[0]
                    for p in ps[1:]:
                        a, c = p, new
                        while a != c:
                            while idx[a] > idx[c]:
                                a = idom[a]
                            while idx[c] > idx[a]:
                                c = idom[c]
                        new = a
                    if idom.get(b) != new:
                        idom[b] = new
                        changed = True
            self._dom = idom
        return self._dom

    def dominates(self, a, b):
        idom = self.dominators()
        if b not in idom:
            return False
        x = b
        while True:
            if x == a:
                return True
            if x == 0:
                return a == 0
            x = idom[x]

    def postdominates(self, a, b):
        """a post-dominates b w.r.t. normal returns: every path from b to a return passes a.
        (Paths that panic are ignored.)"""
        if a == b:
            return True
        succ, pred, reach = self.cfg()
        rr = self.ret_reaching()
        if b not in rr:
            return True
        seen = set()
        st = [b]
        while st:
            x = st.pop()
            if x == a or x in seen:
                continue
            seen.add(x)
            if self.blocks[x]["t"][0] == "ret":
                return False
            st.extend(s for s in succ[x] if s in rr)
        return True

    def reaches(self, a, b, avoid=()):
        """Is there a CFG path from block a to block b (length >= 0) avoiding `avoid` blocks?"""
        succ = self.cfg()[0]
        seen = set()
        st = [a]
        while st:
            x = st.pop()
            if x == b:
                return True
            if x in seen or x in avoid:
                continue
            seen.add(x)
            st.extend(succ[x])
        return False

    def loop_blocks(self):
        """Blocks that lie on a CFG cycle."""
        succ, pred, reach = self.cfg()
        out = set()
        for b in reach:
            for s in succ[b]:
                if self.reaches(s, b):
                    out.add(b)
                    break
        return out

    # ---------------- calls ----------------
    def calls(self):
        if self._calls is None:
            cs = []
            for b in sorted(self.reachable()):
                t = self.blocks[b]["t"]
                if t[0] == "call":
                    cs.append(Call(self, b, t))
            self._calls = cs
        return self._calls

    def calls_to(self, pat):
        rx = re.compile(pat)
        return [c for c in self.calls() if rx.search(c.name()) or (c.callee and rx.search(c.callee))]

    def diverges(self, bb):
        return bb not in self.ret_reaching()

    # ---------------- def-use ----------------
    def defs(self):
        if self._defs is None:
            d = defaultdict(list)
            esc = set()
            for b in sorted(self.reachable()):
                blk = self.blocks[b]
                for i, s in enumerate(blk["s"]):
                    if s[0] == "=":
                        pl = s[1]
                        if "*" not in pl[1]:
                            d[pl[0]].append((b, i, not pl[1]))
                        rv = s[2]
                        if rv[0] == "ref" and rv[1] == "mut" and not _has_deref(rv[2]):
                            esc.add(rv[2][0])
                        if rv[0] == "raw" and not _has_deref(rv[2]):
                            esc.add(rv[2][0])
                    elif s[0] == "sd":
                        d[s[1][0]].append((b, i, False))
                t = blk["t"]
                if t[0] == "call":
                    pl = t[3]
                    if "*" not in pl[1]:
                        d[pl[0]].append((b, "t", not pl[1]))
            self._defs = d
            self._escaped = esc
        return self._defs

    def escaped(self):
        self.defs()
        return self._escaped

    def single_def(self, local):
        """(bb, idx) of the unique whole-place definition of `local`, else None."""
        if 1 <= local <= self.argc:
            return None
        ds = self.defs().get(local, [])
        if len(ds) == 1 and ds[0][2] and local not in self.escaped():
            return ds[0][:2]
        return None

    def rvalue_at(self, bb, idx):
        if idx == "t":
            return self.blocks[bb]["t"]
        return self.blocks[bb]["s"][idx][2]

    # ---------------- expression reconstruction ----------------
    def expr(self, op, depth=0):
        """Expression tree of an operand, chasing single-definition temporaries backwards."""
        if op[0] == "k":
            k = op[1]
            if "fn" in k:
                return ("fnref", k.get("res") or k["fn"])
            v = k.get("v")
            if isinstance(v, (int, bool)):
                return ("const", int(v), k.get("t"), k.get("def"))
            if "param" in k:
                return ("param", k["param"], k.get("t"))
            return ("kconst", k.get("def"), k.get("t"), _freeze(v))
        if op[0] in ("cp", "mv"):
            return self.place_expr(op[1], depth)
        return ("opaque", str(op))

    def place_expr(self, pl, depth=0):
        local, projs = pl[0], pl[1]
        base = self.local_expr(local, depth)
        return self._apply_projs(base, projs, depth)

    def local_expr(self, local, depth=0):
        if depth > 60:
            return ("deep", local)
        if 1 <= local <= self.argc:
            return ("arg", local)
        sd = self.single_def(local)
        if sd is None:
            return ("var", local)
        bb, idx = sd
        if idx == "t":
            t = self.blocks[bb]["t"]
            c = Call(self, bb, t)
            nm = c.name()
            if nm in ("core::mem::size_of", "core::mem::align_of"):
                nm = "%s::<%s>" % (nm, ",".join(c.ga))
            elif c.local and any(re.match(r"^\d+$", g) for g in c.res_ga):
                nm = "%s#%s" % (nm, ",".join(c.res_ga))
            return ("call", nm, tuple(self.expr(a, depth + 1) for a in c.args), (bb,))
        rv = self.blocks[bb]["s"][idx][2]
        return self.rvalue_expr(rv, depth + 1)

    def rvalue_expr(self, rv, depth=0):
        k = rv[0]
        if k == "use":
            return self.expr(rv[1], depth)
        if k == "cfd":
            return self.place_expr(rv[1], depth)
        if k == "bin":
            return ("bin", rv[1], self.expr(rv[2], depth), self.expr(rv[3], depth))
        if k == "un":
            return ("un", rv[1], self.expr(rv[2], depth))
        if k == "cast":
            return ("cast", rv[1], self.expr(rv[2], depth), rv[3])
        if k == "ref":
            return ("ref", rv[1], self.place_expr(rv[2], depth))
        if k == "raw":
            return ("ref", "raw", self.place_expr(rv[2], depth))
        if k == "rep":
            return ("rep", self.expr(rv[1], depth), rv[2])
        if k == "agg":
            return ("agg", _freeze(rv[1]), tuple(self.expr(o, depth) for o in rv[2]))
        if k == "disc":
            return ("disc", self.place_expr(rv[1], depth))
        return ("opaque", str(rv)[:80])

    def _apply_projs(self, base, projs, depth):
        e = base
        for p in projs:
            if p == "*":
                if e[0] == "ref":
                    e = e[2]
                else:
                    e = ("deref", e)
            elif p[0] == "f":
                if e[0] == "bin" and e[1].endswith("WithOverflow"):
                    if p[1] == 0:
                        e = ("bin", e[1][: -len("WithOverflow")], e[2], e[3])
                    else:
                        e = ("ovf", e[1][: -len("WithOverflow")], e[2], e[3])
                elif e[0] == "agg" and p[1] < len(e[2]):
                    e = e[2][p[1]]
                else:
                    e = ("field", e, p[1], p[2])
            elif p[0] == "i":
                e = ("index", e, self.local_expr(p[1], depth + 1))
            elif p[0] == "c":
                e = ("cindex", e, p[1], p[3])
            elif p[0] == "s":
                e = ("subslice", e, p[1], p[2], p[3])
            elif p[0] == "d":
                e = ("downcast", e, p[1], p[2])
            else:
                e = ("proj", e, str(p))
        return e

    # ---------------- branch facts ----------------
    def edge_facts(self, bb):
        """Conditions known on entry to `bb`: list of (cond_expr, value_set_or_truth, origin_bb).
        For bool switches: (expr, True/False).  For integer switches: (expr, ('eq', v)) or
        (expr, ('notin', (v...)))."""
        succ, pred, reach = self.cfg()
        idom = self.dominators()
        facts = []
        x = bb
        seen = set()
        while x in idom and x not in seen:
            seen.add(x)
            d = idom[x]
            if d == x:
                break
            # does the edge d->s (for some successor s) dominate bb?
            t = self.blocks[d]["t"]
            if t[0] == "sw":
                for s in set(self.succs(d)):
                    if self.dominates(s, bb) and all(p == d for p in pred[s]):
                        vals = [v for v, b in t[2] if b == s]
                        e = self.expr(t[1])
                        isbool = t[4] == "bool"
                        if s == t[3] and not vals:
                            others = tuple(v for v, _ in t[2])
                            if isbool and others == (0,):
                                facts.append((e, True, d))
                            else:
                                facts.append((e, ("notin", others), d))
                        elif vals and s != t[3]:
                            if isbool:
                                facts.append((e, bool(vals[0]), d))
                            else:
                                facts.append((e, ("in", tuple(vals)), d))
            elif t[0] == "assert":
                if self.dominates(t[4], bb):
                    facts.append((self.expr(t[1]), bool(t[2]), d))
            x = d
        return facts

    def local_ty(self, local):
        return self.locals[local]


def _has_deref(pl):
    return any(p == "*" for p in pl[1])


def _freeze(v):
    if isinstance(v, list):
        return tuple(_freeze(x) for x in v)
    if isinstance(v, dict):
        return tuple(sorted((k, _freeze(x)) for k, x in v.items()))
    return v


class Program:
    def __init__(self, facts, cfg="K0"):
        self.cfg = cfg
        self.raw = facts
        import json, os
        if Program._ANCHORS is None:
            try:
                Program._ANCHORS = json.load(open(os.path.join(os.path.dirname(os.path.abspath(__file__)), "anchors.json")))
            except Exception:
                Program._ANCHORS = {}
        self.anchor_table = Program._ANCHORS.get(cfg) or {}
        self.field_renames = self._resolve_field_renames(facts)
        self.fns = {}
        self.by_path = defaultdict(list)
        for f in facts["fns"]:
            fn = Fn(f, self)
            self.fns[fn.id] = fn
            self.by_path[fn.path].append(fn)
        self.consts = {}
        self.consts_all = defaultdict(list)
        for c in facts["consts"]:
            self.consts_all[c["path"]].append(c)
            self.consts[c["path"]] = c
        self.adts = {a["path"]: a for a in facts["adts"]}
        self.impls = facts["impls"]
        self._callers = None
        self.renames = {}       # new path -> the path the rule base knows (private helper renamed, same module, same signature)
        self._resolve_renames()

    _ANCHORS = None

    def _resolve_field_renames(self, facts):
        """private struct fields renamed (same type path, same number, order and types of fields, different names): the facts
        are rewritten to the names the rule base knows"""
        pinned = (self.anchor_table or {}).get("#adts") or {}
        if not pinned:
            return {}
        ren = {}      # adt path -> {idx: (new, old)}
        keep = set()  # (idx, name) pairs of fields that were NOT renamed anywhere
        for a in facts["adts"]:
            old = pinned.get(a["path"])
            for vi, v in enumerate(a["variants"]):
                names = [f["name"] for f in v["fields"]]
                types = [f["t"] for f in v["fields"]]
                o = old[vi] if old and vi < len(old) else None
                if o and len(o[0]) == len(names) and o[1] == types and o[0] != names and a.get("kind") == "Struct" and all(not str(f.get("vis") or "").startswith("Public") or o[0][i] == names[i] for i, f in enumerate(v["fields"])):
                    for i, (n_, o_) in enumerate(zip(names, o[0])):
                        if n_ != o_:
                            ren.setdefault(a["path"], {})[i] = (n_, o_)
                        else:
                            keep.add((i, n_))
                else:
                    for i, n_ in enumerate(names):
                        keep.add((i, n_))
        if not ren:
            return {}
        pair = {}
        for pth, m in ren.items():
            for i, (n_, o_) in m.items():
                if (i, n_) in keep or pair.get((i, n_), o_) != o_:
                    return {}          # ambiguous: a field of that index and name exists unrenamed elsewhere
                pair[(i, n_)] = o_
        for a in facts["adts"]:
            if a["path"] in ren:
                for v in a["variants"]:
                    for i, f in enumerate(v["fields"]):
                        if i in ren[a["path"]]:
                            f["name"] = ren[a["path"]][i][1]

        def rew(x):
            if isinstance(x, list):
                if len(x) == 3 and x[0] == "f" and isinstance(x[1], int) and isinstance(x[2], str) and (x[1], x[2]) in pair:
                    x[2] = pair[(x[1], x[2])]
                    return
                if len(x) >= 5 and x[0] == "adt" and x[1] in ren and isinstance(x[4], list):
                    for i, (n_, o_) in ren[x[1]].items():
                        if i < len(x[4]) and x[4][i] == n_:
                            x[4][i] = o_
                for y in x:
                    rew(y)
            elif isinstance(x, dict):
                for y in x.values():
                    rew(y)
        for f in facts["fns"]:
            rew(f["blocks"])
            for d_ in f.get("dbg", []):
                rew(d_)
        return ren

    def _resolve_renames(self):
        """A private function of the pinned tree that is missing now, while exactly one NEW private function of the same
        module has the identical signature, was renamed: the rule base keeps seeing it under the name it knows."""
        import json, os
        if Program._ANCHORS is None:
            try:
                Program._ANCHORS = json.load(open(os.path.join(os.path.dirname(os.path.abspath(__file__)), "anchors.json")))
            except Exception:
                Program._ANCHORS = {}
        table = Program._ANCHORS.get(self.cfg) or {}
        if not table:
            return
        missing = [p_ for p_ in table if not p_.startswith("#") and p_ not in self.by_path and not table[p_][1].startswith("Public")]
        if not missing or len(missing) > 12:
            return
        new = [f for f in self.fns.values() if f.kind != "Closure" and f.path not in table and not str(f.raw.get("vis") or "").startswith("Public")]
        used = set()
        unstable = set(missing) | {f.path for f in new}
        cur_callers = defaultdict(set)
        for f in self.fns.values():
            for t_ in (b_["t"] for b_ in f.blocks):
                if t_[0] == "call" and t_[1][0] == "k":
                    nm_ = t_[1][1].get("res") or t_[1][1].get("fn")
                    if nm_:
                        cur_callers[nm_].add(f.path)

        def profile_old(o_):
            ent = table[o_]
            if len(ent) < 4:
                return None
            return (frozenset(x for x in ent[2] if x not in unstable), frozenset(x for x in ent[3] if x not in unstable))

        def profile_new(f):
            cs = set()
            for t_ in (b_["t"] for b_ in f.blocks):
                if t_[0] == "call" and t_[1][0] == "k":
                    nm_ = t_[1][1].get("res") or t_[1][1].get("fn")
                    if nm_ and not nm_.startswith("core::panicking"):
                        cs.add(nm_)
            return (frozenset(x for x in cur_callers.get(f.path, ()) if x not in unstable), frozenset(x for x in cs if x not in unstable))
        for old in sorted(missing, key=len):
            sig, vis = table[old][0], table[old][1]
            parent = old.rsplit("::", 1)[0]
            # a nested item moves with its renamed parent
            for n_, o_ in list(self.renames.items()):
                if parent == o_ or parent.startswith(o_ + "::"):
                    pass
            cands = [f for f in new if f.id not in used and f.raw.get("sig", "") == sig and (f.path.rsplit("::", 1)[0] == parent or self.renames.get(f.path.rsplit("::", 1)[0]) == parent)]
            if len(cands) > 1 and profile_old(old) is not None:
                # several new functions share the signature: the one with the same callers and callees (outside the renamed set)
                po = profile_old(old)
                cands = [f for f in cands if profile_new(f) == po]
            if len(cands) > 1 and len(table[old]) >= 5:
                # still tied: the one whose MIR skeleton (locals, their types, block count) is the pinned one
                import hashlib
                def shp(f):
                    return "%d:%d:%s" % (len(f.locals), len(f.blocks), hashlib.sha1("|".join(f.locals).encode()).hexdigest()[:12])
                c2 = [f for f in cands if shp(f) == table[old][4]]
                if c2:
                    cands = c2
            if len(cands) == 1 and sig:
                f = cands[0]
                used.add(f.id)
                self.renames[f.path] = old
                self.by_path[old].append(f)
                f.renamed_from = f.path
                f.path = old
        # closures / nested items of renamed functions
        if self.renames:
            for f in self.fns.values():
                for n_, o_ in self.renames.items():
                    if f.path.startswith(n_ + "::"):
                        np_ = o_ + f.path[len(n_):]
                        self.by_path[np_].append(f)
                        f.path = np_

    def fn(self, path):
        l = self.by_path.get(path)
        if not l:
            raise AnchorLost("function %s not found in %s" % (path, self.cfg))
        if len(l) > 1:
            raise AnchorLost("function path %s is ambiguous (%d bodies)" % (path, len(l)))
        return l[0]

    def fn_opt(self, path):
        l = self.by_path.get(path)
        return l[0] if l and len(l) == 1 else None

    def find(self, pat):
        rx = re.compile(pat)
        return [f for f in self.fns.values() if rx.search(f.path)]

    def const(self, path):
        c = self.consts.get(path)
        if c is None or len(self.consts_all[path]) != 1:
            raise AnchorLost("const %s not found or ambiguous in %s" % (path, self.cfg))
        if "v" not in c:
            raise AnchorLost("const %s has no evaluated value in %s" % (path, self.cfg))
        return c["v"]

    def const_opt(self, path):
        c = self.consts.get(path)
        return c.get("v") if c else None

    def methods_of_impl(self, trait_rx=None, self_rx=None):
        out = []
        for f in self.fns.values():
            if trait_rx is not None:
                if not f.impl_trait or not re.search(trait_rx, f.impl_trait):
                    continue
            if self_rx is not None:
                if not f.self_ty or not re.search(self_rx, f.self_ty):
                    continue
            out.append(f)
        return out

    def closures_of(self, fn):
        return [f for f in self.fns.values() if f.kind == "Closure" and f.raw.get("parent_id") == fn.id]

    def callers(self):
        if self._callers is None:
            m = defaultdict(list)
            for f in self.fns.values():
                for c in f.calls():
                    m[c.name()].append(c)
                    if c.callee and c.callee != c.name():
                        m[c.callee].append(c)
            self._callers = m
        return self._callers

    def reach_fns(self, root, maxdepth=12):
        """Transitive closure of crate-local callees (by resolved path) from fn `root`."""
        seen = {}
        st = [(root, 0)]
        while st:
            f, d = st.pop()
            if f.id in seen or d > maxdepth:
                continue
            seen[f.id] = f
            for c in f.calls():
                for g in self.by_path.get(c.name(), []):
                    st.append((g, d + 1))
            for g in self.closures_of(f):
                st.append((g, d + 1))
        return list(seen.values())


# ---------------- expression utilities ----------------

def walk(e):
    """Yield every sub-expression of e (pre-order).  Tuples whose head is not a tag string
    (argument lists) are containers and are traversed completely."""
    st = [e]
    while st:
        x = st.pop()
        if isinstance(x, tuple) and x:
            if isinstance(x[0], str):
                yield x
                rest = x[1:]
            else:
                rest = x
            for y in rest:
                if isinstance(y, tuple):
                    st.append(y)


def strip_casts(e):
    while isinstance(e, tuple) and e and e[0] == "cast" and e[1] in ("IntToInt",):
        e = e[2]
    return e


def is_self_field(e, name=None, selfarg=1):
    """e reads field `name` of *self (self being argument `selfarg`, by value or by reference)."""
    if not (isinstance(e, tuple) and e[0] == "field"):
        return False
    b = e[1]
    ok = b == ("deref", ("arg", selfarg)) or b == ("arg", selfarg)
    return ok and (name is None or e[3] == name)


def field_path(e):
    """('field',('field',X,..,'a'),..,'b') -> (X, ['a','b'])"""
    names = []
    while isinstance(e, tuple) and e[0] == "field":
        names.append(e[3] if e[3] != "" else str(e[2]))
        e = e[1]
    names.reverse()
    return e, names


def fmt(e, depth=0):
    """Human-readable rendering of an expression tree (for reports)."""
    if not isinstance(e, tuple):
        return str(e)
    if depth > 12:
        return "…"
    k = e[0]
    f = lambda x: fmt(x, depth + 1)
    if k == "const":
        return str(e[1])
    if k == "arg":
        return "arg%d" % e[1]
    if k == "var":
        return "_%d" % e[1]
    if k == "bin":
        return "(%s %s %s)" % (f(e[2]), e[1], f(e[3]))
    if k == "ovf":
        return "ovf(%s %s %s)" % (f(e[2]), e[1], f(e[3]))
    if k == "un":
        return "%s(%s)" % (e[1], f(e[2]))
    if k == "cast":
        return "(%s as %s)" % (f(e[2]), e[3])
    if k == "field":
        return "%s.%s" % (f(e[1]), e[3] if e[3] != "" else e[2])
    if k == "deref":
        return "*%s" % f(e[1])
    if k == "ref":
        return "&%s" % f(e[2])
    if k == "index":
        return "%s[%s]" % (f(e[1]), f(e[2]))
    if k == "cindex":
        return "%s[%s%d]" % (f(e[1]), "-" if e[3] else "", e[2])
    if k == "call":
        return "%s(%s)" % (e[1].split("::")[-1] if len(e[1]) > 40 else e[1], ", ".join(f(a) for a in e[2]))
    if k == "param":
        return e[1]
    if k == "kconst":
        return "const(%s)" % (e[1] or e[2])
    if k == "agg":
        return "agg(%s)" % ", ".join(f(a) for a in e[2])
    if k == "rep":
        return "[%s; %s]" % (f(e[1]), e[2])
    return "%s(…)" % k
